//! C16 — inverse block transforms: impulses at every coefficient position (the transforms are linear,
//! so the images of all basis vectors determine the operator) for all 27 transform types, on every
//! code path (generic / SSE2 / SSE4.1 via the cfg-gated hook), buffer alignments and strides;
//! compared with the f64 definition (DCT family) and across paths (all types).

use crate::explore::{n_threads, par_map};
use crate::report::{fnv, Report};
use crate::util::{guard, Lcg};
use jxl_grid::MutableSubgrid;
use jxl_render::verif_vardct as vv;
use jxl_vardct::TransformType;
use serde_json::json;

const ALL: [TransformType; 27] = {
    use TransformType::*;
    [Dct8, Hornuss, Dct2, Dct4, Dct16, Dct32, Dct16x8, Dct8x16, Dct32x8, Dct8x32, Dct32x16, Dct16x32, Dct4x8, Dct8x4, Afv0, Afv1, Afv2, Afv3, Dct64, Dct64x32, Dct32x64, Dct128, Dct128x64, Dct64x128, Dct256, Dct256x128, Dct128x256]
};

fn is_dct_family(t: TransformType) -> bool {
    use TransformType::*;
    !matches!(t, Hornuss | Dct2 | Dct4 | Dct4x8 | Dct8x4 | Afv0 | Afv1 | Afv2 | Afv3)
}

fn run_transform(path: &str, t: TransformType, w: usize, h: usize, input: &[f32], offset: usize, extra_stride: usize) -> Result<Vec<f32>, String> {
    let stride = w + extra_stride;
    let mut buf = vec![0f32; offset + stride * h + 8];
    for y in 0..h {
        for x in 0..w {
            buf[offset + y * stride + x] = input[y * w + x];
        }
        for x in w..stride {
            buf[offset + y * stride + x] = 12345.0; // canary in the padding
        }
    }
    let r = guard(|| {
        let mut g = MutableSubgrid::from_buf(&mut buf[offset..], w, h, stride);
        vv::transform(path, &mut g, t);
    });
    if let Err(p) = r {
        return Err(format!("panic: {p}"));
    }
    let mut out = vec![0f32; w * h];
    for y in 0..h {
        for x in 0..w {
            out[y * w + x] = buf[offset + y * stride + x];
        }
        for x in w..stride {
            if buf[offset + y * stride + x] != 12345.0 {
                return Err(format!("padding column {x} of row {y} was overwritten"));
            }
        }
    }
    Ok(out)
}

fn alpha(k: usize) -> f64 {
    if k == 0 {
        1.0
    } else {
        std::f64::consts::SQRT_2
    }
}

/// f64 definition of the 2-D inverse DCT of an impulse of height 1 at coefficient (u, v) of a w x h block.
fn idct_impulse(w: usize, h: usize, u: usize, v: usize, transposed: bool) -> Vec<f64> {
    let (u, v) = if transposed { (v, u) } else { (u, v) };
    let mut out = vec![0f64; w * h];
    let cu: Vec<f64> = (0..w).map(|x| alpha(u) * (((2 * x + 1) * u) as f64 * std::f64::consts::PI / (2.0 * w as f64)).cos()).collect();
    let cv: Vec<f64> = (0..h).map(|y| alpha(v) * (((2 * y + 1) * v) as f64 * std::f64::consts::PI / (2.0 * h as f64)).cos()).collect();
    for y in 0..h {
        for x in 0..w {
            out[y * w + x] = cu[x] * cv[y];
        }
    }
    out
}

/// f64 definition of the nine transform types that are not plain DCTs (jxlw::transforms).  The 4x4
/// sub-blocks of DCT4x4 and AFV keep their coefficients with the horizontal frequency along the rows.
fn model_non_dct(t: TransformType, c: &[f64; 64]) -> [f64; 64] {
    use jxlw::transforms as m;
    use TransformType::*;
    match t {
        Hornuss => m::hornuss(c),
        Dct2 => m::dct2x2(c),
        Dct4 => m::dct4x4(c, true),
        Dct4x8 => m::dct4x8(c, false),
        Dct8x4 => m::dct4x8(c, true),
        Afv0 => m::afv(c, 0, true),
        Afv1 => m::afv(c, 1, true),
        Afv2 => m::afv(c, 2, true),
        Afv3 => m::afv(c, 3, true),
        _ => unreachable!(),
    }
}

struct TypeResult {
    evals: u64,
    impulses: u64,
    viol: Option<(String, String)>,
    layout: &'static str,
}

fn check_type(t: TransformType, quick: bool, seed: u64, part: usize, nparts: usize) -> TypeResult {
    let (bw, bh) = t.dct_select_size();
    let (w, h) = (bw as usize * 8, bh as usize * 8);
    let paths = vv::paths();
    let mut res = TypeResult { evals: 0, impulses: 0, viol: None, layout: "n/a" };
    let tol_paths = 5e-5f64; // f32 rounding differences between paths reach 1.0e-5 of the block maximum at size 256 (measured); 5x margin
    let tol_def = 1e-4f64;
    // impulse positions
    let mut pos: Vec<(usize, usize)> = Vec::new();
    let all_positions = !quick || w * h <= 64 * 64;
    let cap = if quick { 1400 } else { usize::MAX };
    if all_positions && w * h <= cap.max(64 * 64) {
        for v in 0..h {
            for u in 0..w {
                pos.push((u, v));
            }
        }
    } else {
        for v in 0..h {
            for u in 0..w {
                if u < 3 || v < 3 || u == v || u + 1 == w || v + 1 == h || (u % 37 == 5 && v % 41 == 7) {
                    pos.push((u, v));
                }
            }
        }
    }
    if quick && pos.len() > cap {
        let step = pos.len() / cap + 1;
        pos = pos.into_iter().step_by(step).collect();
    }
    // layout hypothesis for rectangular DCTs: decided by the two impulses (1,0) and (0,1)
    let mut transposed = false;
    if is_dct_family(t) {
        let mut inp = vec![0f32; w * h];
        inp[1] = 1.0;
        match run_transform("generic", t, w, h, &inp, 0, 0) {
            Ok(o) => {
                let d = |tr: bool| -> f64 {
                    let e = idct_impulse(w, h, 1, 0, tr);
                    o.iter().zip(&e).map(|(a, b)| (*a as f64 - b).abs()).fold(0.0, f64::max)
                };
                transposed = d(true) < d(false);
                res.layout = if w == h { "square" } else if transposed { "transposed" } else { "natural" };
            }
            Err(e) => {
                res.viol = Some((format!("transform-failed:{:?}", t), e));
                return res;
            }
        }
    }
    let mut check_input = |inp: &[f32], label: &str, expect: Option<&[f64]>, res: &mut TypeResult| {
        let mut outs: Vec<(String, Vec<f32>)> = vec![];
        for p in &paths {
            for (off, es) in [(0usize, 0usize), (1, 0), (2, 4), (3, 4)] {
                if (quick && off == 2) || (w * h > 64 * 64 && off >= 2) {
                    continue;
                }
                res.evals += 1;
                match run_transform(p, t, w, h, inp, off, es) {
                    Ok(o) => outs.push((format!("{p}/off{off}/stride+{es}"), o)),
                    Err(e) => {
                        if res.viol.is_none() {
                            res.viol = Some((format!("transform-failed:{:?}:{p}", t), format!("{label}: {e}")));
                        }
                        return;
                    }
                }
            }
        }
        let scale = outs[0].1.iter().fold(1.0f64, |m, v| m.max(v.abs() as f64));
        for (name, o) in &outs[1..] {
            let d = o.iter().zip(&outs[0].1).map(|(a, b)| (*a as f64 - *b as f64).abs()).fold(0.0, f64::max);
            if !(d <= tol_paths * scale) && res.viol.is_none() {
                res.viol = Some((format!("paths-differ:{:?}", t), format!("{label}: {} vs {}: max abs difference {d:e} (block max {scale})", outs[0].0, name)));
            }
        }
        if let Some(e) = expect {
            for (name, o) in &outs {
                let d = o.iter().zip(e).map(|(a, b)| (*a as f64 - b).abs()).fold(0.0, f64::max);
                let sc = e.iter().fold(1.0f64, |m, v| m.max(v.abs()));
                if !(d <= tol_def * sc) && res.viol.is_none() {
                    let i = (0..o.len()).max_by(|&a, &b| (o[a] as f64 - e[a]).abs().partial_cmp(&(o[b] as f64 - e[b]).abs()).unwrap()).unwrap();
                    res.viol = Some((format!("definition-mismatch:{:?}", t), format!("{label} on {name}: pixel ({},{}) = {} but the definition gives {} (max abs error {d:e})", i % w, i / w, o[i], e[i])));
                }
            }
        }
    };
    for (pi, &(u, v)) in pos.iter().enumerate() {
        if pi % nparts != part {
            continue;
        }
        let mut inp = vec![0f32; w * h];
        inp[v * w + u] = 1.0;
        let e = if is_dct_family(t) {
            Some(idct_impulse(w, h, u, v, transposed))
        } else {
            let mut c = [0f64; 64];
            c[v * 8 + u] = 1.0;
            Some(model_non_dct(t, &c).to_vec())
        };
        check_input(&inp, &format!("impulse at ({u},{v})"), e.as_deref(), &mut res);
        res.impulses += 1;
        if res.viol.is_some() {
            return res;
        }
    }
    if part != 0 {
        return res;
    }
    // DC only: the (0,0) coefficient is the block mean for every transform type
    {
        let mut inp = vec![0f32; w * h];
        inp[0] = 0.625;
        let e = vec![0.625f64; w * h];
        check_input(&inp, "DC only", Some(&e), &mut res);
    }
    // all ones and two pseudo-random blocks: paths agree; DCT family also against the definition by superposition
    let mut rng = Lcg(seed ^ (w * 1000 + h) as u64);
    for k in 0..3 {
        let inp: Vec<f32> = (0..w * h).map(|i| if k == 0 { 1.0 } else { (rng.below(2001) as f32 - 1000.0) / 1000.0 * if i == 0 { 1.0 } else { 0.25 } }).collect();
        let e = if is_dct_family(t) && w * h <= 32 * 32 {
            let mut acc = vec![0f64; w * h];
            for v in 0..h {
                for u in 0..w {
                    let c = inp[v * w + u] as f64;
                    if c != 0.0 {
                        let b = idct_impulse(w, h, u, v, transposed);
                        for i in 0..w * h {
                            acc[i] += c * b[i];
                        }
                    }
                }
            }
            Some(acc)
        } else if !is_dct_family(t) {
            let mut c = [0f64; 64];
            for i in 0..64 {
                c[i] = inp[i] as f64;
            }
            Some(model_non_dct(t, &c).to_vec())
        } else {
            None
        };
        check_input(&inp, &format!("block pattern {k}"), e.as_deref(), &mut res);
    }
    res
}

/// LF injection: `transform_varblocks` (as dispatched at run time) first derives the lowest
/// bw x bh coefficients of a varblock from the LF image, then inverts.  Definition-level oracle: the
/// LF image is the 8x downsampled image, so with all other coefficients zero the mean of every 8x8
/// sub-block of the output equals the LF sample; with other coefficients present the result is the sum
/// (linearity) of that and the plain inverse transform of the block with its lowest coefficients zeroed.
fn check_lf_injection(t: TransformType, quick: bool, seed: u64) -> (u64, Option<(String, String)>) {
    use jxl_grid::{AlignedGrid, SharedSubgrid};
    use jxl_vardct::BlockInfo;
    let (bw, bh) = t.dct_select_size();
    let (bw, bh) = (bw as usize, bh as usize);
    let (w, h) = (bw * 8, bh * 8);
    let mut info = AlignedGrid::<BlockInfo>::with_alloc_tracker(bw, bh, None).unwrap();
    for y in 0..bh {
        for x in 0..bw {
            *info.get_mut(x, y) = if x == 0 && y == 0 { BlockInfo::Data { dct_select: t, hf_mul: 1 } } else { BlockInfo::Occupied };
        }
    }
    let shifts = [jxl_modular::ChannelShift::from_shift(0); 3];
    let mut evals = 0u64;
    let run = |lf: &[f32], coeff: &[f32]| -> Result<Vec<f32>, String> {
        let mut lfbuf = lf.to_vec();
        let mut bufs = [coeff.to_vec(), coeff.to_vec(), coeff.to_vec()];
        let r = guard(|| {
            let lfg = SharedSubgrid::from_buf(&lfbuf, bw, bh, bw);
            let lfs = [lfg, lfg, lfg];
            let [a, b, c] = &mut bufs;
            let mut outs = [MutableSubgrid::from_buf(a, w, h, w), MutableSubgrid::from_buf(b, w, h, w), MutableSubgrid::from_buf(c, w, h, w)];
            vv::transform_varblocks(&lfs, &mut outs, shifts, &info.as_subgrid());
        });
        lfbuf.clear();
        r.map_err(|p| format!("panic: {p}"))?;
        if bufs[0] != bufs[1] || bufs[0] != bufs[2] {
            return Err("the three channels were given identical input but differ".into());
        }
        Ok(bufs[0].clone())
    };
    let means = |o: &[f32]| -> Vec<f64> {
        let mut m = vec![0f64; bw * bh];
        for y in 0..h {
            for x in 0..w {
                m[(y / 8) * bw + x / 8] += o[y * w + x] as f64 / 64.0;
            }
        }
        m
    };
    // LF inputs: an impulse at every LF position (capped in quick for the largest blocks), flat, random
    let mut lfs: Vec<(String, Vec<f32>)> = vec![];
    let n = bw * bh;
    let step = if quick && n > 64 { n / 64 + 1 } else { 1 };
    for i in (0..n).step_by(step) {
        let mut l = vec![0f32; n];
        l[i] = 1.0;
        lfs.push((format!("LF impulse at ({},{})", i % bw, i / bw), l));
    }
    lfs.push(("flat LF 0.375".into(), vec![0.375; n]));
    let mut rng = Lcg(seed ^ 0x1f ^ (w * 977 + h) as u64);
    lfs.push(("random LF".into(), (0..n).map(|_| (rng.below(2001) as f32 - 1000.0) / 1000.0).collect()));
    let zero = vec![0f32; w * h];
    for (label, lf) in &lfs {
        evals += 1;
        let o = match run(lf, &zero) {
            Ok(o) => o,
            Err(e) => return (evals, Some((format!("lf-injection-failed:{:?}", t), format!("{label}: {e}")))),
        };
        let m = means(&o);
        let sc = lf.iter().fold(1e-3f64, |a, v| a.max(v.abs() as f64));
        for i in 0..n {
            if !((m[i] - lf[i] as f64).abs() <= 2e-5 * sc.max(1.0)) {
                return (evals, Some((format!("lf-injection-mean:{:?}", t), format!("{label}, no other coefficients: mean of 8x8 sub-block ({},{}) is {} but the LF sample is {}", i % bw, i / bw, m[i], lf[i]))));
            }
        }
    }
    // with HF present: result = inverse(block with lowest coefficients zeroed) + result(LF only)
    {
        let lf = &lfs.last().unwrap().1;
        let hf: Vec<f32> = (0..w * h).map(|i| if (i % w) < bw && (i / w) < bh { 7.5 } else { (rng.below(2001) as f32 - 1000.0) / 4000.0 }).collect();
        evals += 3;
        let both = run(lf, &hf);
        let lf_only = run(lf, &zero);
        let mut hf0 = hf.clone();
        for y in 0..bh {
            for x in 0..bw {
                hf0[y * w + x] = 0.0;
            }
        }
        let path = *vv::paths().last().unwrap();
        let hf_only = run_transform(path, t, w, h, &hf0, 0, 0);
        match (both, lf_only, hf_only) {
            (Ok(a), Ok(b), Ok(c)) => {
                let sc = a.iter().fold(1.0f64, |m, v| m.max(v.abs() as f64));
                for i in 0..w * h {
                    let d = (a[i] as f64 - (b[i] as f64 + c[i] as f64)).abs();
                    if !(d <= 1e-4 * sc) {
                        return (evals, Some((format!("lf-injection-superposition:{:?}", t), format!("pixel ({},{}): with LF and HF {} but LF-only {} + HF-only {} (values found in the lowest coefficient positions must be replaced by the LF-derived ones)", i % w, i / w, a[i], b[i], c[i]))));
                    }
                }
            }
            (a, b, c) => return (evals, Some((format!("lf-injection-failed:{:?}", t), format!("{:?} {:?} {:?}", a.err(), b.err(), c.err())))),
        }
    }
    (evals, None)
}

/// Forward 2-D DCT of every code path (used by LF injection) against the f64 definition, and
/// inverse(forward(x)) = x, for every block shape bw x bh with bw, bh in {1,2,4,8,16,32}.
fn check_forward_dct(seed: u64) -> (u64, Option<(String, String)>) {
    let mut evals = 0;
    let mut rng = Lcg(seed ^ 0xdc7);
    for &w in &[1usize, 2, 4, 8, 16, 32] {
        for &h in &[1usize, 2, 4, 8, 16, 32] {
            let mut inputs: Vec<Vec<f32>> = vec![];
            for i in 0..w * h {
                if w * h <= 64 || i % 37 == 0 || i < w || i % w == 0 {
                    let mut x = vec![0f32; w * h];
                    x[i] = 1.0;
                    inputs.push(x);
                }
            }
            inputs.push((0..w * h).map(|_| (rng.below(2001) as f32 - 1000.0) / 1000.0).collect());
            for x in &inputs {
                let xf: Vec<f64> = x.iter().map(|&v| v as f64).collect();
                let want = jxlw::transforms::dct(&xf, h, w);
                for p in vv::paths() {
                    evals += 1;
                    let mut buf = x.clone();
                    let r = guard(|| {
                        let mut g = MutableSubgrid::from_buf(&mut buf, w, h, w);
                        vv::dct_2d(p, &mut g, vv::DctDirection::Forward);
                    });
                    if let Err(e) = r {
                        return (evals, Some((format!("forward-dct-failed:{w}x{h}:{p}"), e)));
                    }
                    // the forward transform of a non-square block may keep its coefficients transposed (wide layout)
                    let direct = buf.iter().zip(&want).map(|(a, b)| (*a as f64 - b).abs()).fold(0.0, f64::max);
                    let mut tr = vec![0f64; w * h];
                    for v in 0..h {
                        for u in 0..w {
                            tr[u * h + v] = want[v * w + u];
                        }
                    }
                    let transposed = buf.iter().zip(&tr).map(|(a, b)| (*a as f64 - b).abs()).fold(0.0, f64::max);
                    let natural_expected = w >= h;
                    let d = if natural_expected { direct } else { direct.min(transposed) };
                    if !(d <= 2e-5) {
                        return (evals, Some((format!("forward-dct-definition:{w}x{h}"), format!("path {p}: forward DCT of a {w}x{h} block differs from the definition by {d:e}"))));
                    }
                    let fwd = buf.clone();
                    let r = guard(|| {
                        let mut g = MutableSubgrid::from_buf(&mut buf, w, h, w);
                        vv::dct_2d(p, &mut g, vv::DctDirection::Inverse);
                    });
                    if let Err(e) = r {
                        return (evals, Some((format!("inverse-dct-failed:{w}x{h}:{p}"), e)));
                    }
                    let d = buf.iter().zip(x).map(|(a, b)| (*a as f64 - *b as f64).abs()).fold(0.0, f64::max);
                    if !(d <= 2e-5) {
                        return (evals, Some((format!("dct-roundtrip:{w}x{h}"), format!("path {p}: inverse(forward(x)) differs from x by {d:e}"))));
                    }
                    let _ = fwd;
                }
            }
        }
    }
    (evals, None)
}

pub fn main(args: &crate::Args) {
    crate::util::install_panic_hook();
    let mut rep = Report::new("C16", &args.tier, "exploration");
    let quick = rep.is_quick();
    let seed = rep.seed;
    if args.replay.is_some() {
        println!("C16 replay: the check is deterministic per transform type; re-running the full check");
    }
    // big blocks are split into parts so that all cores are used
    let jobs: Vec<(TransformType, usize, usize)> = ALL
        .iter()
        .flat_map(|&t| {
            let (bw, bh) = t.dct_select_size();
            let n = if bw * bh >= 64 { 48 } else if bw * bh >= 16 { 8 } else { 1 };
            (0..n).map(move |p| (t, p, n))
        })
        .collect();
    let part_results = par_map(&jobs, n_threads(), |_, &(t, p, n)| check_type(t, quick, seed, p, n));
    let mut results: Vec<TypeResult> = Vec::new();
    for &t in ALL.iter() {
        let mut m = TypeResult { evals: 0, impulses: 0, viol: None, layout: "n/a" };
        for (j, r) in jobs.iter().zip(&part_results) {
            if j.0 as u8 != t as u8 {
                continue;
            }
            m.evals += r.evals;
            m.impulses += r.impulses;
            if m.viol.is_none() {
                m.viol = r.viol.clone();
            }
            if j.1 == 0 {
                m.layout = r.layout;
            }
        }
        results.push(m);
    }
    // LF injection per type, forward DCT per path, AFV table
    let lf_results = par_map(&ALL.to_vec(), n_threads(), |_, &t| check_lf_injection(t, quick, seed));
    let mut lf_evals = 0u64;
    for (t, (ev, viol)) in ALL.iter().zip(&lf_results) {
        lf_evals += ev;
        rep.outcome(if viol.is_none() { "lf-ok" } else { "lf-bad" });
        if let Some((k, w)) = viol {
            rep.violation(k, w, &json!({"transform": format!("{:?}", t), "part": "lf-injection"}));
        }
    }
    rep.evaluations += lf_evals;
    let (fev, fviol) = check_forward_dct(seed);
    rep.evaluations += fev;
    if let Some((k, w)) = fviol {
        rep.violation(&k, &w, &json!({"part": "forward-dct"}));
    }
    let afv_err = jxlw::transforms::afv_basis_orthonormality_error();
    if !(afv_err <= 1e-6) {
        rep.violation("afv-basis-not-orthonormal", &format!("reference AFV basis: |B B^T - I| = {afv_err:e}"), &json!({}));
    }
    rep.extra.insert("lf_injection_runs".into(), json!(lf_evals));
    rep.extra.insert("forward_dct_runs".into(), json!(fev));
    let mut layouts = serde_json::Map::new();
    for (t, r) in ALL.iter().zip(&results) {
        rep.evaluations += r.evals;
        layouts.insert(format!("{:?}", t), json!({"impulses": r.impulses, "transform_calls": r.evals, "coefficient_layout": r.layout}));
        for i in 0..r.impulses.min(70000) {
            rep.nontrivial(fnv(format!("{:?}{i}", t).as_bytes()));
        }
        rep.outcome(if r.viol.is_none() { "ok" } else { "bad" });
        if let Some((k, w)) = &r.viol {
            rep.violation(k, w, &json!({"transform": format!("{:?}", t)}));
        }
    }
    rep.rule = format!("for each of the 27 transform types and each code path {:?}: a unit impulse at {} coefficient position (the inverse transforms are linear, so the images of the basis vectors determine the operator), DC-only, all-ones and two pseudo-random blocks, each with sub-grid offsets 0..3 floats and strides {{exact, +4}} (offsets 0..1 only for blocks above 64x64) with canaries in the padding; oracle: (a) all paths/alignments agree within 5e-5 of the block maximum, (b) for the 18 DCT-family types every output pixel equals the separable inverse DCT evaluated in f64 (alpha(0)=1, alpha(k)=sqrt2) within 1e-4 relative, (c) for all types a DC-only block is flat. Non-trivial = one impulse position of one type.", vv::paths(), if quick { "every (blocks up to 64x64) / row, column, diagonal, border and lattice (larger blocks, capped at ~1400 per type)" } else { "EVERY" });
    rep.sample(json!({"transform": "Dct16x8", "impulse": [3, 5], "paths": vv::paths()}));
    rep.sample(json!({"transform": "Afv2", "input": "DC only 0.625", "expect": "flat 0.625"}));
    rep.extra.insert("per_type".into(), json!(layouts));
    rep.exhaustive = !quick;
    rep.assumptions = vec![
        "coefficient layout of rectangular DCTs inside the block (natural or transposed) is decided from the impulse (1,0) and then held fixed for all other impulses".into(),
        "for Hornuss, DCT2x2, DCT4x4, DCT4x8/8x4 and AFV only path agreement, linear superposition inputs and the DC-only definition are checked (their full coefficient arrangement is not modelled in the reference)".into(),
        "LF injection (forward DCT of the LF block + rescale) is exercised by whole-image decodes elsewhere, not here".into(),
    ];
    rep.finish();
}
