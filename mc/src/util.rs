//! Small helpers shared by the checkers.

use std::cell::RefCell;

pub fn panic_message(e: &Box<dyn std::any::Any + Send>) -> String {
    if let Some(s) = e.downcast_ref::<&str>() {
        s.to_string()
    } else if let Some(s) = e.downcast_ref::<String>() {
        s.clone()
    } else {
        "(non-string panic payload)".to_string()
    }
}

thread_local! {
    static LAST_PANIC: RefCell<Option<String>> = const { RefCell::new(None) };
    static QUIET: RefCell<bool> = const { RefCell::new(false) };
}

/// Installs a panic hook that records `file:line: message` for `guard` and stays quiet inside it.
pub fn install_panic_hook() {
    let prev = std::panic::take_hook();
    std::panic::set_hook(Box::new(move |info| {
        let loc = info
            .location()
            .map(|l| format!("{}:{}", l.file().trim_start_matches("/repo/"), l.line()))
            .unwrap_or_else(|| "?".into());
        let msg = if let Some(s) = info.payload().downcast_ref::<&str>() {
            s.to_string()
        } else if let Some(s) = info.payload().downcast_ref::<String>() {
            s.clone()
        } else {
            String::new()
        };
        // make the key specific: panic site plus the first caller frame inside /repo/crates in another crate
        let mut loc = loc;
        if msg != "verif-sched-abort" && loc.starts_with("crates/") {
            let bt = std::backtrace::Backtrace::force_capture().to_string();
            let site_crate = loc.split('/').take(2).collect::<Vec<_>>().join("/");
            for l in bt.lines() {
                let l = l.trim();
                if let Some(rest) = l.strip_prefix("at /repo/") {
                    let mut it = rest.split(':');
                    let (f, ln) = (it.next().unwrap_or(""), it.next().unwrap_or(""));
                    if f.starts_with("crates/") && !f.starts_with(&format!("{site_crate}/")) {
                        loc = format!("{loc}<-{f}:{ln}");
                        break;
                    }
                }
            }
        }
        LAST_PANIC.with(|p| *p.borrow_mut() = Some(format!("{loc}: {msg}")));
        if msg == "verif-sched-abort" {
            return;
        }
        if !QUIET.with(|q| *q.borrow()) || std::env::var("VERIF_LOUD").is_ok() {
            prev(info);
        }
    }));
}

/// Runs `f` (a call into the subject); a panic is returned as `Err("file:line: message")`.
pub fn guard<T>(f: impl FnOnce() -> T) -> Result<T, String> {
    QUIET.with(|q| *q.borrow_mut() = true);
    LAST_PANIC.with(|p| *p.borrow_mut() = None);
    let r = std::panic::catch_unwind(std::panic::AssertUnwindSafe(f));
    QUIET.with(|q| *q.borrow_mut() = false);
    match r {
        Ok(v) => Ok(v),
        Err(e) => Err(LAST_PANIC
            .with(|p| p.borrow_mut().take())
            .unwrap_or_else(|| panic_message(&e))),
    }
}

/// Panic site without the message (stable key for known findings).
pub fn panic_site(s: &str) -> String {
    s.split(": ").next().unwrap_or(s).to_string()
}

/// Replaces every run of digits by a bucket: 0, 1, few (2..=4), N.
pub fn bucket_numbers(s: &str) -> String {
    let mut out = String::with_capacity(s.len());
    let b = s.as_bytes();
    let mut i = 0;
    while i < b.len() {
        if b[i].is_ascii_digit() {
            let st = i;
            while i < b.len() && b[i].is_ascii_digit() {
                i += 1;
            }
            let v: u128 = s[st..i].parse().unwrap_or(u128::MAX);
            out.push_str(match v {
                0 => "0",
                1 => "1",
                2..=4 => "few",
                _ => "N",
            });
        } else {
            out.push(b[i] as char);
            i += 1;
        }
    }
    out
}

/// The valid 42-byte 240x135 Modular stream from the crate documentation of jxl-oxide.
pub const DOC_EXAMPLE: [u8; 42] = [
    0xff, 0x0a, 0x30, 0x54, 0x10, 0x09, 0x08, 0x06, 0x01, 0x00, 0x78, 0x00, 0x4b, 0x38, 0x41, 0x3c, 0xb6, 0x3a, 0x51,
    0xfe, 0x00, 0x47, 0x1e, 0xa0, 0x85, 0xb8, 0x27, 0x1a, 0x48, 0x45, 0x84, 0x1b, 0x71, 0x4f, 0xa8, 0x3e, 0x8e, 0x30,
    0x03, 0x92, 0x84, 0x01,
];

pub struct Lcg(pub u64);
impl Lcg {
    pub fn next(&mut self) -> u32 {
        self.0 = self.0.wrapping_mul(6364136223846793005).wrapping_add(1442695040888963407);
        (self.0 >> 33) as u32
    }
    pub fn below(&mut self, n: u32) -> u32 {
        self.next() % n
    }
}
