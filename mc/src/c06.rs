//! C06 — region-of-interest render equals the crop of the full render: all rectangles (small images) /
//! critical-set rectangles, and all region-request histories up to length 2 (+ return to full).

use crate::corpus::corpus;
use crate::explore::{n_threads, par_map};
use crate::report::{fnv, hex, unhex, Report};
use crate::util::guard;
use jxl_oxide::{CropInfo, JxlImage, JxlThreadPool};
use serde_json::json;

type Rect = (u32, u32, u32, u32);

struct Full {
    w: usize,
    h: usize,
    nch: usize,
    data: Vec<f32>,
}

fn render(img: &JxlImage, k: usize) -> Result<Full, String> {
    let r = img.render_frame(k).map_err(|e| format!("render: {e}"))?;
    let fb = r.image_all_channels();
    Ok(Full { w: fb.width(), h: fb.height(), nch: fb.channels(), data: fb.buf().to_vec() })
}

fn check_region(full: &Full, got: &Full, rect: Rect) -> Option<String> {
    let (l, t, w, h) = (rect.0 as usize, rect.1 as usize, rect.2 as usize, rect.3 as usize);
    if (got.w, got.h, got.nch) != (w, h, full.nch) {
        return Some(format!("region {:?}: buffer is {}x{}x{}, expected {}x{}x{}", rect, got.w, got.h, got.nch, w, h, full.nch));
    }
    for y in 0..h {
        for x in 0..w {
            for c in 0..full.nch {
                let a = got.data[(y * w + x) * full.nch + c];
                let b = full.data[((t + y) * full.w + l + x) * full.nch + c];
                if !((a - b).abs() <= 1e-6) && a.to_bits() != b.to_bits() {
                    return Some(format!("region {:?}: sample ({x},{y}) ch{c} = {a}, full render has {b}", rect));
                }
            }
        }
    }
    None
}

/// Runs one history of region requests on a fresh image; every step is checked.
fn run_history(bytes: &[u8], hist: &[Option<Rect>], fulls: &[Full]) -> Result<(), (String, String)> {
    let r = guard(|| -> Result<(), (String, String)> {
        let mut img = JxlImage::builder().pool(JxlThreadPool::none()).read(bytes).map_err(|e| ("decode".to_string(), format!("{e}")))?;
        let (iw, ih) = (img.width(), img.height());
        for (step, rq) in hist.iter().enumerate() {
            let rect = rq.unwrap_or((0, 0, iw, ih));
            img.set_image_region(CropInfo { left: rect.0, top: rect.1, width: rect.2, height: rect.3 });
            for k in 0..fulls.len() {
                let got = render(&img, k).map_err(|e| ("roi-render-error".to_string(), format!("step {step} region {:?} keyframe {k}: {e}", rect)))?;
                if let Some(m) = check_region(&fulls[k], &got, rect) {
                    let kind = if step == 0 { "roi-mismatch" } else { "roi-history-mismatch" };
                    return Err((kind.into(), format!("step {step} keyframe {k}: {m}")));
                }
            }
        }
        Ok(())
    });
    match r {
        Ok(x) => x,
        Err(p) => Err((format!("panic@{}", crate::util::panic_site(&p)), format!("panic: {p}"))),
    }
}

fn critical(n: u32, quick: bool) -> Vec<u32> {
    let mut v: Vec<i64> = if quick { vec![0, 1, 8, 9, (n / 2) as i64, 127, 128, 129, 255, 256, 257, n as i64 - 1, n as i64] } else { vec![0, 1, 7, 8, 9, 15, 16, 17, 63, 64, 65, 127, 128, 129, 255, 256, 257, n as i64 - 9, n as i64 - 8, n as i64 - 1, n as i64] };
    v.retain(|&x| x >= 0 && x <= n as i64);
    v.sort();
    v.dedup();
    v.into_iter().map(|x| x as u32).collect()
}

pub fn main(args: &crate::Args) {
    crate::util::install_panic_hook();
    if let Some(p) = &args.replay {
        replay(p);
    }
    let mut rep = Report::new("C06", &args.tier, "exploration");
    let quick = rep.is_quick();
    let mut streams: Vec<(String, Vec<u8>)> = corpus().into_iter().filter(|i| !i.name.starts_with("container-")).map(|i| (i.name, i.bytes)).collect();
    if let Ok(b) = std::fs::read("/repo/crates/jxl-oxide-tests/tests/cms/cmyk_layers.jxl") {
        streams.push(("cmyk_layers.jxl".into(), b));
    }
    // per stream: full renders of every keyframe
    struct Prep {
        fulls: Vec<Full>,
        w: u32,
        h: u32,
    }
    let preps: Vec<Option<Prep>> = streams
        .iter()
        .map(|(name, b)| {
            let img = JxlImage::builder().pool(JxlThreadPool::none()).read(&b[..]).ok()?;
            let mut fulls = vec![];
            for k in 0..img.num_loaded_keyframes() {
                match render(&img, k) {
                    Ok(f) => fulls.push(f),
                    Err(e) => {
                        eprintln!("stream {name}: full render fails: {e}");
                        return None;
                    }
                }
            }
            Some(Prep { fulls, w: img.width(), h: img.height() })
        })
        .collect();
    let mut jobs: Vec<(usize, Vec<Option<Rect>>)> = Vec::new();
    let mut exhaustive_rect_streams = 0;
    for (si, p) in preps.iter().enumerate() {
        let Some(p) = p else { continue };
        let (w, h) = (p.w, p.h);
        let big = w * h > 130;
        let huge = w * h > 100_000;
        // features placed at arbitrary coordinates (patch targets, spline control points) are cut by edges that the
        // group / lane critical sets do not contain: for those streams every x (and, in thorough, every y) is used
        let positional = streams[si].0.contains("patches") || (!quick && streams[si].0.contains("splines"));
        let (xs, ys): (Vec<u32>, Vec<u32>) = if !big {
            ((0..=w).collect(), (0..=h).collect())
        } else if positional && w * h <= 2000 {
            ((0..=w).collect(), if quick { critical(h, true) } else { (0..=h).collect() })
        } else if huge && quick {
            let norm = |mut v: Vec<u32>, n: u32| {
                v.retain(|&x| x <= n);
                v.sort();
                v.dedup();
                v
            };
            (norm(vec![0, 1, 255, 256, w - 1, w], w), norm(vec![0, 129, 256, 257, h - 1, h], h))
        } else {
            (critical(w, quick || huge), critical(h, quick || huge))
        };
        if !big {
            exhaustive_rect_streams += 1;
        }
        for (i, &l) in xs.iter().enumerate() {
            for &r in &xs[i + 1..] {
                for (j, &t) in ys.iter().enumerate() {
                    for &b in &ys[j + 1..] {
                        jobs.push((si, vec![Some((l, t, r - l, b - t))]));
                    }
                }
            }
        }
        // histories over a 6-element alphabet
        let alpha: Vec<Option<Rect>> = vec![
            None,
            Some((0, 0, (w / 2).max(1), (h / 2).max(1))),
            Some((w / 2, h / 2, w - w / 2, h - h / 2)),
            Some((w / 4, h / 4, (w / 2).max(1), (h / 2).max(1))),
            Some((w - 1, 0, 1, 1)),
            Some((0, (h * 3 / 5).min(h - 1), w, 1.max(h / 5))),
        ];
        for a in &alpha {
            for b in &alpha {
                jobs.push((si, vec![*a, *b, None]));
                if (!quick || !big) && !huge {
                    for c in &alpha[1..] {
                        jobs.push((si, vec![*a, *b, *c]));
                    }
                }
            }
        }
    }
    let results = par_map(&jobs, n_threads(), |_, (si, hist)| run_history(&streams[*si].1, hist, &preps[*si].as_ref().unwrap().fulls));
    for ((si, hist), r) in jobs.iter().zip(&results) {
        rep.eval();
        let name = &streams[*si].0;
        let sig = format!("{name}{:?}", hist);
        rep.nontrivial(fnv(sig.as_bytes()));
        match r {
            Ok(()) => rep.outcome(if hist.len() == 1 { "rect-ok" } else { "history-ok" }),
            Err((k, w)) => {
                rep.outcome("mismatch");
                let b = &streams[*si].1;
                let mut payload = if name != "cmyk_layers.jxl" { json!({"stream_hex": hex(b)}) } else { json!({"stream_file": "/repo/crates/jxl-oxide-tests/tests/cms/cmyk_layers.jxl"}) };
                payload["item"] = json!(name);
                payload["history"] = json!(hist.iter().map(|r| r.map(|r| vec![r.0, r.1, r.2, r.3])).collect::<Vec<_>>());
                rep.violation(&format!("{k}:{name}"), &format!("{w} [{name}]"), &payload);
            }
        }
    }
    rep.rule = format!("for every stream of the jxlw corpus (Modular: multi-group, squeeze/passes, orientation 6, animations and layered frames with all blend modes and crops partly outside the canvas, reference frames) and cmyk_layers.jxl: EVERY rectangle for images up to 130 samples ({exhaustive_rect_streams} streams), otherwise every rectangle with corners on the per-axis critical set (0,1,7-9,15-17,63-65,127-129,255-257,W-9,W-8,W-1,W; reduced in quick); plus ALL region-request histories of length 2 over a 6-rectangle alphabet followed by a third request (any, or 'full'), every step checked on every keyframe; oracle: same rectangle of the full render within 1e-6.");
    rep.sample(json!({"item": streams[1].0, "history": [[1, 0, 3, 2]]}));
    rep.sample(json!({"item": streams.last().unwrap().0, "history": [[150, 170, 100, 50], [100, 100, 300, 300], null]}));
    rep.extra.insert("streams".into(), json!(streams.len()));
    rep.extra.insert("streams_dropped".into(), json!(preps.iter().filter(|p| p.is_none()).count()));
    rep.exhaustive = true;
    rep.assumptions = vec!["differential oracle: the full render of the same decoder; the jxlw corpus (Modular and VarDCT incl. filters, upsampling, noise, splines, patches, LF frames, large varblocks) plus one real file".into()];
    rep.finish();
}

fn replay(path: &str) -> ! {
    let s = std::fs::read_to_string(path).unwrap_or_else(|e| crate::explore::machinery_failure(&format!("{path}: {e}")));
    let v: serde_json::Value = serde_json::from_str(&s).unwrap();
    let bytes = match v.get("stream_hex").and_then(|x| x.as_str()) {
        Some(h) => unhex(h),
        None => std::fs::read(v["stream_file"].as_str().unwrap()).unwrap(),
    };
    let hist: Vec<Option<Rect>> = v["history"]
        .as_array()
        .unwrap()
        .iter()
        .map(|r| r.as_array().map(|a| (a[0].as_u64().unwrap() as u32, a[1].as_u64().unwrap() as u32, a[2].as_u64().unwrap() as u32, a[3].as_u64().unwrap() as u32)))
        .collect();
    let img = JxlImage::builder().pool(JxlThreadPool::none()).read(&bytes[..]).unwrap();
    let fulls: Vec<Full> = (0..img.num_loaded_keyframes()).map(|k| render(&img, k).unwrap()).collect();
    match run_history(&bytes, &hist, &fulls) {
        Ok(()) => {
            println!("replay: property holds on this case");
            std::process::exit(0)
        }
        Err((k, w)) => {
            println!("VIOLATION property=C06 replay={path}\n  key={k} :: {w}");
            std::process::exit(1)
        }
    }
}
