//! C02 — no memory-unsafe access: the enumerated inputs / shapes / kernels of C01, C12 and C16 re-run in
//! worker subprocesses of a sanitizer build (AddressSanitizer; MemorySanitizer in the thorough tier),
//! including SIMD kernels that this CPU's runtime dispatch would not select.

use crate::c03::{build, Config};
use crate::report::{fnv, hex, Report};
use crate::util::guard;
use jxl_grid::MutableSubgrid;
use jxl_oxide::{JxlImage, JxlThreadPool};
use serde_json::json;
use std::time::Duration;

fn decode_all(bytes: &[u8]) -> String {
    let mut out = String::new();
    for (wide, pool) in [(false, None), (true, None), (false, Some(4usize))] {
        let p = match pool {
            None => JxlThreadPool::none(),
            Some(n) => JxlThreadPool::rayon(Some(n)),
        };
        let r = guard(|| match JxlImage::builder().pool(p).force_wide_buffers(wide).read(bytes) {
            Ok(img) => {
                let mut h = 0u64;
                for k in 0..img.num_loaded_keyframes() {
                    if let Ok(r) = img.render_frame(k) {
                        let fb = r.image_all_channels();
                        h ^= fnv(&fb.buf().iter().flat_map(|v| v.to_bits().to_le_bytes()).collect::<Vec<u8>>());
                        let mut s = r.stream();
                        let mut b = vec![0u16; 33];
                        while s.write_to_buffer(&mut b) > 0 {}
                    }
                }
                format!("ok:{h:x}")
            }
            Err(_) => "err".into(),
        });
        out.push_str(&r.unwrap_or_else(|p| format!("panic@{}", crate::util::panic_site(&p))));
        out.push(';');
    }
    out
}

/// Squeeze kernels of path `p` for all shapes w in [w0, w1], h in 1..=24; compares with the base kernel.
fn squeeze_kernels(path_idx: usize, w0: usize, w1: usize) -> String {
    let paths = jxl_modular::verif_squeeze::paths();
    let Some(path) = paths.get(path_idx) else { return "path-unavailable".into() };
    let mut n = 0;
    for w in w0..=w1 {
        for h in 1..=24usize {
            for horizontal in [true, false] {
                let mk = || -> Vec<i16> { (0..w * h).map(|i| (((i * 2654435761usize) >> 7) % 2001) as i16 - 1000).collect() };
                let mut a = mk();
                let mut b = mk();
                {
                    let mut ga = MutableSubgrid::from_buf(&mut a[..], w, h, w);
                    let mut gb = MutableSubgrid::from_buf(&mut b[..], w, h, w);
                    if horizontal {
                        jxl_modular::verif_squeeze::inverse_h_i16(path, &mut ga);
                        jxl_modular::verif_squeeze::inverse_h_i16("base", &mut gb);
                    } else {
                        jxl_modular::verif_squeeze::inverse_v_i16(path, &mut ga);
                        jxl_modular::verif_squeeze::inverse_v_i16("base", &mut gb);
                    }
                }
                if a != b {
                    return format!("kernel-differs:{path}:{}:{w}x{h}", if horizontal { "h" } else { "v" });
                }
                n += 1;
            }
        }
    }
    format!("ok:{n}")
}

fn transform_kernels(type_idx: usize) -> String {
    use jxl_render::verif_vardct as vv;
    use jxl_vardct::TransformType;
    let Ok(t) = TransformType::try_from(type_idx as u8) else { return "no-such-type".into() };
    let (bw, bh) = t.dct_select_size();
    let (w, h) = (bw as usize * 8, bh as usize * 8);
    let mut n = 0;
    for path in vv::paths() {
        for (off, es) in [(0usize, 0usize), (1, 0), (3, 4)] {
            for imp in [0usize, 1, w + 1, w * h - 1, (w * h) / 2 + 3] {
                let stride = w + es;
                // exact-size allocation: any access outside the sub-grid is outside the heap block
                let mut buf = vec![0f32; off + stride * (h - 1) + w];
                buf[off + (imp / w) * stride + imp % w] = 1.0;
                let mut g = MutableSubgrid::from_buf(&mut buf[off..], w, h, stride);
                vv::transform(path, &mut g, t);
                n += 1;
            }
        }
    }
    format!("ok:{n}")
}

pub fn run_case(bytes: &[u8], mode: u32, aux: u32) -> String {
    match mode {
        0..=5 => crate::c01::run_case(bytes, mode, aux),
        100 => decode_all(bytes),
        200 => guard(|| squeeze_kernels(bytes[0] as usize, bytes[1] as usize, bytes[2] as usize)).unwrap_or_else(|p| format!("panic@{}", crate::util::panic_site(&p))),
        300 => guard(|| transform_kernels(aux as usize)).unwrap_or_else(|p| format!("panic@{}", crate::util::panic_site(&p))),
        _ => "unknown-mode".into(),
    }
}

pub fn main(args: &crate::Args) {
    if args.rest.first().map(|s| s == "--worker").unwrap_or(false) {
        crate::workers::worker_main(&args.rest[1], args.rest[2].parse().unwrap_or(0), run_case);
    }
    crate::util::install_panic_hook();
    let mut rep = Report::new("C02", &args.tier, "exploration");
    let quick = rep.is_quick();
    let seed = rep.seed;
    let monitor = std::env::var("VERIF_SANITIZER").unwrap_or_else(|_| "none".into());
    if monitor == "none" {
        crate::explore::machinery_failure("C02 must run from a sanitizer build (use ./check C02, which builds it)");
    }
    if args.replay.is_some() {
        println!("C02 replay: run ./check C02 again; sanitizer reports are only observable through the worker processes");
    }
    let mut cases: Vec<(Vec<u8>, u32, u32, String)> = vec![];
    // (1) shape sweep: valid streams of every shape x transform, narrow + wide + pooled decode
    let max = if quick { 40 } else { 70 };
    let mut dims: Vec<usize> = (1..=max).collect();
    if !quick {
        dims.extend([100, 127, 128, 129, 255, 256, 257]);
    }
    for &w in &dims {
        for &h in &dims {
            if quick && !(h <= 12 || h == w || h == 19 || h == 33) {
                continue;
            }
            if !quick && w > 70 && h > 70 && w != h {
                continue;
            }
            for t in [0u32, 1, 13, 14, 15, 16, 21, 25] {
                if quick && h > 12 && !matches!(t, 13 | 14) {
                    continue;
                }
                let c = Config { w, h, layout: if t == 14 || t == 15 { (w % 2) as u32 } else { 1 }, depth: 12, float: 0, pattern: 7, tree: (w as u32 + t) % 14, leaf_variant: 0, wp: 0, transform: t, coder: (h % 2) as u32, lz77: 0, global_tree: true, group_shift: 1, passes: 0, toc_perm: 0, wide: false, ec_dim_shift: 0, force16: true, lz77_copies: 0 };
                if let Some(b) = build(&c, seed) {
                    cases.push((b.bytes, 100, 0, format!("shape:{w}x{h}:t{t}")));
                }
            }
        }
    }
    // VarDCT shapes through the restoration filters (their SIMD row kernels have head / tail handling of their own):
    // every width 1..33 (thorough: 1..70) x heights around the filter support x {Gabor, EPF 1/2/3 iterations, both}
    {
        let wmax = if quick { 33 } else { 70 };
        for w in 1..=wmax {
            for h in [1usize, 2, 7, 8, 9, 17] {
                if quick && !(w <= 9 || w % 4 == 1 || h == 9) {
                    continue;
                }
                for (k, (filters, iters)) in [(true, 0u32), (true, 1), (true, 2), (true, 3)].into_iter().enumerate() {
                    let mut t = crate::explore::Tape::default();
                    let mut c = crate::c17::cfg_from(&mut t);
                    c.size = (w, h);
                    c.pattern = 5;
                    let spec = crate::c17::spec_of(&c, seed ^ 0xf1);
                    let bytes = spec.write_codestream_with(&jxlw::jpeg::StreamOpts { filters, epf_iters: iters, alpha_bits: if (w + h) % 3 == 0 { 8 } else { 0 }, ..Default::default() });
                    cases.push((bytes, 100, 0, format!("vardct-shape:{w}x{h}:f{k}")));
                }
            }
        }
    }
    // corpus streams (multi-frame, blending, multi-group, containers) incl. the real file
    for it in crate::corpus::corpus() {
        cases.push((it.bytes, 100, 0, format!("corpus:{}", it.name)));
    }
    if let Ok(b) = std::fs::read("/repo/crates/jxl-oxide-tests/tests/cms/cmyk_layers.jxl") {
        cases.push((b, 100, 0, "corpus:cmyk_layers".into()));
    }
    let n_valid = cases.len();
    // (2) hostile inputs: the C01 quick space (1-deviation mutants, structured headers)
    for (b, o, c, name) in crate::c01::generate(true) {
        if quick && fnv(&b) % 6 != 0 && !name.ends_with(":seed") {
            continue;
        }
        cases.push((b, o, c, name));
    }
    let n_hostile = cases.len() - n_valid;
    // (3) kernels on every path incl. those the runtime dispatch would not select here
    for p in 0..3u8 {
        for (w0, w1) in [(1u8, 20u8), (21, 40), (41, 60), (61, 80)] {
            cases.push((vec![p, w0, w1], 200, 0, format!("squeeze-kernels:path{p}:w{w0}-{w1}")));
        }
    }
    for t in 0..27u32 {
        cases.push((vec![], 300, t, format!("transform-kernels:type{t}")));
    }
    let n_kernel = cases.len() - n_valid - n_hostile;
    let deadline = Duration::from_secs(if quick { 60 } else { 300 });
    let triples: Vec<(&[u8], u32, u32)> = cases.iter().map(|c| (&c.0[..], c.1, c.2)).collect();
    let outcomes = crate::workers::run_cases("C02", &triples, deadline);
    let mut done = 0usize;
    let mut artefacts: std::collections::BTreeMap<String, u64> = Default::default();
    for (i, o) in outcomes.iter().enumerate() {
        let Some(o) = o else { continue };
        done += 1;
        rep.eval();
        let (bytes, mode, _, name) = &cases[i];
        let class = if o.starts_with("msan-artefact") { "msan-artefact-in-safe-code" } else if o.starts_with("abort") { "sanitizer-or-abort" } else if o.starts_with("hang") { "hang" } else if o.contains("panic@") { "panic" } else if o.contains("kernel-differs") { "kernel-differs" } else { "clean" };
        rep.outcome(class);
        if *mode >= 100 {
            rep.nontrivial(fnv(name.as_bytes()));
        } else if !o.starts_with("read:err") {
            rep.nontrivial(fnv(bytes));
        }
        if o.starts_with("msan-artefact") {
            *artefacts.entry(o.chars().take(260).collect()).or_default() += 1;
        }
        let bad = o.starts_with("abort") || o.starts_with("hang") || o.contains("kernel-differs") || (*mode >= 100 && o.contains("panic@"));
        if bad {
            // key: sanitizer error kind + function if present
            let key = if let Some(p) = o.find("SUMMARY:") {
                let s = &o[p..];
                let kind = s.split_whitespace().nth(2).unwrap_or("");
                let func = s.split(" in ").nth(1).unwrap_or("").split_whitespace().next().unwrap_or("");
                format!("{monitor}:{kind}:{}", func.chars().take(60).collect::<String>())
            } else {
                format!("{}:{}", class, name.split(':').take(2).collect::<Vec<_>>().join(":"))
            };
            rep.violation(&key, &format!("{o} [{name}]"), &json!({"name": name, "mode": mode, "input_hex": hex(&bytes[..bytes.len().min(8000)]), "input_len": bytes.len()}));
        }
    }
    if let Some(h) = crate::workers::stopped_early() {
        rep.caps.push(format!("stopped after {h} calls that did not return within the deadline: {} of {} cases were not run", cases.len() - done, cases.len()));
    } else if done != cases.len() {
        crate::explore::machinery_failure(&format!("only {done} of {} cases reported", cases.len()));
    }
    rep.rule = format!("monitor = {monitor} (worker subprocesses of a sanitizer build, exact-size heap buffers). (1) {n_valid} valid streams: jxlw images of every shape W x H over 1..{max}{} x 8 transform stacks (none, RCT, squeeze default/h/v+h, palette, delta palette, RCT+squeeze) with 16-bit buffers declared, each decoded narrow, wide and narrow with a 4-thread rayon pool, plus the whole corpus and cmyk_layers.jxl; (2) {n_hostile} hostile inputs of C01's 1-deviation space with its call histories; (3) {n_kernel} kernel jobs: inverse-squeeze h/v kernels base / SSE4.1 / AVX2 for every w <= 80, h <= 24 (also compared with the base kernel) and the varblock transforms generic / SSE2 / SSE4.1 for all 27 types at three alignments. Oracle: no sanitizer report, no abnormal exit, no hang.", if quick { " (quick: H <= 12, H = W, 19, 33)" } else { " and group/lane edges" });
    rep.sample(json!({"name": cases[n_valid / 2].3, "stream_bytes": cases[n_valid / 2].0.len()}));
    rep.sample(json!({"name": cases[cases.len() - 1].3}));
    rep.extra.insert("monitor".into(), json!(monitor));
    rep.extra.insert("msan_reports_discounted_as_safe_code_artefacts".into(), json!(artefacts));
    if let Ok(prev) = std::env::var("VERIF_C02_PREV") {
        if let Ok(t) = std::fs::read_to_string(&prev) {
            if let Ok(v) = serde_json::from_str::<serde_json::Value>(&t) {
                rep.extra.insert("previous_monitor_pass".into(), json!({"monitor": v["coverage"]["monitor"], "evaluations": v["coverage"]["evaluations"], "violations": v["violations"], "wall_s": v["wall_s"]}));
            }
        }
    }
    rep.exhaustive = crate::workers::stopped_early().is_none();
    rep.assumptions = vec!["a sanitizer only sees executed accesses: exhaustive over the enumerated shapes / inputs / kernels, not over all inputs".into(), "AddressSanitizer does not see reads of uninitialised memory; MemorySanitizer is the monitor for that".into(), "a MemorySanitizer use-of-uninitialized-value report is discounted (and listed in coverage) only if both its use site and its stack origin lie in source files of /repo without any unsafe code: safe Rust cannot read uninitialised memory, such reports come from the optimiser computing on an enum payload before selecting on the discriminant; the case's remaining calls are then not monitored".into()];
    rep.finish();
}
