//! C17 — JPEG reconstruction: tiny baseline JPEGs enumerated within a deviation bound, written by an
//! independent JPEG writer, transcoded by jxlw to VarDCT + jbrd, fed whole and in every 2-chunking
//! with status queries; reconstruct_jpeg must reproduce the original bytes.

use crate::explore::{collect_tapes, n_threads, par_map, Tape};
use crate::report::{fnv, hex, Report};
use crate::util::{guard, panic_site, Lcg};
use jxl_oxide::{InitializeResult, JpegReconstructionStatus, JxlImage, JxlThreadPool};
use jxlw::jpeg::*;
use serde_json::json;

#[derive(Clone, Debug)]
pub struct Cfg {
    pub size: (usize, usize),
    pub ncomp: usize,
    pub pattern: u32,
    pub restart: u32,
    pub quant: u32,
    pub huff: u32,
    pub segments: u32,
    pub pad_bit: u8,
    pub tail: u32,
    pub ans: bool,
    pub jbrd_first: bool,
    /// scan script: 0 one interleaved baseline scan, 1 one sequential scan per component, 2 sequential
    /// [Y] [Cb Cr], 3 progressive spectral selection, 4 progressive with DC refinement and split bands,
    /// 5 progressive with successive approximation of DC and AC (libjpeg's default script shape)
    pub script: u32,
    /// end-of-band runs of progressive AC scans: 0 maximal, 1 flushed before every block, 2 before every third
    pub eob_policy: u32,
    /// component identifiers: 0 standard (1,2,3), 1 zero-based explicit ids
    pub comp_ids: u32,
    /// chroma subsampling: 0 4:4:4, 1 4:2:0, 2 4:2:2, 3 4:4:0
    pub sampling: u32,
}

const SIZES: &[(usize, usize)] = &[(16, 8), (8, 8), (16, 16), (17, 9), (33, 8), (32, 16), (1, 1), (8, 24), (264, 16)];
const N_PATTERNS: u32 = 9 + 63 + 2;

pub fn cfg_from(t: &mut Tape) -> Cfg {
    Cfg {
        size: *t.choose_from(SIZES),
        ncomp: [3, 1][t.choose(2) as usize],
        pattern: t.choose(N_PATTERNS),
        restart: t.choose(4),
        quant: t.choose(4),
        huff: t.choose(3),
        segments: t.choose(12),
        pad_bit: [1, 0, 2, 3][t.choose(4) as usize],
        tail: t.choose(3),
        ans: t.flag(),
        jbrd_first: !t.flag(),
        script: t.choose(6),
        eob_policy: t.choose(3),
        comp_ids: t.choose(2),
        sampling: t.choose(4),
    }
}

pub fn spec_of(c: &Cfg, seed: u64) -> JpegSpec {
    let (w, h) = c.size;
    // sampling factors (luma; chroma is 1x1): the grids are padded to whole MCUs
    let (lh, lv) = if c.ncomp == 1 { (1, 1) } else { [(1usize, 1usize), (2, 2), (2, 1), (1, 2)][c.sampling as usize] };
    let samp: Vec<(usize, usize)> = if (lh, lv) == (1, 1) { vec![] } else { vec![(lh, lv), (1, 1), (1, 1)] };
    let (mw, mh) = ((w + 8 * lh - 1) / (8 * lh), (h + 8 * lv - 1) / (8 * lv));
    let (bw, bh) = (mw * lh, mh * lv);
    let nb = bw * bh;
    let mut rng = Lcg(seed ^ 0xc17);
    let grid_len = |comp: usize| if comp == 0 { nb } else { mw * mh };
    let mut coef: Vec<Vec<[i32; 64]>> = (0..c.ncomp).map(|comp| vec![[0; 64]; grid_len(comp)]).collect();
    for comp in 0..c.ncomp {
        for b in 0..grid_len(comp) {
            let blk = &mut coef[comp][b];
            blk[0] = ((b * 37 + comp * 101) % 400) as i32 - 200;
            match c.pattern {
                0 => {
                    // moderately dense low frequencies
                    for k in 1..12 {
                        blk[k] = ((b + k * 3 + comp) % 7) as i32 - 3;
                    }
                }
                1 => {} // DC only
                2 => {
                    // long zero run needing ZRL, then a value, then EOB
                    blk[1] = 2;
                    blk[40 + (b % 20)] = -1;
                }
                3 => {
                    // coefficient 63 set: no EOB
                    blk[5] = -3;
                    blk[63] = 1;
                }
                4 => {
                    // magnitude extremes
                    blk[0] = if b % 2 == 0 { 1023 } else { -1023 };
                    blk[1] = 1023;
                    blk[2] = -1023;
                    blk[9] = 512;
                    blk[10] = -511;
                }
                5 => {
                    for k in 1..64 {
                        if rng.below(3) == 0 {
                            blk[k] = rng.below(31) as i32 - 15;
                        }
                    }
                }
                6 => {
                    // all zero incl. DC
                    blk[0] = 0;
                }
                7 => {
                    // two ZRLs in a row
                    blk[33 + (comp % 3)] = 4;
                    blk[62] = -2;
                }
                8 => {
                    // short blocks that leave room for explicit ZRLs in front of the EOB (see extra_zrl below)
                    blk[1] = 3;
                    blk[2 + (b % 3)] = -1;
                }
                72 => {
                    // dense: every coefficient non-zero with magnitude >= 2 (refinement scans then carry correction
                    // bits only, no zero runs, in the tail of every band)
                    for k in 1..64 {
                        let m = 2 + ((k + b + comp) % 5) as i32;
                        blk[k] = if (k + b) % 2 == 0 { m } else { -m };
                    }
                }
                73 => {
                    // dense head, then magnitudes that become non-zero only in the last refinement (+-1), then dense again
                    for k in 1..64 {
                        blk[k] = match k % 7 {
                            0 => 1,
                            3 => -1,
                            _ => if k % 2 == 0 { 6 } else { -5 },
                        };
                    }
                }
                p => {
                    // a single AC coefficient at zigzag position p - 8 (1..=63)
                    let k = (p - 8) as usize;
                    blk[k] = if (b + comp) % 2 == 0 { 1 } else { -2 };
                }
            }
        }
    }
    let quant: Vec<[u16; 64]> = match c.quant {
        0 => vec![std::array::from_fn(|k| (3 + 2 * k + k * k / 16).min(255) as u16), std::array::from_fn(|k| (5 + 3 * k).min(255) as u16)],
        1 => vec![[1; 64]],
        2 => vec![std::array::from_fn(|k| 200 + 40 * k as u16), std::array::from_fn(|k| (7 + k) as u16)], // 16-bit table
        _ => vec![[16; 64], [17; 64], [255; 64]],
    };
    // a table that no component uses cannot be described by the reconstruction format
    let quant: Vec<[u16; 64]> = if c.ncomp == 1 { quant[..1].to_vec() } else { quant };
    let nq = quant.len();
    let comp_q: Vec<usize> = (0..c.ncomp).map(|i| if i == 0 { 0 } else { (i).min(nq - 1) }).collect();
    // Huffman tables
    let (dc_tables, ac_tables, comp_tbl): (Vec<HuffTable>, Vec<HuffTable>, Vec<(usize, usize)>) = match c.huff {
        0 => (vec![HuffTable::std_dc_lum(), HuffTable::std_dc_chr()], vec![HuffTable::full_ac(0), HuffTable::full_ac(1)], (0..c.ncomp).map(|i| if i == 0 { (0, 0) } else { (1, 1) }).collect()),
        1 => (vec![HuffTable::std_dc_lum()], vec![HuffTable::full_ac(0)], vec![(0, 0); c.ncomp]),
        _ => {
            // minimal custom tables from the symbol statistics of this image (one DC, one AC table)
            let mut dcu = [0u64; 256];
            let mut acu = [0u64; 256];
            let nbk = nb;
            let mut pred = vec![0i32; c.ncomp];
            let ri = [0u32, 1, 2, 5][c.restart as usize];
            for mcu in 0..nbk {
                if ri > 0 && mcu > 0 && mcu as u32 % ri == 0 {
                    pred.iter_mut().for_each(|p| *p = 0);
                }
                for comp in 0..c.ncomp {
                    if mcu >= coef[comp].len() {
                        continue; // subsampled: these tables are rebuilt from the scan tokens below
                    }
                    let blk = &coef[comp][mcu];
                    let d = blk[0] - pred[comp];
                    pred[comp] = blk[0];
                    dcu[(32 - d.unsigned_abs().leading_zeros()) as usize] += 1;
                    let last = (1..64).rev().find(|&k| blk[k] != 0).unwrap_or(0);
                    let mut run = 0;
                    for k in 1..=last {
                        if blk[k] == 0 {
                            run += 1;
                            continue;
                        }
                        while run >= 16 {
                            acu[0xf0] += 1;
                            run -= 16;
                        }
                        acu[(run << 4) | (32 - blk[k].unsigned_abs().leading_zeros()) as usize] += 1;
                        run = 0;
                    }
                    if last < 63 {
                        acu[0] += 1;
                    }
                    if c.pattern == 8 {
                        acu[0xf0] += 1;
                    }
                }
            }
            (vec![HuffTable::minimal(&dcu)], vec![HuffTable::minimal(&acu)], vec![(0, 0); c.ncomp])
        }
    };
    let restart_interval = [0u32, 1, 2, 5][c.restart as usize];
    let mut layout: Vec<Segment> = vec![];
    let jfif: Vec<u8> = b"JFIF\0\x01\x01\0\0\x01\0\x01\0\0".to_vec();
    match c.segments {
        0 => {}
        1 => layout.push(Segment::App(0xe0, jfif.clone())),
        2 => layout.push(Segment::App(0xef, vec![1, 2, 3, 0xff, 0, 0xd9])),
        3 => layout.push(Segment::Com(b"made by jxlw".to_vec())),
        4 => {
            layout.push(Segment::App(0xe0, jfif.clone()));
            layout.push(Segment::Com(vec![]));
            layout.push(Segment::App(0xee, b"Adobe\0d\0\0\0\0\0\x01".to_vec()));
        }
        5 => layout.push(Segment::App(0xe5, vec![])),
        7 => layout.push(Segment::Icc(icc_profile())),
        8 => {
            // the profile split over three APP2 chunks, after a JFIF header
            let p = icc_profile();
            layout.push(Segment::App(0xe0, jfif.clone()));
            layout.push(Segment::Icc(p[..100].to_vec()));
            layout.push(Segment::Icc(p[100..101].to_vec()));
            layout.push(Segment::Icc(p[101..].to_vec()));
        }
        9 => layout.push(Segment::Exif(b"II*\0\x08\0\0\0\0\0\0\0\0\0".to_vec())),
        10 => layout.push(Segment::Xmp(b"<x:xmpmeta xmlns:x=\"adobe:ns:meta/\"/>".to_vec())),
        11 => {
            layout.push(Segment::Exif(b"MM\0*\0\0\0\x08\0\0\0\0\0\0".to_vec()));
            layout.push(Segment::App(0xe1, b"other app1".to_vec()));
            layout.push(Segment::Xmp(b"<?xpacket?>".to_vec()));
            layout.push(Segment::Icc(icc_profile()));
        }
        _ => {
            layout.push(Segment::Com(vec![0xff; 300]));
            layout.push(Segment::Com(b"second".to_vec()));
        }
    }
    layout.push(Segment::Dqt);
    layout.push(Segment::Sof);
    layout.push(Segment::Dht);
    if restart_interval > 0 {
        layout.push(Segment::Dri);
    }
    if c.segments == 6 {
        layout.push(Segment::App(0xe1, b"late app".to_vec()));
    }
    layout.push(Segment::Sos);
    let tail = match c.tail {
        0 => vec![],
        1 => vec![0],
        _ => b"\xff\xd9 trailing bytes after EOI \x00\x01".to_vec(),
    };
    // explicit zero runs: legal but never produced by common encoders; several entries exercise the delta coding
    let extra_zrl: Vec<(usize, usize)> = if c.pattern == 8 {
        let total = nb * c.ncomp;
        [(0usize, 1usize), (1, 2), (3, 1), (4, 3), (total.saturating_sub(1), 1)].into_iter().filter(|e| e.0 < total).collect::<std::collections::BTreeMap<_, _>>().into_iter().collect()
    } else {
        vec![]
    };
    // scan script
    let nc = c.ncomp;
    let all: Vec<usize> = (0..nc).collect();
    let sc = |comps: &[usize], ss: u8, se: u8, ah: u8, al: u8| Scan { comps: comps.to_vec(), ss, se, ah, al, flush_before: vec![] };
    let chroma: Vec<usize> = (1..nc).collect();
    let mut scans: Vec<Scan> = match c.script {
        0 if !samp.is_empty() => vec![sc(&all, 0, 63, 0, 0)],
        0 => vec![],
        1 => (0..nc).map(|k| sc(&[k], 0, 63, 0, 0)).collect(),
        2 => {
            let mut v = vec![sc(&[0], 0, 63, 0, 0)];
            if nc > 1 {
                v.push(sc(&chroma, 0, 63, 0, 0));
            }
            v
        }
        3 => {
            let mut v = vec![sc(&all, 0, 0, 0, 0)];
            for k in 0..nc {
                v.push(sc(&[k], 1, 63, 0, 0));
            }
            v
        }
        4 => {
            let mut v = vec![sc(&all, 0, 0, 0, 1), sc(&[0], 1, 5, 0, 0)];
            for &k in chroma.iter().rev() {
                v.push(sc(&[k], 1, 63, 0, 0));
            }
            v.push(sc(&[0], 6, 63, 0, 0));
            v.push(sc(&all, 0, 0, 1, 0));
            v
        }
        _ => {
            let mut v = vec![sc(&all, 0, 0, 0, 1), sc(&[0], 1, 5, 0, 2)];
            for &k in chroma.iter().rev() {
                v.push(sc(&[k], 1, 63, 0, 1));
            }
            v.push(sc(&[0], 6, 63, 0, 2));
            v.push(sc(&[0], 1, 63, 2, 1));
            v.push(sc(&all, 0, 0, 1, 0));
            for &k in chroma.iter().rev() {
                v.push(sc(&[k], 1, 63, 1, 0));
            }
            v.push(sc(&[0], 1, 63, 1, 0));
            v
        }
    };
    let progressive = c.script >= 3;
    for s in scans.iter_mut() {
        if progressive && s.ss > 0 {
            let nblocks = grid_len(s.comps[0]);
            s.flush_before = match c.eob_policy {
                0 => vec![],
                1 => (1..nblocks).collect(),
                _ => (1..nblocks).filter(|b| b % 3 == 0).collect(),
            };
        }
    }
    if !scans.is_empty() {
        // one SOS per scan
        let pos = layout.iter().position(|s| matches!(s, Segment::Sos)).unwrap();
        for _ in 1..scans.len() {
            layout.insert(pos, Segment::Sos);
        }
    }
    let comp_ids: Vec<u8> = if c.comp_ids == 1 { (0..nc as u8).collect() } else { vec![] };
    let extra_zrl = if scans.is_empty() { extra_zrl } else { vec![] };
    let mut spec = JpegSpec { w, h, ncomp: c.ncomp, quant, comp_q, dc_tables, ac_tables, comp_tbl, coef, restart_interval, layout, pad_bit: c.pad_bit, tail, extra_zrl, scans, progressive, comp_ids, samp };
    if progressive || (c.huff == 2 && !spec.scans.is_empty()) {
        spec.rebuild_tables_for_scans();
    }
    spec
}

/// A small well-formed RGB matrix profile (the hand-built one of C18's corpus).
fn icc_profile() -> Vec<u8> {
    crate::c18::profiles(0, true).into_iter().find(|p| p.0 == "built-appl").unwrap().1
}

/// Its encoded form for the codestream.
fn icc_stream_of(p: &[u8]) -> jxlw::bits::BitWriter {
    let plan = jxlw::icc::Plan { tags: jxlw::icc::TagMode::Shortcuts, segs: vec![jxlw::icc::Seg::Raw(p.len() - 132 - 11 * 12)] };
    let enc = jxlw::icc::encode(p, &plan).expect("icc plan");
    jxlw::icc::write_icc_stream(&enc, &jxlw::entropy::CodeOpts { use_prefix: true, cluster_map: Some((0..41).map(|i| (i % 4) as u8).collect()), cfg: Some(jxlw::entropy::HybridCfg::new(8, 0, 0)), ..Default::default() })
}

fn status_str(s: JpegReconstructionStatus) -> &'static str {
    match s {
        JpegReconstructionStatus::Available => "available",
        JpegReconstructionStatus::Invalid => "invalid",
        JpegReconstructionStatus::Unavailable => "unavailable",
        JpegReconstructionStatus::NeedMoreData => "needmore",
    }
}

/// Feeds the container cut at `cuts`; returns (statuses seen while feeding, final status, reconstruction).
#[allow(clippy::type_complexity)]
fn drive(file: &[u8], cuts: &[usize]) -> Result<(Vec<(usize, Vec<u8>)>, &'static str, Result<Vec<u8>, String>), String> {
    let r = guard(|| -> Result<_, String> {
        let mut uninit = Some(JxlImage::builder().pool(JxlThreadPool::none()).build_uninit());
        let mut image: Option<JxlImage> = None;
        let mut pending: Vec<u8> = vec![];
        let mut seen = vec![];
        let mut early_ok: Vec<(usize, Vec<u8>)> = vec![];
        let mut bounds = vec![0usize];
        bounds.extend_from_slice(cuts);
        bounds.push(file.len());
        for w in bounds.windows(2) {
            pending.extend_from_slice(&file[w[0]..w[1]]);
            if let Some(img) = image.as_mut() {
                let n = img.feed_bytes(&pending).map_err(|e| format!("feed: {e}"))?;
                pending.drain(..n);
            } else {
                let mut u = uninit.take().unwrap();
                let n = u.feed_bytes(&pending).map_err(|e| format!("feed(uninit): {e}"))?;
                pending.drain(..n);
                match u.try_init().map_err(|e| format!("try_init: {e}"))? {
                    InitializeResult::NeedMoreData(u) => uninit = Some(u),
                    InitializeResult::Initialized(i) => image = Some(i),
                }
            }
            if let Some(img) = image.as_ref() {
                let st = img.jpeg_reconstruction_status();
                seen.push(status_str(st));
                if st == JpegReconstructionStatus::Available && w[1] < file.len() {
                    // 'available' must mean reconstruction can be attempted: it may fail for lack of data, it must
                    // not panic (guarded), and if it claims success before the file is complete the bytes must
                    // already be the right ones
                    let mut sink = vec![];
                    match img.reconstruct_jpeg(&mut sink) {
                        Ok(_) => early_ok.push((w[1], sink)),
                        Err(e) => {
                            // the file is valid: while it is still arriving the only acceptable refusals are the
                            // 'incomplete' ones; 'available' followed by any other error means the status promised
                            // an attempt that the data received so far cannot support (e.g. an Exif / XMP box that
                            // the reconstruction data announces is only partially there)
                            let m = format!("{e}");
                            if !m.contains("incomplete") {
                                return Err(format!("available-but: status 'available' after {} of {} bytes, then reconstruct_jpeg: {m}", w[1], file.len()));
                            }
                        }
                    }
                }
            }
        }
        let Some(mut img) = image else { return Err("image never initialised".into()) };
        img.finalize().map_err(|e| format!("finalize: {e}"))?;
        let st = status_str(img.jpeg_reconstruction_status());
        let mut out = vec![];
        let rec = img.reconstruct_jpeg(&mut out).map(|_| out).map_err(|e| format!("{e}"));
        let _ = seen;
        Ok((early_ok, st, rec))
    });
    match r {
        Ok(x) => x,
        Err(p) => Err(format!("panic@{}", panic_site(&p))),
    }
}

pub fn run(c: &Cfg, seed: u64, cut_stride: usize) -> Result<u64, (String, String, Vec<u8>)> {
    let spec = spec_of(c, seed);
    let built = guard(|| spec.write_container_icc(c.ans, c.jbrd_first, spec.icc_profile().map(|p| icc_stream_of(&p))));
    let (file, jpeg) = match built {
        Ok(x) => x,
        Err(e) => return Err(("writer-failed".into(), format!("jxlw could not write this JPEG: {e}"), vec![])),
    };
    let mut runs = 0u64;
    let mut cutsets: Vec<Vec<usize>> = vec![vec![]];
    if cut_stride > 0 {
        let mut p = 1;
        while p < file.len() {
            cutsets.push(vec![p]);
            p += cut_stride;
        }
        cutsets.push((1..file.len()).collect());
    } else {
        cutsets.push(vec![file.len() / 2]);
        cutsets.push((1..file.len()).filter(|i| i % 7 == 0).collect());
    }
    let cls = format!("{}c", c.ncomp);
    for cuts in cutsets {
        runs += 1;
        match drive(&file, &cuts) {
            Err(e) => {
                let k = if e.starts_with("panic@") { e.clone() } else { format!("decode-error:{cls}:{}", e.split(':').next().unwrap_or("")) };
                return Err((k, format!("{e} (cuts {:?})", &cuts[..cuts.len().min(4)]), file));
            }
            Ok((early_ok, st, rec)) => {
                if let Some((at, bytes)) = early_ok.iter().find(|(_, b)| *b != jpeg) {
                    return Err((format!("early-reconstruction-wrong:{cls}"), format!("after {at} of {} bytes reconstruct_jpeg returned Ok with {} bytes that are not the original {} bytes (cuts {:?})", file.len(), bytes.len(), jpeg.len(), &cuts[..cuts.len().min(4)]), file));
                }
                if st != "available" {
                    return Err((format!("status-not-available:{cls}"), format!("complete file but status is {st} (cuts {:?})", &cuts[..cuts.len().min(4)]), file));
                }
                match rec {
                    Err(e) => return Err((format!("reconstruct-error:{cls}"), format!("reconstruct_jpeg failed: {e} (cuts {:?})", &cuts[..cuts.len().min(4)]), file)),
                    Ok(out) => {
                        if out != jpeg {
                            let i = (0..out.len().min(jpeg.len())).find(|&i| out[i] != jpeg[i]).unwrap_or(out.len().min(jpeg.len()));
                            return Err((format!("jpeg-differs:{cls}"), format!("reconstructed JPEG ({} bytes) differs from the original ({} bytes) at byte {i} (cuts {:?})", out.len(), jpeg.len(), &cuts[..cuts.len().min(4)]), file));
                        }
                    }
                }
            }
        }
    }
    Ok(runs)
}

pub fn main(args: &crate::Args) {
    crate::util::install_panic_hook();
    let mut rep = Report::new("C17", &args.tier, "exploration");
    let quick = rep.is_quick();
    let seed = rep.seed;
    if let Some(p) = &args.replay {
        replay(p, seed);
    }
    let bound = if quick { 2 } else { 3 };
    let (mut tapes, _) = collect_tapes(bound, 0, |t| {
        let _ = cfg_from(t);
    });
    // coupled full product: the MCU geometry of a scan depends on image size x sampling factors x scan script
    // together (tape positions: 0 size, 1 components, 2 pattern, 3 restart, ... 11 script, 12 eob policy, 14 sampling)
    {
        let len = tapes[0].len();
        for size in [0u32, 2, 3, 4, 5, 7] {
            for sampling in 0..4u32 {
                for script in 0..6u32 {
                    for (restart, eob, pattern) in [(0u32, 0u32, 0u32), (2, 1, 5)] {
                        let mut t = vec![0u32; len];
                        t[0] = size;
                        t[2] = pattern;
                        t[3] = restart;
                        t[11] = script;
                        t[12] = eob;
                        t[14] = sampling;
                        tapes.push(t);
                    }
                }
            }
        }
        tapes.sort();
        tapes.dedup();
    }
    let results = par_map(&tapes, n_threads(), |_, tp| {
        let mut t = Tape::from_answers(tp);
        let c = cfg_from(&mut t);
        let cost = tp.iter().filter(|&&a| a != 0).count();
        // every 2-chunking (and byte-at-a-time) for the default configuration (quick) / for configurations within
        // 1 deviation (thorough); every 6th cut for 1-deviation configurations in quick; two chunkings otherwise
        let stride = match (quick, cost) {
            (_, 0) => 1,
            (false, 1) => 1,
            (true, 1) => 6,
            _ => 0,
        };
        run(&c, seed, stride)
    });
    for (tp, r) in tapes.iter().zip(&results) {
        match r {
            Ok(n) => {
                rep.evaluations += n;
                rep.outcome("exact");
                rep.nontrivial(fnv(&tp.iter().flat_map(|x| x.to_le_bytes()).collect::<Vec<u8>>()));
            }
            Err((k, w, file)) => {
                rep.eval();
                rep.outcome("bad");
                let mut t = Tape::from_answers(tp);
                let c = cfg_from(&mut t);
                rep.violation(k, &format!("{w} [{:?}]", c), &json!({"tape": tp, "seed": seed, "file_hex": hex(&file[..file.len().min(8000)])}));
            }
        }
    }
    rep.rule = format!("JPEG = 11 dimensions: size ({:?}), components 3/1, coefficient pattern ({} incl. one AC coefficient at each of the 63 zigzag positions, DC only, long zero runs / ZRL, no-EOB block, magnitude extremes, dense random, explicit ZRLs before EOB with 5 extra_zero_runs entries), restart interval {{0,1,2,5}}, quantisation tables (standard-like, flat 1, 16-bit, three tables), Huffman tables (two standard sets, one shared, minimal custom), segments (none, JFIF, unknown APPn, COM, several incl. empty and late ones), padding bits all 1 / all 0 / alternating from 1 / alternating from 0, trailing bytes, entropy coder of the JXL side, box order; ALL configurations within {bound} deviations of the default; each written as JPEG by an independent baseline writer (the oracle) and as ftyp+jbrd+jxlc by jxlw; the container is fed whole, at EVERY 2-chunking and byte-at-a-time (thorough: configurations within 1 deviation; quick: the default configuration, every 6th cut for 1-deviation ones), two chunkings otherwise, with jpeg_reconstruction_status queried after every chunk; oracle: final status 'available' and reconstruct_jpeg output identical to the original file.", SIZES, N_PATTERNS);
    rep.sample(json!({"tape": tapes[tapes.len() / 2]}));
    {
        let mut t = Tape::from_answers(&tapes[0]);
        let c = cfg_from(&mut t);
        let (file, jpeg) = spec_of(&c, seed).write_container(false, true);
        rep.sample(json!({"config": format!("{:?}", c), "jpeg_hex": hex(&jpeg[..jpeg.len().min(120)]), "jxl_bytes": file.len()}));
    }
    rep.extra.insert("configurations".into(), json!(tapes.len()));
    rep.exhaustive = true;
    rep.assumptions = vec![
        "baseline sequential JPEG, 4:4:4 sampling, up to 33x24 pixels; progressive scans, subsampling, embedded ICC/Exif/XMP segments and reset-point side information are not in the alphabet of this writer".into(),
        "the JPEG writer in jxlw::jpeg is the oracle; the jbrd/VarDCT writer only has to be accepted (a writer error shows up as a failing case, never as a false pass)".into(),
    ];
    rep.finish();
}

fn replay(path: &str, seed: u64) -> ! {
    let s = std::fs::read_to_string(path).unwrap_or_else(|e| crate::explore::machinery_failure(&format!("{path}: {e}")));
    let v: serde_json::Value = serde_json::from_str(&s).unwrap();
    let tape: Vec<u32> = v["tape"].as_array().unwrap().iter().map(|x| x.as_u64().unwrap() as u32).collect();
    let seed = v["seed"].as_u64().unwrap_or(seed);
    let mut t = Tape::from_answers(&tape);
    let c = cfg_from(&mut t);
    println!("{:?}", c);
    match run(&c, seed, 1) {
        Ok(_) => {
            println!("replay: property holds on this case");
            std::process::exit(0)
        }
        Err((k, w, _)) => {
            println!("VIOLATION property=C17 replay={path}\n  key={k} :: {w}");
            std::process::exit(1)
        }
    }
}
