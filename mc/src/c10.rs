//! C10 — container framing: explicit enumeration of box sequences x chunkings against the
//! reference demuxer in `jxlw::container`.

use crate::explore::{n_threads, par_map};
use crate::report::{hex, unhex, Report};
use crate::util::{bucket_numbers, guard, panic_site};
use jxl_bitstream::{ContainerParser, ParseEvent};
use jxlw::container::*;
use serde_json::json;
use std::collections::BTreeSet;

pub const N_REGULAR: usize = 26;
pub const N_LAST: usize = 5;

fn payload(k: usize, n: usize) -> Vec<u8> {
    (0..n).map(|j| (0x10 * (k + 1) + j) as u8).collect()
}

/// Alphabet element `e` at sequence position `k`.
fn element(e: usize, k: usize) -> BoxSpec {
    use SizeForm::*;
    let exif = |k: usize| {
        let mut p = vec![0, 0, 0, 1];
        p.extend(payload(k, 3));
        p
    };
    match e {
        0 => BoxSpec::new(b"ftyp", S32, &FTYP_PAYLOAD),
        1 => BoxSpec::new(b"jxll", S32, &[10]),
        2 => BoxSpec::new(b"jxlc", S32, &payload(k, 3)),
        3 => BoxSpec::new(b"jxlc", S64, &payload(k, 2)),
        4 => BoxSpec::new(b"jxlc", S32, &[]),
        5 => BoxSpec::jxlp(0, false, S32, &payload(k, 2)),
        6 => BoxSpec::jxlp(1, false, S32, &payload(k, 1)),
        7 => BoxSpec::jxlp(1, true, S32, &payload(k, 2)),
        8 => BoxSpec::jxlp(0, true, S64, &payload(k, 5)),
        9 => BoxSpec::jxlp(2, true, S32, &[]),
        10 => BoxSpec::jxlp(0, false, S32, &[]),
        11 => BoxSpec::new(b"jxlp", S32, &[0, 0]), // smaller than its index
        12 => BoxSpec::new(b"Exif", S32, &exif(k)),
        13 => BoxSpec::new(b"xml ", S64, &payload(k, 3)),
        14 => BoxSpec::brob(b"Exif", S32, &exif(k)),
        15 => BoxSpec::brob(b"xml ", S64, &payload(k, 4)),
        16 => BoxSpec::brob(b"jxlc", S32, &payload(k, 2)),
        17 => BoxSpec::brob(b"brob", S32, &payload(k, 2)),
        18 => BoxSpec::brob(b"jbrd", S32, &payload(k, 2)),
        19 => BoxSpec::new(b"brob", S32, b"xm"),
        20 => BoxSpec::new(b"jbrd", S32, &payload(k, 3)),
        21 => BoxSpec::new(b"abcd", S32, &payload(k, 1)),
        22 => BoxSpec::new(b"free", S32, &[]),
        23 => BoxSpec::new(b"abcd", Raw32(5), &[]),
        24 => BoxSpec::new(b"abcd", Raw64(15), &[]),
        25 => BoxSpec::new(b"skip", S64, &[]),
        // last-only (run to end of file)
        26 => BoxSpec::new(b"jxlc", ToEof, &payload(k, 3)),
        27 => BoxSpec::jxlp(0, true, ToEof, &payload(k, 2)),
        28 => BoxSpec::jxlp(1, true, ToEof, &payload(k, 3)),
        29 => BoxSpec::new(b"Exif", ToEof, &exif(k)),
        30 => BoxSpec::brob(b"xml ", ToEof, &payload(k, 4)),
        // further undersized brob boxes: every payload length below the 4-byte inner type (2 bytes is element 19)
        31 => BoxSpec::new(b"brob", S32, b"xml"),
        32 => BoxSpec::new(b"brob", S32, &[]),
        33 => BoxSpec::new(b"brob", S64, b"E"),
        _ => unreachable!(),
    }
}

pub fn build(seq: &[u8]) -> Vec<u8> {
    let boxes: Vec<BoxSpec> = seq.iter().enumerate().map(|(k, &e)| element(e as usize, k)).collect();
    mux(&boxes)
}

#[derive(Debug, Clone, PartialEq, Eq)]
pub enum Observed {
    Ok { codestream: Vec<u8>, aux: Vec<AuxBox> },
    Err(String),
    Panic(String),
    Protocol(String),
}

/// Feeds `file` cut at `cuts` (sorted, strictly inside) following the documented protocol.
/// `trace`: optional sink for (state, event, state') triples.
pub fn run_parser(file: &[u8], cuts: &[usize], mut trace: Option<&mut Vec<(String, String, String)>>) -> Observed {
    let r = guard(|| {
        let mut parser = ContainerParser::new();
        let mut pending: Vec<u8> = Vec::new();
        let mut codestream = Vec::new();
        let mut aux: Vec<AuxBox> = Vec::new();
        let mut open = false;
        let mut bounds = vec![0usize];
        bounds.extend_from_slice(cuts);
        bounds.push(file.len());
        for w in bounds.windows(2) {
            pending.extend_from_slice(&file[w[0]..w[1]]);
            let consumed;
            {
                let mut st = if trace.is_some() { bucket_numbers(&format!("{:?}", parser)) } else { String::new() };
                let mut events = parser.feed_bytes(&pending);
                loop {
                    let ev = events.next();
                    let ev = match ev {
                        None => break,
                        Some(Err(e)) => return Observed::Err(format!("{e}")),
                        Some(Ok(ev)) => ev,
                    };
                    let evname = match &ev {
                        ParseEvent::BitstreamKind(k) => format!("Kind({k:?})"),
                        ParseEvent::Codestream(b) => format!("Codestream({})", b.len().min(2)),
                        ParseEvent::NoMoreAuxBox => "NoMoreAuxBox".into(),
                        ParseEvent::AuxBoxStart { brotli_compressed, last_box, .. } => {
                            format!("AuxStart(brotli={brotli_compressed},last={last_box})")
                        }
                        ParseEvent::AuxBoxData(_, b) => format!("AuxData({})", b.len().min(2)),
                        ParseEvent::AuxBoxEnd(_) => "AuxEnd".into(),
                    };
                    match ev {
                        ParseEvent::BitstreamKind(_) | ParseEvent::NoMoreAuxBox => {}
                        ParseEvent::Codestream(b) => codestream.extend_from_slice(b),
                        ParseEvent::AuxBoxStart { ty, brotli_compressed, last_box } => {
                            if open {
                                return Observed::Protocol("AuxBoxStart while a box is open".into());
                            }
                            open = true;
                            aux.push(AuxBox { ty: ty.0, brotli: brotli_compressed, stored: vec![], to_eof: last_box });
                        }
                        ParseEvent::AuxBoxData(ty, b) => {
                            let Some(cur) = aux.last_mut() else {
                                return Observed::Protocol("AuxBoxData before AuxBoxStart".into());
                            };
                            if !open || cur.ty != ty.0 {
                                return Observed::Protocol("AuxBoxData for a box that is not open".into());
                            }
                            cur.stored.extend_from_slice(b);
                        }
                        ParseEvent::AuxBoxEnd(ty) => {
                            if !open || aux.last().map(|a| a.ty) != Some(ty.0) {
                                return Observed::Protocol("AuxBoxEnd for a box that is not open".into());
                            }
                            open = false;
                        }
                    }
                    if let Some(t) = trace.as_deref_mut() {
                        let st2 = bucket_numbers(&format!("{:?}", events));
                        t.push((std::mem::take(&mut st), evname, st2.clone()));
                        st = st2;
                    }
                }
            }
            consumed = parser.previous_consumed_bytes();
            if consumed > pending.len() {
                return Observed::Protocol("consumed more than offered".into());
            }
            pending.drain(..consumed);
        }
        Observed::Ok { codestream, aux }
    });
    match r {
        Ok(o) => o,
        Err(p) => Observed::Panic(p),
    }
}

fn expected_of(file: &[u8]) -> Demux {
    reference_demux(file)
}

/// Compares; returns Some((key, what)) on disagreement.
fn judge(exp: &Demux, obs: &Observed) -> Option<(String, String)> {
    match (exp, obs) {
        (_, Observed::Panic(p)) => Some((format!("panic@{}", panic_site(p)), format!("parser panicked: {p}"))),
        (_, Observed::Protocol(p)) => Some((format!("protocol:{p}"), p.clone())),
        (Demux::Reject(_), Observed::Err(_)) => None,
        (Demux::Reject(why), Observed::Ok { .. }) => {
            Some((format!("accepted-illformed:{why}"), format!("ill-formed layout accepted ({why})")))
        }
        (Demux::Ok { .. }, Observed::Err(e)) => {
            Some((format!("rejected-wellformed:{e}"), format!("well-formed layout rejected: {e}")))
        }
        (Demux::Ok { codestream, aux }, Observed::Ok { codestream: c2, aux: a2 }) => {
            if codestream != c2 {
                return Some((
                    "codestream-mismatch".into(),
                    format!("codestream bytes differ: expected {} got {}", hex(codestream), hex(c2)),
                ));
            }
            if aux.len() != a2.len() {
                return Some(("aux-count".into(), format!("aux box count: expected {} got {}", aux.len(), a2.len())));
            }
            for (x, y) in aux.iter().zip(a2) {
                if x.ty != y.ty || x.brotli != y.brotli || x.stored != y.stored {
                    return Some((
                        "aux-mismatch".into(),
                        format!("aux box differs: expected {:?} got {:?}", x, y),
                    ));
                }
                if x.to_eof != y.to_eof {
                    return Some(("aux-lastflag".into(), format!("last_box flag differs for {:?}", x.ty)));
                }
            }
            None
        }
    }
}

fn all_sequences(len: usize, regular: &[u8], last: &[u8], out: &mut Vec<Vec<u8>>) {
    // every sequence of `len` elements: first len-1 from regular, final from regular+last
    fn rec(pos: usize, len: usize, regular: &[u8], last: &[u8], cur: &mut Vec<u8>, out: &mut Vec<Vec<u8>>) {
        if pos == len {
            out.push(cur.clone());
            return;
        }
        for &e in regular {
            cur.push(e);
            rec(pos + 1, len, regular, last, cur, out);
            cur.pop();
        }
        if pos + 1 == len {
            for &e in last {
                cur.push(e);
                out.push(cur.clone());
                cur.pop();
            }
        }
    }
    if len == 0 {
        out.push(vec![]);
        return;
    }
    rec(0, len, regular, last, &mut Vec::new(), out);
}

struct FileResult {
    runs: u64,
    outcome: String,
    viol: Option<(String, String, Vec<usize>)>,
    trace: Vec<(String, String, String)>,
    nontrivial: bool,
}

fn check_file(seq: &[u8], three_cuts: bool, want_trace: bool) -> FileResult {
    let file = build(seq);
    let exp = expected_of(&file);
    let mut runs = 0u64;
    let mut viol = None;
    let mut trace = Vec::new();
    let n = file.len();
    let mut try_cuts = |cuts: &[usize], runs: &mut u64, viol: &mut Option<(String, String, Vec<usize>)>, tr: Option<&mut Vec<(String, String, String)>>| {
        let obs = run_parser(&file, cuts, tr);
        *runs += 1;
        if viol.is_none() {
            if let Some((k, w)) = judge(&exp, &obs) {
                *viol = Some((k, w, cuts.to_vec()));
            }
        }
    };
    // whole
    try_cuts(&[], &mut runs, &mut viol, if want_trace { Some(&mut trace) } else { None });
    // every 2-chunking
    for c in 1..n {
        try_cuts(&[c], &mut runs, &mut viol, if want_trace { Some(&mut trace) } else { None });
    }
    // byte at a time
    let all: Vec<usize> = (1..n).collect();
    try_cuts(&all, &mut runs, &mut viol, if want_trace { Some(&mut trace) } else { None });
    // fixed sizes
    for sz in [2usize, 3, 5, 7] {
        let cuts: Vec<usize> = (1..n).filter(|i| i % sz == 0).collect();
        try_cuts(&cuts, &mut runs, &mut viol, None);
    }
    if three_cuts {
        for a in 12..n {
            for b in a + 1..n {
                try_cuts(&[a, b], &mut runs, &mut viol, None);
            }
        }
    }
    let outcome = match &exp {
        Demux::Reject(w) => format!("reject:{w}"),
        Demux::Ok { codestream, aux } => format!("ok:cs{}:aux{}", codestream.len().min(9), aux.len()),
    };
    let nontrivial = match &exp {
        Demux::Ok { codestream, aux } => !codestream.is_empty() || !aux.is_empty(),
        Demux::Reject(_) => true,
    };
    FileResult { runs, outcome, viol, trace, nontrivial }
}

fn replay_json(seq: &[u8], cuts: &[usize]) -> serde_json::Value {
    let file = build(seq);
    json!({
        "kind": "container-parser",
        "sequence": seq,
        "boxes": seq.iter().enumerate().map(|(k,&e)| { let b = element(e as usize, k); format!("{}:{:?}:{}", String::from_utf8_lossy(&b.ty), b.form, hex(&b.payload)) }).collect::<Vec<_>>(),
        "file_hex": hex(&file),
        "cuts": cuts,
        "expected": format!("{:?}", expected_of(&file)),
    })
}

pub fn main(args: &crate::Args) {
    crate::util::install_panic_hook();
    if let Some(path) = &args.replay {
        replay(path);
    }
    let mut rep = Report::new("C10", &args.tier, "model_checking");
    let quick = rep.is_quick();
    let regular: Vec<u8> = (0..N_REGULAR as u8).chain(31..=33).collect();
    let last: Vec<u8> = (N_REGULAR as u8..(N_REGULAR + N_LAST) as u8).collect();
    let mut seqs = Vec::new();
    let max_full = if quick { 3 } else { 4 };
    for len in 0..=max_full {
        all_sequences(len, &regular, &last, &mut seqs);
    }
    let n_full = seqs.len();
    // longer sequences over a reduced alphabet (the grammatical core + one of each ill-formed class)
    let reduced: Vec<u8> = vec![0, 2, 5, 6, 7, 9, 12, 14, 21, 22];
    let reduced_last: Vec<u8> = vec![26, 28, 30];
    let long_len = if quick { 4 } else { 5 };
    {
        let mut v = Vec::new();
        all_sequences(long_len, &reduced, &reduced_last, &mut v);
        if !quick {
            all_sequences(6, &[0, 5, 6, 7, 12, 22], &[28], &mut v);
        }
        seqs.extend(v);
    }
    rep.rule = format!(
        "all box sequences of length <= {max_full} over a {}-element box alphabet (+{} run-to-EOF boxes in final position), plus length {long_len}{} over a reduced alphabet; each file parsed whole, at EVERY 2-chunking, byte-at-a-time and in fixed chunk sizes 2/3/5/7 (3-chunkings for length <= 2), unconsumed bytes re-offered; oracle = one-pass reference demuxer (jxlw::container). A file is non-trivial if it is rejected by the reference or delivers codestream/aux bytes; distinctness by box sequence.",
        N_REGULAR + 3, N_LAST, if quick { "" } else { " and 6" }
    );
    let results = par_map(&seqs, n_threads(), |i, seq| check_file(seq, seq.len() <= 2, i % 37 == 0 || seq.len() <= 2));
    for (seq, r) in seqs.iter().zip(&results) {
        rep.evaluations += r.runs;
        rep.outcome(&r.outcome);
        if r.nontrivial {
            rep.nontrivial(crate::report::fnv(seq));
        }
        for (a, e, b) in &r.trace {
            let ha = rep.state(a);
            let hb = rep.state(b);
            rep.transition(ha, e, hb);
        }
        if let Some((k, w, cuts)) = &r.viol {
            rep.violation(k, w, &replay_json(seq, cuts));
        }
    }
    rep.traces_validated = seqs.len() as u64;
    for s in [seqs[n_full / 2].clone(), seqs[n_full - 1].clone(), seqs[seqs.len() - 1].clone()] {
        let f = build(&s);
        rep.sample(json!({"sequence": s, "file_hex": hex(&f), "expected": format!("{:?}", expected_of(&f)).chars().take(200).collect::<String>(), "chunkings": f.len() + 5}));
    }
    rep.exhaustive = true;
    rep.extra.insert("files".into(), json!(seqs.len()));
    rep.extra.insert("full_product_max_len".into(), json!(max_full));

    // ---- L2: through JxlImage (Brotli decompression, Exif/xml accessors, codestream intact)
    level2(&mut rep, quick);

    rep.assumptions = vec![
        "reference demuxer jxlw::container::reference_demux is the specification oracle (written from ISO/IEC 18181-2, shares no code with /repo)".into(),
        "Brotli content is limited to stored (uncompressed) meta-blocks; the Brotli decoder itself is a third-party crate outside the property".into(),
        "only complete files are judged; a truncated file is C11's subject".into(),
        "states/transitions are those of ContainerParser's Debug form with integers bucketed to {0,1,few,N}; traces recorded for a 1/37 subsample of files plus all files of length <= 2 (counting only, never pruning)".into(),
    ];
    rep.finish();
}

// ---------------------------------------------------------------------------------------------

struct L2Obs {
    init: bool,
    frames: usize,
    exif: String,
    xml: String,
    pixels: u64,
    done: bool,
}

fn l2_run(file: &[u8], cuts: &[usize]) -> Result<L2Obs, String> {
    use jxl_oxide::{InitializeResult, JxlImage, JxlThreadPool};
    let r = guard(|| -> Result<L2Obs, String> {
        let mut uninit = Some(JxlImage::builder().pool(JxlThreadPool::none()).build_uninit());
        let mut image: Option<JxlImage> = None;
        let mut pending: Vec<u8> = Vec::new();
        let mut bounds = vec![0usize];
        bounds.extend_from_slice(cuts);
        bounds.push(file.len());
        for w in bounds.windows(2) {
            pending.extend_from_slice(&file[w[0]..w[1]]);
            if let Some(img) = image.as_mut() {
                let c = img.feed_bytes(&pending).map_err(|e| format!("feed: {e}"))?;
                pending.drain(..c);
            } else {
                let mut u = uninit.take().unwrap();
                let c = u.feed_bytes(&pending).map_err(|e| format!("feed(uninit): {e}"))?;
                pending.drain(..c);
                match u.try_init().map_err(|e| format!("try_init: {e}"))? {
                    InitializeResult::NeedMoreData(u) => uninit = Some(u),
                    InitializeResult::Initialized(i) => image = Some(i),
                }
            }
        }
        let Some(mut img) = image else {
            return Ok(L2Obs { init: false, frames: 0, exif: String::new(), xml: String::new(), pixels: 0, done: false });
        };
        img.finalize().map_err(|e| format!("finalize: {e}"))?;
        let exif = match img.aux_boxes().first_exif() {
            Ok(jxl_oxide::AuxBoxData::Data(e)) => format!("data:{}:{}", e.tiff_header_offset(), hex(e.payload())),
            Ok(jxl_oxide::AuxBoxData::Decoding) => "decoding".into(),
            Ok(jxl_oxide::AuxBoxData::NotFound) => "notfound".into(),
            Err(e) => format!("err:{e}"),
        };
        let xml = match img.aux_boxes().first_xml() {
            jxl_oxide::AuxBoxData::Data(e) => format!("data:{}", hex(e)),
            jxl_oxide::AuxBoxData::Decoding => "decoding".into(),
            jxl_oxide::AuxBoxData::NotFound => "notfound".into(),
        };
        let frames = img.num_loaded_keyframes();
        let mut pixels = 0u64;
        if frames > 0 {
            let r = img.render_frame(0).map_err(|e| format!("render: {e}"))?;
            let fb = r.image_all_channels();
            let mut b = Vec::with_capacity(fb.buf().len() * 4);
            for v in fb.buf() {
                b.extend_from_slice(&v.to_bits().to_le_bytes());
            }
            pixels = crate::report::fnv(&b);
        }
        Ok(L2Obs { init: true, frames, exif, xml, pixels, done: img.is_loading_done() })
    });
    match r {
        Ok(x) => x,
        Err(p) => Err(format!("panic@{p}")),
    }
}

fn level2(rep: &mut Report, quick: bool) {
    use SizeForm::*;
    let cs = crate::util::DOC_EXAMPLE;
    let bare = l2_run(&cs, &[]).unwrap_or_else(|e| crate::explore::machinery_failure(&format!("doc example does not decode: {e}")));
    if !bare.init || bare.frames != 1 {
        crate::explore::machinery_failure("doc example did not initialise");
    }
    let exif_raw: Vec<u8> = vec![0, 0, 0, 2, 0xaa, 0xbb, b'I', b'I', 42, 0];
    let xml_raw: Vec<u8> = b"<x:xmpmeta/>".to_vec();
    let exif_want = format!("data:2:{}", hex(&exif_raw[4..]));
    let xml_want = format!("data:{}", hex(&xml_raw));
    // layouts: (name, boxes, exif?, xml?)
    let mut layouts: Vec<(String, Vec<BoxSpec>, bool, bool)> = Vec::new();
    let ftyp = BoxSpec::new(b"ftyp", S32, &FTYP_PAYLOAD);
    let splits: Vec<Vec<usize>> = vec![vec![], vec![1], vec![2], vec![12], vec![41], vec![2, 20], vec![1, 2, 3], vec![0], vec![42], vec![10, 10]];
    let metas: Vec<(&str, Vec<BoxSpec>, bool, bool)> = vec![
        ("none", vec![], false, false),
        ("exif", vec![BoxSpec::new(b"Exif", S32, &exif_raw)], true, false),
        ("xml64", vec![BoxSpec::new(b"xml ", S64, &xml_raw)], false, true),
        ("brob-exif", vec![BoxSpec::brob(b"Exif", S32, &exif_raw)], true, false),
        ("brob-xml+exif", vec![BoxSpec::brob(b"xml ", S64, &xml_raw), BoxSpec::new(b"Exif", S32, &exif_raw)], true, true),
        ("unknown+brob-unknown+xml", vec![BoxSpec::new(b"abcd", S32, &[1, 2, 3]), BoxSpec::brob(b"abcd", S32, &[9; 5]), BoxSpec::new(b"xml ", S32, &xml_raw)], false, true),
    ];
    for sp in &splits {
        for (mname, meta, he, hx) in &metas {
            for place in 0..3 {
                // place: 0 = meta before codestream, 1 = between parts (or after first), 2 = after
                let mut parts: Vec<BoxSpec> = Vec::new();
                if sp.is_empty() {
                    parts.push(BoxSpec::new(b"jxlc", if place == 1 { S64 } else { S32 }, &cs));
                } else {
                    let mut b = vec![0usize];
                    b.extend(sp.iter().cloned());
                    b.push(cs.len());
                    let np = b.len() - 1;
                    for i in 0..np {
                        let (s, e) = (b[i].min(b[i + 1]), b[i + 1].max(b[i]));
                        parts.push(BoxSpec::jxlp(i as u32, i + 1 == np, if i == 1 { S64 } else { S32 }, &cs[s..e]));
                    }
                }
                let mut boxes = vec![ftyp.clone()];
                match place {
                    0 => {
                        boxes.extend(meta.iter().cloned());
                        boxes.extend(parts);
                    }
                    1 => {
                        let mut it = parts.into_iter();
                        boxes.push(it.next().unwrap());
                        boxes.extend(meta.iter().cloned());
                        boxes.extend(it);
                    }
                    _ => {
                        boxes.extend(parts);
                        boxes.extend(meta.iter().cloned());
                    }
                }
                layouts.push((format!("split{:?}/{}/place{}", sp, mname, place), boxes, *he, *hx));
            }
        }
    }
    // last box running to EOF variants
    {
        let mut b = vec![ftyp.clone(), BoxSpec::new(b"Exif", S32, &exif_raw)];
        b.push(BoxSpec::new(b"jxlc", ToEof, &cs));
        layouts.push(("jxlc-to-eof".into(), b, true, false));
        let b = vec![ftyp.clone(), BoxSpec::new(b"jxlc", S32, &cs), BoxSpec::new(b"xml ", ToEof, &xml_raw)];
        layouts.push(("xml-to-eof".into(), b, false, true));
        let b = vec![ftyp.clone(), BoxSpec::jxlp(0, false, S32, &cs[..7]), BoxSpec::jxlp(1, true, ToEof, &cs[7..])];
        layouts.push(("jxlp-to-eof".into(), b, false, false));
        let b = vec![ftyp.clone(), BoxSpec::new(b"jxlc", S32, &cs), BoxSpec::brob(b"Exif", ToEof, &exif_raw)];
        layouts.push(("brob-exif-to-eof".into(), b, true, false));
    }
    if quick {
        // keep every third layout plus the EOF variants
        let n = layouts.len();
        let mut i = 0;
        layouts.retain(|_| {
            i += 1;
            i % 3 == 1 || i > n - 4
        });
    }
    struct R {
        runs: u64,
        viol: Option<(String, String, Vec<usize>)>,
    }
    let results = par_map(&layouts, n_threads(), |_, (_name, boxes, he, hx)| {
        let file = mux(boxes);
        let mut runs = 0;
        let mut viol = None;
        let mut cutsets: Vec<Vec<usize>> = vec![vec![]];
        for c in 1..file.len() {
            cutsets.push(vec![c]);
        }
        cutsets.push((1..file.len()).collect());
        for cuts in cutsets {
            runs += 1;
            let o = l2_run(&file, &cuts);
            let bad = match &o {
                Err(e) => Some((format!("l2-error:{}", e.split(':').next().unwrap_or("")), format!("valid container failed: {e}"))),
                Ok(o) => {
                    if !o.init || o.frames != 1 || !o.done {
                        Some(("l2-incomplete".into(), format!("image not complete: init={} frames={} done={}", o.init, o.frames, o.done)))
                    } else if o.pixels != bare.pixels {
                        Some(("l2-pixels".into(), "rendered samples differ from the bare codestream".into()))
                    } else if (*he && o.exif != exif_want) || (!*he && o.exif != "notfound") {
                        Some(("l2-exif".into(), format!("first_exif = {} expected {}", o.exif, if *he { &exif_want } else { "notfound" })))
                    } else if (*hx && o.xml != xml_want) || (!*hx && o.xml != "notfound") {
                        Some(("l2-xml".into(), format!("first_xml = {} expected {}", o.xml, if *hx { &xml_want } else { "notfound" })))
                    } else {
                        None
                    }
                }
            };
            if viol.is_none() {
                if let Some((k, w)) = bad {
                    viol = Some((k, w, cuts));
                }
            }
        }
        R { runs, viol }
    });
    let mut l2_runs = 0;
    for ((name, boxes, _, _), r) in layouts.iter().zip(&results) {
        l2_runs += r.runs;
        rep.nontrivial(crate::report::fnv(name.as_bytes()));
        if let Some((k, w, cuts)) = &r.viol {
            let file = mux(boxes);
            rep.violation(k, &format!("{w} [layout {name}]"), &json!({"kind": "jxlimage-container", "layout": name, "file_hex": hex(&file), "cuts": cuts}));
        }
    }
    rep.evaluations += l2_runs;
    rep.extra.insert("level2_layouts".into(), json!(layouts.len()));
    rep.extra.insert("level2_runs".into(), json!(l2_runs));
    if let Some((name, boxes, _, _)) = layouts.get(layouts.len() / 2) {
        rep.sample(json!({"level2_layout": name, "file_hex": hex(&mux(boxes))}));
    }
    let _ = BTreeSet::<u8>::new();
}

fn replay(path: &str) -> ! {
    let s = std::fs::read_to_string(path).unwrap_or_else(|e| crate::explore::machinery_failure(&format!("{path}: {e}")));
    let v: serde_json::Value = serde_json::from_str(&s).unwrap();
    let file = unhex(v["file_hex"].as_str().unwrap());
    let cuts: Vec<usize> = v["cuts"].as_array().unwrap().iter().map(|x| x.as_u64().unwrap() as usize).collect();
    if v["kind"] == "container-parser" {
        let exp = expected_of(&file);
        let o1 = run_parser(&file, &cuts, None);
        let o2 = run_parser(&file, &cuts, None);
        if o1 != o2 {
            crate::explore::machinery_failure("replay not deterministic");
        }
        println!("expected: {:?}\nobserved: {:?}", exp, o1);
        match judge(&exp, &o1) {
            Some((k, w)) => {
                println!("VIOLATION property=C10 replay={path}\n  key={k} :: {w}");
                std::process::exit(1)
            }
            None => {
                println!("replay: property holds on this case");
                std::process::exit(0)
            }
        }
    } else {
        let o = l2_run(&file, &cuts);
        match o {
            Ok(o) => println!("init={} frames={} exif={} xml={} pixels={:x} done={}", o.init, o.frames, o.exif, o.xml, o.pixels, o.done),
            Err(e) => println!("error: {e}"),
        }
        println!("(level-2 replay prints the observation; compare with the expectation recorded in the replay file)");
        std::process::exit(0)
    }
}
