//! `mc <ID> [--tier quick|thorough] [--replay FILE]` — bounded exhaustive checks for jxl-oxide.

mod explore;
mod report;
mod util;
mod workers;

mod bringup;
mod tsan;
mod c01;
mod c02;
mod c03;
mod c04;
mod c05;
mod c06;
mod c07;
mod c08;
mod c09;
mod c10;
mod c11;
mod c12;
mod c13;
mod corpus;
mod feed;
mod c14;
mod c15;
mod c16;
mod c17;
mod c18;
mod c19;
mod c20;
mod sched;
mod dec;

pub fn verif_dir() -> String {
    std::env::var("VERIF_DIR").unwrap_or_else(|_| "/verif".to_string())
}

pub struct Args {
    pub id: String,
    pub tier: String,
    pub replay: Option<String>,
    pub rest: Vec<String>,
}

fn main() {
    let mut argv: Vec<String> = std::env::args().skip(1).collect();
    if argv.is_empty() {
        eprintln!("usage: mc <ID> [--tier quick|thorough] [--replay FILE]");
        std::process::exit(2);
    }
    let id = argv.remove(0);
    let mut tier = std::env::var("VERIF_TIER").unwrap_or_else(|_| "quick".into());
    let mut replay = None;
    let mut rest = Vec::new();
    let mut i = 0;
    while i < argv.len() {
        match argv[i].as_str() {
            "--tier" => {
                tier = argv[i + 1].clone();
                i += 2;
            }
            "--replay" => {
                replay = Some(argv[i + 1].clone());
                i += 2;
            }
            _ => {
                rest.push(argv[i].clone());
                i += 1;
            }
        }
    }
    if tier != "quick" && tier != "thorough" {
        eprintln!("bad tier {tier}");
        std::process::exit(2);
    }
    if replay.is_some() {
        std::env::set_var("VERIF_REPLAY_MODE", "1");
    }
    let args = Args { id: id.clone(), tier, replay, rest };
    // Wall-clock guard: a subject that blocks forever inside a check that has no scheduler of its own
    // (possible only on a tree where C08/C20 are violated) must end the run as a machinery failure,
    // never as a silent hang and never as a verdict.  Worker subprocesses are not affected.
    if !args.rest.iter().any(|a| a == "--worker") {
        let cap: u64 = std::env::var("VERIF_WALL_CAP_S").ok().and_then(|v| v.parse().ok()).unwrap_or(if args.tier == "quick" { 1500 } else { 6 * 3600 });
        let idc = id.clone();
        std::thread::spawn(move || {
            std::thread::sleep(std::time::Duration::from_secs(cap));
            println!("MACHINERY-FAILURE: {idc} exceeded the wall-clock cap of {cap} s (a call into the decoder did not return, or the tier is too large for this machine); no verdict");
            std::process::exit(2);
        });
    }
    // A panic inside the *machinery* (not inside a guarded call into the subject) is a machinery failure.
    let r = std::panic::catch_unwind(|| match id.as_str() {
        "C01" => c01::main(&args),
        "C02" => c02::main(&args),
        "C03" => c03::main(&args),
        "C04" => c04::main(&args),
        "C05" => c05::main(&args),
        "C06" => c06::main(&args),
        "C07" => c07::main(&args),
        "C08" => c08::main(&args),
        "C09" => c09::main(&args),
        "C10" => c10::main(&args),
        "C11" => c11::main(&args),
        "C12" => c12::main(&args),
        "C13" => c13::main(&args),
        "C14" => c14::main(&args),
        "C15" => c15::main(&args),
        "C16" => c16::main(&args),
        "C17" => c17::main(&args),
        "C18" => c18::main(&args),
        "C19" => c19::main(&args),
        "C20" => c20::main(&args),
        "bringup" => bringup::main(&args),
        _ => {
            eprintln!("unknown check {id}");
            std::process::exit(2);
        }
    });
    if let Err(e) = r {
        let msg = util::panic_message(&e);
        eprintln!("MACHINERY-FAILURE: panic in checker: {msg}");
        std::process::exit(2);
    }
}
