//! Σ_valid: small valid streams produced by `jxlw`, one per feature / pair of interacting features.
//! Used by the differential checks (C06, C07, C08, C09, C11, C12, C13, C15, C20); a stream that the
//! decoder rejects when read whole is dropped by the caller and counted.

use jxlw::bits::BitWriter;
use jxlw::container::{mux, BoxSpec, SizeForm, FTYP_PAYLOAD};
use jxlw::entropy::CodeOpts;
use jxlw::frame::*;
use jxlw::headers::*;
use jxlw::modular::*;

pub struct Item {
    pub name: String,
    pub bytes: Vec<u8>,
    /// number of frames written (all kinds)
    pub frames: usize,
    pub keyframes: usize,
    pub width: u32,
    pub height: u32,
}

fn tex(w: usize, h: usize, c: usize, maxv: i32, salt: usize) -> Channel {
    Channel::from_fn(w, h, |x, y| (((x * 37 + y * 91 + x * y * 13 + c * 57 + salt * 101) % 251) as i32 * maxv) / 250)
}

fn planes(w: usize, h: usize, n: usize, maxv: i32, salt: usize) -> Vec<Channel> {
    (0..n).map(|c| tex(w, h, c, maxv, salt)).collect()
}

pub struct FrameDesc {
    pub alt_tree: Option<Node>,
    pub local_tree: bool,
    pub fh: FrameHeader,
    pub channels: Vec<Channel>,
    pub tree: Node,
    pub ans: bool,
    pub transforms: Vec<(Transform, Vec<SqueezeParam>)>,
    pub toc_rev: bool,
}

fn encode_frame(img: &ImageHeader, d: &FrameDesc) -> Vec<u8> {
    let mut coded = d.channels.clone();
    let mut trs = vec![];
    for (t, eff) in &d.transforms {
        match t {
            Transform::Rct { begin_c, rct_type } => forward_rct(&mut coded, *begin_c as usize, *rct_type),
            Transform::Squeeze(_) => forward_squeeze(&mut coded, eff),
            Transform::Palette { .. } => unreachable!(),
        }
        trs.push(t.clone());
    }
    let mut spec = ModularFrameSpec::new(d.fh.clone(), coded);
    spec.transforms = trs;
    spec.tree = d.tree.clone();
    spec.global_tree = !d.local_tree;
    spec.alt_tree = d.alt_tree.clone();
    spec.code = CodeOpts { use_prefix: !d.ans, ..Default::default() };
    if d.toc_rev {
        let probe = write_modular_frame(img, &spec);
        if probe.num_sections > 1 {
            spec.toc_perm = Some((0..probe.num_sections as u32).rev().collect());
        }
    }
    write_modular_frame(img, &spec).bytes
}

fn simple_desc(img: &ImageHeader, w: usize, h: usize, maxv: i32, salt: usize) -> FrameDesc {
    let n = img.num_colour_channels() + img.ec_info.len();
    FrameDesc { alt_tree: None, local_tree: false, fh: FrameHeader::modular_lossless(img), channels: planes(w, h, n, maxv, salt), tree: Node::leaf(5), ans: false, transforms: vec![], toc_rev: false }
}

fn item(name: &str, img: &ImageHeader, frames: Vec<Vec<u8>>, keyframes: usize) -> Item {
    let n = frames.len();
    Item { name: name.into(), bytes: write_codestream(img, &Sel::default(), &frames), frames: n, keyframes, width: img.size.width, height: img.size.height }
}

pub fn animation_header() -> AnimationHeader {
    AnimationHeader { tps_numerator: 100, tps_denominator: 1, num_loops: 0, have_timecodes: false }
}

/// Multi-frame image used by several checks: canvas w x h, RGB + alpha (8 bit), animation.
/// `frames`: (crop x0,y0,w,h or None, blend mode, source, save_as_reference, duration, frame_type)
pub fn multi_frame(name: &str, w: u32, h: u32, alpha_bits: u32, descs: &[(Option<(i32, i32, u32, u32)>, u32, u32, u32, u32, u32)]) -> Item {
    let mut img = ImageHeader::simple(w, h, false, 8);
    img.extra_fields = true;
    img.animation = Some(animation_header());
    let mut a = ExtraChannelInfo::new(EC_ALPHA, BitDepth::int(alpha_bits));
    a.alpha_associated = false;
    img.ec_info = vec![a];
    img.modular_16bit_buffers = alpha_bits <= 12;
    let mut frames = vec![];
    let mut keyframes = 0;
    for (i, &(crop, mode, source, save, duration, ftype)) in descs.iter().enumerate() {
        let mut fh = FrameHeader::modular_lossless(&img);
        fh.frame_type = ftype;
        fh.is_last = i + 1 == descs.len();
        if let Some((x0, y0, cw, ch)) = crop {
            fh.have_crop = true;
            fh.x0 = x0;
            fh.y0 = y0;
            fh.width = cw;
            fh.height = ch;
        }
        fh.blending_info = BlendingInfo { mode, alpha_channel: 0, clamp: mode == BLEND_MULADD, source };
        fh.ec_blending_info = vec![BlendingInfo { mode, alpha_channel: 0, clamp: false, source }];
        fh.duration = duration;
        fh.save_as_reference = save;
        if fh.save_before_ct_signalled(&img) {
            fh.save_before_ct = ftype == FT_REFERENCE_ONLY;
        }
        let (fw, fhh) = fh.frame_size(&img);
        let mut ch = planes(fw as usize, fhh as usize, 3, 255, i);
        ch.push(tex(fw as usize, fhh as usize, 3, (1 << alpha_bits) - 1, i + 5));
        let d = FrameDesc { alt_tree: None, local_tree: false, fh: fh.clone(), channels: ch, tree: Node::leaf(if i % 2 == 0 { 5 } else { 1 }), ans: i % 2 == 1, transforms: vec![], toc_rev: false };
        if (ftype == FT_REGULAR || ftype == FT_SKIP_PROGRESSIVE) && (fh.is_last || duration != 0) {
            keyframes += 1;
        }
        frames.push(encode_frame(&img, &d));
    }
    item(name, &img, frames, keyframes)
}

pub fn corpus() -> Vec<Item> {
    let mut out: Vec<Item> = Vec::new();
    out.push(Item { name: "doc-example".into(), bytes: crate::util::DOC_EXAMPLE.to_vec(), frames: 1, keyframes: 1, width: 240, height: 135 });
    // gray 5x3
    {
        let img = ImageHeader::simple(5, 3, true, 8);
        let d = simple_desc(&img, 5, 3, 255, 0);
        out.push(item("gray-5x3", &img, vec![encode_frame(&img, &d)], 1));
    }
    // RGB + alpha, ANS, RCT
    {
        let mut img = ImageHeader::simple(9, 7, false, 8);
        img.ec_info = vec![ExtraChannelInfo::default_alpha()];
        let mut d = simple_desc(&img, 9, 7, 255, 1);
        d.ans = true;
        d.transforms = vec![(Transform::Rct { begin_c: 0, rct_type: 6 }, vec![])];
        d.tree = Node::split(0, 2, Node::leaf(1), Node::split(3, 4, Node::leaf(6), Node::leaf(5)));
        out.push(item("rgba-9x7-ans-rct", &img, vec![encode_frame(&img, &d)], 1));
    }
    // multi-group 130x130, group size 128, TOC reversed
    {
        let img = ImageHeader::simple(130, 130, false, 8);
        let mut d = simple_desc(&img, 130, 130, 255, 2);
        d.fh.group_size_shift = 0;
        d.toc_rev = true;
        out.push(item("rgb-130x130-groups-tocrev", &img, vec![encode_frame(&img, &d)], 1));
    }
    // multi-group with a local MA tree in every section (tracked allocations inside pass groups)
    {
        let img = ImageHeader::simple(130, 130, false, 8);
        let mut d = simple_desc(&img, 130, 130, 255, 9);
        d.fh.group_size_shift = 0;
        d.local_tree = true;
        let mut t = Node::leaf(5);
        for k in 0..9 {
            t = Node::split(9, k * 7 - 20, Node::leaf((k % 5 + 1) as u32), t);
        }
        d.tree = t.clone();
        out.push(item("rgb-130x130-groups-localtree", &img, vec![encode_frame(&img, &d)], 1));
        // same, but every other section carries a much larger local tree than its neighbours
        let mut big = Node::leaf(5);
        for k in 0..60 {
            big = Node::split([9, 6, 7, 10, 11][k % 5], (k as i32) * 5 - 150, Node::leaf((k % 5 + 1) as u32), big);
        }
        let img2 = ImageHeader::simple(300, 200, false, 8);
        let mut d2 = simple_desc(&img2, 300, 200, 255, 10);
        d2.fh.group_size_shift = 0;
        d2.local_tree = true;
        d2.tree = Node::leaf(5);
        d2.alt_tree = Some(big);
        out.push(item("rgb-300x200-groups-unequal-localtrees", &img2, vec![encode_frame(&img2, &d2)], 1));
    }
    // squeeze + 2 passes, multi-section
    {
        let img = ImageHeader::simple(70, 40, true, 8);
        let mut d = simple_desc(&img, 70, 40, 255, 3);
        d.fh.group_size_shift = 0;
        d.fh.passes = Passes { num_passes: 2, shift: vec![0], downsample: vec![2], last_pass: vec![0] };
        let eff = default_squeeze_params(&d.channels, 0);
        d.transforms = vec![(Transform::Squeeze(vec![]), eff)];
        out.push(item("gray-70x40-squeeze-2pass", &img, vec![encode_frame(&img, &d)], 1));
    }
    // squeeze RGB 49x19 (lane tails) single pass, 12-bit, 16-bit buffers allowed
    {
        let mut img = ImageHeader::simple(49, 19, false, 12);
        img.modular_16bit_buffers = true;
        let mut d = simple_desc(&img, 49, 19, 1000, 4);
        let eff = vec![SqueezeParam { horizontal: true, in_place: true, begin_c: 0, num_c: 3 }, SqueezeParam { horizontal: false, in_place: true, begin_c: 0, num_c: 3 }];
        d.transforms = vec![(Transform::Squeeze(eff.clone()), eff)];
        out.push(item("rgb12-49x19-squeeze-hv", &img, vec![encode_frame(&img, &d)], 1));
    }
    // 16-bit gray with WP tree
    {
        let img = ImageHeader::simple(17, 9, true, 16);
        let mut d = simple_desc(&img, 17, 9, 65535, 5);
        d.tree = Node::split(15, 0, Node::leaf(6), Node::leaf(5));
        d.ans = true;
        out.push(item("gray16-17x9-wp", &img, vec![encode_frame(&img, &d)], 1));
    }
    // orientation 6, RGB + alpha + depth
    {
        let mut img = ImageHeader::simple(7, 4, false, 8);
        img.extra_fields = true;
        img.orientation = 6;
        img.ec_info = vec![ExtraChannelInfo::new(EC_DEPTH, BitDepth::int(8)), ExtraChannelInfo::default_alpha()];
        let d = simple_desc(&img, 7, 4, 255, 6);
        out.push(item("rgb-depth-alpha-7x4-orient6", &img, vec![encode_frame(&img, &d)], 1));
    }
    // animation: three keyframes, crops partly outside, all blend modes across them
    out.push(multi_frame(
        "anim-12x10-3kf",
        12,
        10,
        8,
        &[
            (None, BLEND_REPLACE, 0, 1, 1, FT_REGULAR),
            (Some((-2, 3, 8, 9)), BLEND_BLEND, 1, 1, 2, FT_REGULAR),
            (Some((5, -1, 9, 6)), BLEND_ADD, 1, 0, 1, FT_REGULAR),
        ],
    ));
    out.push(multi_frame(
        "anim-12x10-muladd-mul",
        12,
        10,
        8,
        &[
            (None, BLEND_REPLACE, 0, 2, 1, FT_REGULAR),
            (Some((1, 1, 6, 6)), BLEND_MULADD, 2, 2, 1, FT_REGULAR),
            (Some((3, 2, 20, 20)), BLEND_MUL, 2, 0, 1, FT_REGULAR),
        ],
    ));
    // reference-only frame then a frame blended on it; alpha depth differs from colour depth
    out.push(multi_frame(
        "ref-then-blend-alpha16",
        10,
        8,
        16,
        &[(None, BLEND_REPLACE, 0, 3, 0, FT_REFERENCE_ONLY), (Some((2, 1, 6, 5)), BLEND_BLEND, 3, 0, 0, FT_REGULAR)],
    ));
    // chain: zero-duration layers composited (depth 2), two keyframes sharing reference slot 0
    out.push(multi_frame(
        "layers-chain-two-kf",
        9,
        9,
        8,
        &[
            (None, BLEND_REPLACE, 0, 0, 0, FT_REGULAR),
            (Some((1, 1, 5, 5)), BLEND_BLEND, 0, 0, 0, FT_REGULAR),
            (Some((3, 3, 6, 6)), BLEND_BLEND, 0, 1, 3, FT_REGULAR),
            (Some((0, 0, 4, 9)), BLEND_ADD, 0, 0, 1, FT_REGULAR),
        ],
    ));
    // many small frames (a chunk can cover a whole frame and end inside the next header)
    out.push(multi_frame(
        "anim-4x4-six-frames",
        4,
        4,
        8,
        &[
            (None, BLEND_REPLACE, 0, 0, 1, FT_REGULAR),
            (None, BLEND_REPLACE, 0, 0, 1, FT_REGULAR),
            (Some((1, 1, 2, 2)), BLEND_BLEND, 0, 0, 1, FT_REGULAR),
            (None, BLEND_REPLACE, 0, 0, 1, FT_REGULAR),
            (Some((0, 0, 2, 2)), BLEND_ADD, 0, 0, 1, FT_REGULAR),
            (None, BLEND_REPLACE, 0, 0, 1, FT_REGULAR),
        ],
    ));
    // container variants around the gray 5x3 stream and the animation
    {
        let cs = out[1].bytes.clone();
        let exif: Vec<u8> = vec![0, 0, 0, 0, b'I', b'I', 42, 0, 8, 0, 0, 0];
        let xml = b"<x:xmpmeta/>".to_vec();
        let ftyp = BoxSpec::new(b"ftyp", SizeForm::S32, &FTYP_PAYLOAD);
        let b = mux(&[ftyp.clone(), BoxSpec::new(b"Exif", SizeForm::S32, &exif), BoxSpec::new(b"jxlc", SizeForm::S32, &cs), BoxSpec::new(b"xml ", SizeForm::S64, &xml)]);
        out.push(Item { name: "container-exif-jxlc-xml64".into(), bytes: b, frames: 1, keyframes: 1, width: 5, height: 3 });
        let n = cs.len();
        let b = mux(&[
            ftyp.clone(),
            BoxSpec::jxlp(0, false, SizeForm::S32, &cs[..3]),
            BoxSpec::brob(b"Exif", SizeForm::S32, &exif),
            BoxSpec::jxlp(1, false, SizeForm::S64, &cs[3..n / 2]),
            BoxSpec::new(b"abcd", SizeForm::S32, &[1, 2, 3]),
            BoxSpec::jxlp(2, true, SizeForm::ToEof, &cs[n / 2..]),
        ]);
        out.push(Item { name: "container-jxlp3-brob-toeof".into(), bytes: b, frames: 1, keyframes: 1, width: 5, height: 3 });
        let an = out.iter().find(|i| i.name == "anim-4x4-six-frames").unwrap();
        let acs = an.bytes.clone();
        let m = acs.len();
        let b = mux(&[ftyp.clone(), BoxSpec::jxlp(0, false, SizeForm::S32, &acs[..m / 3]), BoxSpec::jxlp(1, false, SizeForm::S32, &acs[m / 3..2 * m / 3 + 1]), BoxSpec::new(b"xml ", SizeForm::S32, &xml), BoxSpec::jxlp(2, true, SizeForm::S32, &acs[2 * m / 3 + 1..])]);
        out.push(Item { name: "container-anim-jxlp3".into(), bytes: b, frames: an.frames, keyframes: an.keyframes, width: 4, height: 4 });
    }
    // preview frame in front of the main frame
    {
        let mut img = ImageHeader::simple(6, 5, true, 8);
        img.extra_fields = true;
        img.preview = Some(PreviewHeader { width: 16, height: 16, div8: true, ratio: 0 });
        let d = simple_desc(&img, 6, 5, 255, 11);
        let main = encode_frame(&img, &d);
        // the preview frame: a 16x16 cropped Modular frame
        let mut pfh = FrameHeader::modular_lossless(&img);
        pfh.have_crop = true;
        pfh.width = 16;
        pfh.height = 16;
        let pd = FrameDesc { alt_tree: None, local_tree: false, fh: pfh, channels: planes(16, 16, 1, 255, 12), tree: Node::leaf(1), ans: false, transforms: vec![], toc_rev: false };
        let preview = encode_frame(&img, &pd);
        out.push(item("gray-6x5-with-preview", &img, vec![preview, main], 1));
    }
    // embedded ICC profile (hand-built, well-formed RGB matrix profile), prefix and ANS coded
    for (k, ans) in [false, true].into_iter().enumerate() {
        let profs = crate::c18::profiles(0, true);
        let p = &profs.iter().find(|p| p.0 == "built-appl").unwrap().1;
        let plan = jxlw::icc::Plan { tags: jxlw::icc::TagMode::Shortcuts, segs: vec![jxlw::icc::Seg::Raw(p.len() - 132 - 11 * 12)] };
        let enc = jxlw::icc::encode(p, &plan).expect("icc plan");
        let mut img = ImageHeader::simple(4, 3, false, 8);
        img.colour_encoding = ColourEncoding { all_default: false, want_icc: true, ..ColourEncoding::srgb() };
        img.icc_stream = Some(jxlw::icc::write_icc_stream(&enc, &CodeOpts { use_prefix: !ans, cluster_map: Some((0..41).map(|i| (i % 4) as u8).collect()), cfg: Some(jxlw::entropy::HybridCfg::new(8, 0, 0)), ..Default::default() }));
        let d = simple_desc(&img, 4, 3, 255, 13 + k);
        out.push(item(if ans { "rgb-4x3-icc-ans" } else { "rgb-4x3-icc-prefix" }, &img, vec![encode_frame(&img, &d)], 1));
    }
    // VarDCT streams (JPEG-transcode style: DCT8, YCbCr, raw quant tables), without and with restoration filters
    for (name, w, h, filters, iters, ans) in [("vardct-ycbcr-32x16", 32usize, 16usize, false, 0u32, false), ("vardct-ycbcr-48x40-gab-epf", 48, 40, true, 0, true), ("vardct-ycbcr-40x24-epf3", 40, 24, true, 3, false), ("vardct-ycbcr-17x9-epf1", 17, 9, true, 1, false)] {
        let mut t = crate::explore::Tape::default();
        let mut c = crate::c17::cfg_from(&mut t);
        c.size = (w, h);
        c.pattern = 5;
        let spec = crate::c17::spec_of(&c, 7);
        out.push(Item { name: name.into(), bytes: spec.write_codestream_opts(ans, filters, iters), frames: 1, keyframes: 1, width: w as u32, height: h as u32 });
    }
    // cropped VarDCT frames on a larger canvas (inside, partly outside, completely outside), with and without YCbCr
    for (name, canvas, ycbcr) in [("vardct-ycbcr-24x16-crop-inside", (40u32, 40u32, 3i32, 5i32), true), ("vardct-noycbcr-24x16-crop-partial", (40, 40, -5, 30), false), ("vardct-noycbcr-24x16-crop-disjoint", (40, 40, 400, 3), false)] {
        let mut t = crate::explore::Tape::default();
        let mut c = crate::c17::cfg_from(&mut t);
        c.size = (24, 16);
        c.pattern = 5;
        let spec = crate::c17::spec_of(&c, 7);
        out.push(Item { name: name.into(), bytes: spec.write_codestream_cropped(false, false, 0, Some(canvas), ycbcr), frames: 1, keyframes: 1, width: canvas.0, height: canvas.1 });
    }
    // VarDCT with noise, and with frame upsampling 2 (image twice the coded size)
    for (name, o) in [
        ("vardct-ycbcr-40x24-noise", jxlw::jpeg::StreamOpts { noise: Some([400, 300, 200, 150, 100, 80, 60, 40]), ..Default::default() }),
        ("vardct-noycbcr-40x24-noise-gab", jxlw::jpeg::StreamOpts { noise: Some([1023, 0, 512, 7, 900, 33, 128, 256]), filters: true, no_ycbcr: true, ..Default::default() }),
        ("vardct-ycbcr-40x24-up2", jxlw::jpeg::StreamOpts { upsampling: 2, ..Default::default() }),
        ("vardct-ycbcr-40x24-up4-epf", jxlw::jpeg::StreamOpts { upsampling: 4, filters: true, epf_iters: 2, ..Default::default() }),
    ] {
        let mut t = crate::explore::Tape::default();
        let mut c = crate::c17::cfg_from(&mut t);
        c.size = (40, 24);
        c.pattern = 5;
        let spec = crate::c17::spec_of(&c, 7);
        let up = o.upsampling.max(1);
        out.push(Item { name: name.into(), bytes: spec.write_codestream_with(&o), frames: 1, keyframes: 1, width: 40 * up, height: 24 * up });
    }
    // chroma-subsampled VarDCT (4:2:0, 4:2:2, 4:4:0), the middle one with restoration filters
    for (name, sampling, size, filters) in [("vardct-420-40x24", 1u32, (40usize, 24usize), false), ("vardct-422-33x17-gab-epf", 2, (33, 17), true), ("vardct-440-24x40", 3, (24, 40), false)] {
        let mut t = crate::explore::Tape::default();
        let mut c = crate::c17::cfg_from(&mut t);
        c.size = size;
        c.pattern = 5;
        c.sampling = sampling;
        let spec = crate::c17::spec_of(&c, 11);
        out.push(Item { name: name.into(), bytes: spec.write_codestream_with(&jxlw::jpeg::StreamOpts { filters, ..Default::default() }), frames: 1, keyframes: 1, width: size.0 as u32, height: size.1 as u32 });
    }
    // multi-group VarDCT frames (256x256 groups -> several TOC sections), incl. filters across the group border and 4:2:0
    for (name, sampling, size, filters, pattern) in [("vardct-264x40-2groups-gab-epf", 0u32, (264usize, 40usize), true, 0u32), ("vardct-520x24-3groups-420", 1, (520, 24), false, 2), ("vardct-260x264-4groups", 0, (260, 264), false, 2)] {
        let mut t = crate::explore::Tape::default();
        let mut c = crate::c17::cfg_from(&mut t);
        c.size = size;
        c.pattern = pattern;
        c.sampling = sampling;
        let spec = crate::c17::spec_of(&c, 13);
        out.push(Item { name: name.into(), bytes: spec.write_codestream_with(&jxlw::jpeg::StreamOpts { filters, ..Default::default() }), frames: 1, keyframes: 1, width: size.0 as u32, height: size.1 as u32 });
    }
    // VarDCT frame that takes its LF from a preceding LF frame (lf_level 1)
    for (name, size, filters) in [("vardct-lfframe-40x24", (40usize, 24usize), false), ("vardct-lfframe-264x40-2groups-epf", (264, 40), true)] {
        let mut t = crate::explore::Tape::default();
        let mut c = crate::c17::cfg_from(&mut t);
        c.size = size;
        c.pattern = 0;
        let spec = crate::c17::spec_of(&c, 17);
        out.push(Item { name: name.into(), bytes: spec.write_codestream_with(&jxlw::jpeg::StreamOpts { filters, lf_frame: true, ..Default::default() }), frames: 2, keyframes: 1, width: size.0 as u32, height: size.1 as u32 });
    }
    // splines: on a VarDCT frame (with noise) and on a Modular RGB frame
    {
        use jxlw::patches::{write_splines, QuantSpline};
        let mut a = QuantSpline { start: (4, 5), points: vec![(14, 9), (25, 6), (33, 17)], colour_dct: [[0; 32]; 3], sigma_dct: [0; 32] };
        a.colour_dct[0][0] = 60;
        a.colour_dct[1][0] = -35;
        a.colour_dct[1][1] = 12;
        a.colour_dct[2][0] = 90;
        a.sigma_dct[0] = 24;
        a.sigma_dct[2] = -3;
        let mut b = QuantSpline { start: (30, 2), points: vec![(20, 20)], colour_dct: [[0; 32]; 3], sigma_dct: [0; 32] };
        b.colour_dct[0][0] = -40;
        b.colour_dct[2][3] = 25;
        b.sigma_dct[0] = 40;
        let dict = |ans: bool| write_splines(&[a.clone(), b.clone()], 2, &CodeOpts { use_prefix: !ans, ..Default::default() });
        let mut t = crate::explore::Tape::default();
        let mut c = crate::c17::cfg_from(&mut t);
        c.size = (40, 24);
        c.pattern = 5;
        let spec = crate::c17::spec_of(&c, 7);
        out.push(Item { name: "vardct-40x24-splines-noise".into(), bytes: spec.write_codestream_with(&jxlw::jpeg::StreamOpts { splines: Some(dict(false)), noise: Some([200, 100, 50, 25, 12, 6, 3, 1]), no_ycbcr: true, ..Default::default() }), frames: 1, keyframes: 1, width: 40, height: 24 });
        // two 256-wide groups: a region request inside the second group leaves the first one out of the buffer, and the
        // splines below cross the group border
        {
            let mut c2 = c.clone();
            c2.size = (300, 24);
            c2.pattern = 2;
            let spec2 = crate::c17::spec_of(&c2, 9);
            let mut l = QuantSpline { start: (200, 4), points: vec![(240, 12), (275, 8), (296, 20)], colour_dct: [[0; 32]; 3], sigma_dct: [0; 32] };
            l.colour_dct[0][0] = 80;
            l.colour_dct[1][0] = 50;
            l.colour_dct[2][0] = -60;
            l.sigma_dct[0] = 6;
            let d = write_splines(&[l], 0, &CodeOpts { use_prefix: true, ..Default::default() });
            out.push(Item { name: "vardct-300x24-2groups-splines".into(), bytes: spec2.write_codestream_with(&jxlw::jpeg::StreamOpts { splines: Some(d), no_ycbcr: true, ..Default::default() }), frames: 1, keyframes: 1, width: 300, height: 24 });
        }
        let img = ImageHeader::simple(40, 24, false, 8);
        let mut fh = FrameHeader::modular_lossless(&img);
        fh.flags |= FLAG_SPLINES;
        let mut spec = ModularFrameSpec::new(fh, planes(40, 24, 3, 255, 6));
        spec.tree = Node::leaf(5);
        spec.lf_global_prefix = Some(dict(true));
        out.push(item("rgb-40x24-splines", &img, vec![write_modular_frame(&img, &spec).bytes], 1));
    }
    // a JPEG transcode in a container: jbrd box (reconstruction data) before and after the codestream box
    for (name, jbrd_first) in [("container-jbrd-first-jpeg16x8", true), ("container-jbrd-last-jpeg16x8", false)] {
        let mut tp = crate::explore::Tape::default();
        let c = crate::c17::cfg_from(&mut tp);
        let (file, _jpeg) = crate::c17::spec_of(&c, 3).write_container(false, jbrd_first);
        out.push(Item { name: name.into(), bytes: file, frames: 1, keyframes: 1, width: c.size.0 as u32, height: c.size.1 as u32 });
    }
    // LZ77 copies inside Modular sub-bitstreams (striped image, Gradient predictor): special two-dimensional distance
    // codes and plain distances
    for (name, mode, w, h) in [("rgb-33x9-lz77-special", 1u32, 33usize, 9usize), ("gray-70x40-lz77-plain-groups", 2, 70, 40)] {
        use jxlw::entropy::{HybridCfg, Lz77};
        let grey = mode == 2;
        let img = ImageHeader::simple(w as u32, h as u32, grey, 8);
        let mut fh = FrameHeader::modular_lossless(&img);
        if grey {
            fh.group_size_shift = 0;
        }
        let ch: Vec<Channel> = (0..if grey { 1 } else { 3 }).map(|c| Channel::from_fn(w, h, move |x, y| (((x / 3 + c) % 4) * 60 + (y / 4) * 5) as i32)).collect();
        let mut spec = ModularFrameSpec::new(fh, ch);
        spec.tree = Node::leaf(5);
        spec.code = CodeOpts { use_prefix: true, cfg: Some(HybridCfg::new(4, 1, 0)), lz77: Some(Lz77 { min_symbol: 224, min_length: 3, len_cfg: HybridCfg::new(0, 0, 0) }), ..Default::default() };
        spec.lz77_copies = mode;
        let enc = write_modular_frame(&img, &spec);
        assert!(enc.lz77_copies > 0, "corpus item {name} has no LZ77 copy");
        out.push(item(name, &img, vec![enc.bytes], 1));
    }
    // a VarDCT layer with alpha under a Modular layer whose alpha is coded at half resolution (ec_upsampling 2): the lower
    // layer is rendered for the requested region padded for its own filters, the upper one for a region padded for its
    // upsampling
    {
        let mut tp = crate::explore::Tape::default();
        let mut c = crate::c17::cfg_from(&mut tp);
        c.size = (40, 24);
        c.pattern = 0;
        let spec = crate::c17::spec_of(&c, 5);
        let (img, header, lower) = spec.stream_parts(&jxlw::jpeg::StreamOpts { alpha_bits: 8, not_last: true, ..Default::default() });
        let mut fk = FrameHeader::modular_lossless(&img);
        fk.ec_upsampling = vec![2];
        fk.blending_info = BlendingInfo { mode: BLEND_BLEND, alpha_channel: 0, clamp: false, source: 0 };
        fk.ec_blending_info = vec![fk.blending_info.clone()];
        let mut ch = planes(40, 24, 3, 255, 7);
        ch.push(tex(20, 12, 3, 255, 8));
        let mut sk = ModularFrameSpec::new(fk, ch);
        sk.tree = Node::leaf(5);
        let mut b = header;
        b.extend_from_slice(&lower);
        b.extend_from_slice(&write_modular_frame(&img, &sk).bytes);
        out.push(Item { name: "vardct-alpha-layer-under-ecup2-modular-layer".into(), bytes: b, frames: 2, keyframes: 1, width: 40, height: 24 });
    }
    // large varblocks in two 256x256 groups: the four lazily built coefficient orders (DCT128x128, 64x128, 256x256,
    // 128x256) and, with 64x64 / 32x64, the largest constant ones; the first also with Gabor + EPF
    for (name, t, size, filters) in [
        ("vardct-512x128-dct128-2groups-gab-epf", 21u8, (512usize, 128usize), true),
        ("vardct-512x136-dct64x128-2groups", 23, (512, 136), false),
        ("vardct-512x256-dct256-2groups", 24, (512, 256), false),
        ("vardct-520x256-dct128x256-3groups", 26, (520, 256), false),
        ("vardct-300x72-dct64-2groups", 18, (300, 72), false),
        ("vardct-72x40-dct32x16-dct8", 10, (72, 40), false),
    ] {
        let mut tp = crate::explore::Tape::default();
        let mut c = crate::c17::cfg_from(&mut tp);
        c.size = size;
        c.pattern = 3;
        let spec = crate::c17::spec_of(&c, 5);
        out.push(Item { name: name.into(), bytes: spec.write_codestream_with(&jxlw::jpeg::StreamOpts { big_blocks: Some(t), filters, ..Default::default() }), frames: 1, keyframes: 1, width: size.0 as u32, height: size.1 as u32 });
    }
    // every small transform type, mixed with DCT8 / DCT16 / DCT32 classes; chroma-from-luma maps, varying HF multipliers,
    // adaptive LF smoothing
    {
        let mk = |name: &str, size: (usize, usize), o: jxlw::jpeg::StreamOpts| {
            let mut tp = crate::explore::Tape::default();
            let mut c = crate::c17::cfg_from(&mut tp);
            c.size = size;
            c.pattern = 4;
            let spec = crate::c17::spec_of(&c, 11);
            Item { name: name.into(), bytes: spec.write_codestream_with(&o), frames: 1, keyframes: 1, width: size.0 as u32, height: size.1 as u32 }
        };
        out.push(mk("vardct-72x40-small-transforms-cfl-hfmul", (72, 40), jxlw::jpeg::StreamOpts { block_cycle: vec![1, 2, 3, 12, 13, 14, 15, 16, 17, 0, 4, 6, 7], cfl: true, hf_mul_varied: true, no_ycbcr: true, ..Default::default() }));
        out.push(mk("vardct-264x72-mixed-2groups-lfsmooth-gab-epf", (264, 72), jxlw::jpeg::StreamOpts { block_cycle: vec![5, 8, 9, 10, 11, 18, 19, 20, 0, 4], lf_smoothing: true, filters: true, hf_mul_varied: true, ..Default::default() }));
        // two LF groups (the image is wider / taller than 2048): Gabor + EPF, whose strength map is kept per LF group, varying
        // HF multipliers and chroma-from-luma maps
        out.push(mk("vardct-2056x8-2lfgroups-gab-epf", (2056, 8), jxlw::jpeg::StreamOpts { filters: true, hf_mul_varied: true, ..Default::default() }));
        out.push(mk("vardct-16x2056-2lfgroups-epf1-cfl", (16, 2056), jxlw::jpeg::StreamOpts { filters: true, epf_iters: 1, cfl: true, no_ycbcr: true, ..Default::default() }));
        out.push(mk("vardct-40x24-lfsmooth-cfl", (40, 24), jxlw::jpeg::StreamOpts { lf_smoothing: true, cfl: true, ..Default::default() }));
    }
    // VarDCT colour with a Modular-coded alpha channel (8 and 12 bit), the second with Gabor + EPF
    for (name, bits, filters) in [("vardct-40x24-alpha8", 8u32, false), ("vardct-33x17-alpha12-gab-epf", 12, true)] {
        let mut t = crate::explore::Tape::default();
        let mut c = crate::c17::cfg_from(&mut t);
        c.size = if bits == 8 { (40, 24) } else { (33, 17) };
        c.pattern = 5;
        let spec = crate::c17::spec_of(&c, 19);
        out.push(Item { name: name.into(), bytes: spec.write_codestream_with(&jxlw::jpeg::StreamOpts { filters, alpha_bits: bits, ..Default::default() }), frames: 1, keyframes: 1, width: c.size.0 as u32, height: c.size.1 as u32 });
    }
    // VarDCT animation: two keyframes with noise (the noise generator is seeded from the number of frames shown before)
    {
        let mk = |seed: u64, pattern: u32| {
            let mut t = crate::explore::Tape::default();
            let mut c = crate::c17::cfg_from(&mut t);
            c.size = (40, 24);
            c.pattern = pattern;
            crate::c17::spec_of(&c, seed)
        };
        let noise = Some([300u32, 250, 200, 150, 100, 80, 60, 40]);
        let (_, hdr, f0) = mk(21, 5).stream_parts(&jxlw::jpeg::StreamOpts { animation: true, duration: 1, not_last: true, noise, ..Default::default() });
        let (_, _, f1) = mk(22, 0).stream_parts(&jxlw::jpeg::StreamOpts { animation: true, duration: 1, not_last: true, noise, filters: true, ..Default::default() });
        let (_, _, f2) = mk(23, 5).stream_parts(&jxlw::jpeg::StreamOpts { animation: true, duration: 1, noise, ..Default::default() });
        let mut bytes = hdr;
        bytes.extend_from_slice(&f0);
        bytes.extend_from_slice(&f1);
        bytes.extend_from_slice(&f2);
        out.push(Item { name: "vardct-anim-3kf-noise".into(), bytes, frames: 3, keyframes: 3, width: 40, height: 24 });
    }
    // VarDCT frame with a patch dictionary over a Modular reference-only frame
    {
        use jxlw::patches::*;
        let mut t = crate::explore::Tape::default();
        let mut c = crate::c17::cfg_from(&mut t);
        c.size = (40, 24);
        c.pattern = 0;
        let spec = crate::c17::spec_of(&c, 25);
        let pb = |mode: u32| PatchBlend { mode, alpha_channel: 0, clamp: false };
        let refs = vec![
            PatchRef { ref_idx: 2, x0: 1, y0: 1, w: 7, h: 5, targets: vec![PatchTarget { x: 3, y: 2, blending: vec![pb(PATCH_REPLACE)] }, PatchTarget { x: 30, y: 17, blending: vec![pb(PATCH_ADD)] }] },
            PatchRef { ref_idx: 2, x0: 0, y0: 0, w: 9, h: 7, targets: vec![PatchTarget { x: 14, y: 9, blending: vec![pb(PATCH_MUL)] }] },
        ];
        let dict = write_patches(&refs, 0, &CodeOpts { use_prefix: true, ..Default::default() });
        let (img, hdr, frame) = spec.stream_parts(&jxlw::jpeg::StreamOpts { patches: Some(dict), ..Default::default() });
        let mut f0 = FrameHeader::modular_lossless(&img);
        f0.frame_type = FT_REFERENCE_ONLY;
        f0.is_last = false;
        f0.save_as_reference = 2;
        f0.have_crop = true;
        f0.width = 9;
        f0.height = 7;
        if f0.save_before_ct_signalled(&img) {
            f0.save_before_ct = true;
        }
        let d0 = FrameDesc { alt_tree: None, local_tree: false, fh: f0, channels: planes(9, 7, 3, 255, 2), tree: Node::leaf(5), ans: false, transforms: vec![], toc_rev: false };
        let mut bytes = hdr;
        bytes.extend_from_slice(&encode_frame(&img, &d0));
        bytes.extend_from_slice(&frame);
        out.push(Item { name: "vardct-40x24-patches".into(), bytes, frames: 2, keyframes: 1, width: 40, height: 24 });
    }
    // Modular frames with upsampling 2 / 8 (alpha upsampled alike)
    for (name, up, w, h) in [("rgba-up2-21x13", 2u32, 21u32, 13u32), ("rgba-up8-35x18", 8, 35, 18)] {
        let mut img = ImageHeader::simple(w, h, false, 8);
        img.ec_info = vec![ExtraChannelInfo::new(EC_ALPHA, BitDepth::int(8))];
        let mut fh = FrameHeader::modular_lossless(&img);
        fh.upsampling = up;
        fh.ec_upsampling = vec![up];
        let (cw, ch) = (((w + up - 1) / up) as usize, ((h + up - 1) / up) as usize);
        let d = FrameDesc { alt_tree: None, local_tree: false, fh, channels: planes(cw, ch, 4, 255, 3), tree: Node::leaf(5), ans: false, transforms: vec![], toc_rev: false };
        out.push(item(name, &img, vec![encode_frame(&img, &d)], 1));
    }
    // patches: a reference-only frame and a frame whose patch dictionary copies from it
    {
        use jxlw::patches::*;
        let mut img = ImageHeader::simple(24, 20, false, 8);
        img.ec_info = vec![ExtraChannelInfo::new(EC_ALPHA, BitDepth::int(8))];
        let mut f0 = FrameHeader::modular_lossless(&img);
        f0.frame_type = FT_REFERENCE_ONLY;
        f0.is_last = false;
        f0.save_as_reference = 1;
        f0.have_crop = true;
        f0.width = 9;
        f0.height = 7;
        if f0.save_before_ct_signalled(&img) {
            f0.save_before_ct = true;
        }
        let d0 = FrameDesc { alt_tree: None, local_tree: false, fh: f0, channels: planes(9, 7, 4, 255, 9), tree: Node::leaf(5), ans: false, transforms: vec![], toc_rev: false };
        let mut f1 = FrameHeader::modular_lossless(&img);
        f1.flags |= FLAG_PATCHES;
        let pb = |mode: u32| PatchBlend { mode, alpha_channel: 0, clamp: false };
        let refs = vec![
            PatchRef { ref_idx: 1, x0: 1, y0: 1, w: 6, h: 5, targets: vec![PatchTarget { x: 2, y: 3, blending: vec![pb(PATCH_REPLACE), pb(PATCH_REPLACE)] }, PatchTarget { x: 17, y: 14, blending: vec![pb(PATCH_BLEND_ABOVE), pb(PATCH_BLEND_ABOVE)] }] },
            PatchRef { ref_idx: 1, x0: 0, y0: 0, w: 9, h: 7, targets: vec![PatchTarget { x: 10, y: 0, blending: vec![pb(PATCH_ADD), pb(PATCH_NONE)] }] },
        ];
        let mut coded = planes(24, 20, 4, 255, 4);
        let _ = &mut coded;
        let mut spec = ModularFrameSpec::new(f1, coded);
        spec.tree = Node::leaf(5);
        spec.lf_global_prefix = Some(write_patches(&refs, 1, &CodeOpts { use_prefix: true, ..Default::default() }));
        out.push(item("rgba-24x20-patches", &img, vec![encode_frame(&img, &d0), write_modular_frame(&img, &spec).bytes], 1));
        // a zero-duration layer with patches kept in slot 0, and a keyframe with patches blended over it: the layer is a
        // dependency of the keyframe and has a dependency (the patch source) of its own
        {
            let mut fx = FrameHeader::modular_lossless(&img);
            fx.flags |= FLAG_PATCHES;
            fx.is_last = false;
            let mut sx = ModularFrameSpec::new(fx, planes(24, 20, 4, 255, 6));
            sx.tree = Node::leaf(5);
            sx.lf_global_prefix = Some(write_patches(&refs, 1, &CodeOpts { use_prefix: true, ..Default::default() }));
            let mut fk = FrameHeader::modular_lossless(&img);
            fk.flags |= FLAG_PATCHES;
            fk.blending_info = BlendingInfo { mode: BLEND_BLEND, alpha_channel: 0, clamp: false, source: 0 };
            fk.ec_blending_info = vec![fk.blending_info.clone()];
            let mut sk = ModularFrameSpec::new(fk, planes(24, 20, 4, 255, 7));
            sk.tree = Node::leaf(5);
            sk.lf_global_prefix = Some(write_patches(&refs[..1], 1, &CodeOpts { use_prefix: true, ..Default::default() }));
            out.push(item("rgba-24x20-patches-layer-under-patched-keyframe", &img, vec![encode_frame(&img, &d0), write_modular_frame(&img, &sx).bytes, write_modular_frame(&img, &sk).bytes], 1));
            // the same layer under a keyframe WITHOUT patches: the keyframe is a plain frame whose only dependency (the
            // layer) has a dependency of its own
            let mut fp = FrameHeader::modular_lossless(&img);
            fp.blending_info = BlendingInfo { mode: BLEND_BLEND, alpha_channel: 0, clamp: false, source: 0 };
            fp.ec_blending_info = vec![fp.blending_info.clone()];
            let mut sp = ModularFrameSpec::new(fp, planes(24, 20, 4, 255, 8));
            sp.tree = Node::leaf(5);
            out.push(item("rgba-24x20-patched-layer-under-plain-keyframe", &img, vec![encode_frame(&img, &d0), write_modular_frame(&img, &sx).bytes, write_modular_frame(&img, &sp).bytes], 1));
        }
        // a frame whose alpha is coded at half resolution (ec_upsampling 2), blended (alpha-using modes) over a layer: the
        // new frame's alpha covers another region than its colour channels when a region of interest is requested
        for (name, mode) in [("rgba-24x20-ecup2-blend-over-layer", BLEND_BLEND), ("rgba-24x20-ecup2-muladd-over-layer", BLEND_MULADD)] {
            let mut fx = FrameHeader::modular_lossless(&img);
            fx.is_last = false;
            let mut sx = ModularFrameSpec::new(fx, planes(24, 20, 4, 255, 6));
            sx.tree = Node::leaf(5);
            let mut fk = FrameHeader::modular_lossless(&img);
            fk.ec_upsampling = vec![2];
            fk.blending_info = BlendingInfo { mode, alpha_channel: 0, clamp: false, source: 0 };
            fk.ec_blending_info = vec![fk.blending_info.clone()];
            let mut ch = planes(24, 20, 3, 255, 7);
            ch.push(tex(12, 10, 3, 255, 8));
            let mut sk = ModularFrameSpec::new(fk, ch);
            sk.tree = Node::leaf(5);
            out.push(item(name, &img, vec![write_modular_frame(&img, &sx).bytes, write_modular_frame(&img, &sk).bytes], 1));
        }
        // the same with the alpha channel of the patched frame coded at half resolution (ec_upsampling 2)
        let mut f2 = FrameHeader::modular_lossless(&img);
        f2.flags |= FLAG_PATCHES;
        f2.ec_upsampling = vec![2];
        let mut ch2 = planes(24, 20, 3, 255, 4);
        ch2.push(tex(12, 10, 3, 255, 8));
        let mut spec2 = ModularFrameSpec::new(f2, ch2);
        spec2.tree = Node::leaf(5);
        spec2.lf_global_prefix = Some(write_patches(&refs, 1, &CodeOpts { use_prefix: true, ..Default::default() }));
        out.push(item("rgba-24x20-patches-ecup2", &img, vec![encode_frame(&img, &d0), write_modular_frame(&img, &spec2).bytes], 1));
        // and with the whole patched frame coded at half resolution (frame upsampling 2): patches are applied before the
        // final upsampling, at positions of the 12x10 coded frame
        let mut f3 = FrameHeader::modular_lossless(&img);
        f3.flags |= FLAG_PATCHES;
        f3.upsampling = 2;
        f3.ec_upsampling = vec![2];
        let refs3 = vec![PatchRef { ref_idx: 1, x0: 1, y0: 1, w: 5, h: 4, targets: vec![PatchTarget { x: 1, y: 2, blending: vec![pb(PATCH_REPLACE), pb(PATCH_REPLACE)] }, PatchTarget { x: 6, y: 5, blending: vec![pb(PATCH_BLEND_ABOVE), pb(PATCH_BLEND_ABOVE)] }] }];
        let mut spec3 = ModularFrameSpec::new(f3, planes(12, 10, 4, 255, 5));
        spec3.tree = Node::leaf(5);
        spec3.lf_global_prefix = Some(write_patches(&refs3, 1, &CodeOpts { use_prefix: true, ..Default::default() }));
        out.push(item("rgba-24x20-patches-up2", &img, vec![encode_frame(&img, &d0), write_modular_frame(&img, &spec3).bytes], 1));
    }
    let _ = BitWriter::new();
    out
}
