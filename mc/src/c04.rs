//! C04 — entropy decoding inverts the coding: families of codes/histograms/configs enumerated
//! exhaustively in small scope, encoded with `jxlw::entropy`, decoded with `jxl_coding::Decoder`.

use crate::explore::{n_threads, par_map};
use crate::report::{fnv, hex, Report};
use crate::util::{guard, panic_site, Lcg};
use jxl_bitstream::Bitstream;
use jxlw::bits::BitWriter;
use jxlw::entropy::*;
use serde_json::json;

pub struct Case {
    pub name: String,
    pub spec: CodeSpec,
    pub syms: Vec<Sym>,
    /// distance multiplier passed to the decoder
    pub mult: u32,
    /// values the decoder must return, with the context each read is issued in
    pub expected: Vec<(u32, u32)>,
}

/// Expands symbols (incl. LZ77 copies) to the value sequence they denote.
pub fn expand(spec: &CodeSpec, syms: &[Sym], mult: u32) -> Vec<(u32, u32)> {
    let mut out: Vec<(u32, u32)> = Vec::new();
    for s in syms {
        match *s {
            Sym::Val { ctx, value } => out.push((ctx, value)),
            Sym::Copy { ctx, len, dist_value } => {
                let _ = spec;
                let mut d = lz77_distance(dist_value, mult) as usize;
                d = d.min(out.len()).min(1 << 20);
                for _ in 0..len {
                    let v = if d == 0 { 0 } else { out[out.len() - d].1 };
                    out.push((ctx, v));
                }
            }
        }
    }
    out
}

fn encode(case: &Case) -> (Vec<u8>, usize) {
    let mut w = BitWriter::new();
    case.spec.write_header(&mut w);
    case.spec.write_symbols(&mut w, &case.syms);
    let bits = w.bit_len();
    // trailing guard bytes so that a decoder reading ahead does not hit EOF spuriously
    let mut bytes = w.finish();
    bytes.extend_from_slice(&[0u8; 8]);
    (bytes, bits)
}

pub fn run_case(case: &Case) -> Result<(), (String, String)> {
    let (bytes, bits) = encode(case);
    let r = guard(|| -> Result<(), (String, String)> {
        let mut bs = Bitstream::new(&bytes);
        let mut dec = jxl_coding::Decoder::parse(&mut bs, case.spec.num_ctx as u32)
            .map_err(|e| ("parse-error".to_string(), format!("header rejected: {e}")))?;
        dec.begin(&mut bs).map_err(|e| ("begin-error".to_string(), format!("{e}")))?;
        // the shortcut used by fast paths: a cluster that "always emits one token" must really decode to
        // that one value (and nothing else) for every symbol of every context mapped to it
        let cmap: Vec<u8> = dec.cluster_map().to_vec();
        for (ctx, &cl) in cmap.iter().enumerate() {
            if let Some(t) = dec.single_token(cl) {
                if let Some(&(_, v)) = case.expected.iter().find(|e| e.0 as usize == ctx && e.1 != t) {
                    return Err(("single-token-claim".into(), format!("single_token(cluster {cl}) = Some({t}) but context {ctx} carries the value {v}")));
                }
            }
        }
        for (i, &(ctx, want)) in case.expected.iter().enumerate() {
            let got = dec
                .read_varint_with_multiplier(&mut bs, ctx, case.mult)
                .map_err(|e| ("read-error".to_string(), format!("symbol {i}: {e}")))?;
            if got != want {
                return Err(("value-mismatch".into(), format!("symbol {i} (ctx {ctx}): decoded {got}, encoded {want}")));
            }
        }
        dec.finalize().map_err(|e| ("final-state".to_string(), format!("{e}")))?;
        let read = bs.num_read_bits();
        if read != bits {
            return Err(("bit-position".into(), format!("decoder consumed {read} bits, writer produced {bits}")));
        }
        Ok(())
    });
    match r {
        Ok(x) => x,
        Err(p) => Err((format!("panic@{}", panic_site(&p)), format!("panic: {p}"))),
    }
}

fn manual_spec(num_ctx: usize, dists: Dists, cfg: HybridCfg) -> CodeSpec {
    CodeSpec {
        num_ctx,
        lz77: None,
        cluster_map: vec![0; num_ctx],
        cluster_coding: ClusterCoding::Simple(0),
        cfgs: vec![cfg],
        dists,
    }
}

fn vals(ctx: u32, v: &[u32]) -> Vec<Sym> {
    v.iter().map(|&value| Sym::Val { ctx, value }).collect()
}

fn all_seqs(symbols: &[u32], maxlen: usize) -> Vec<Vec<u32>> {
    let mut out = vec![];
    let mut cur: Vec<Vec<u32>> = vec![vec![]];
    for _ in 0..maxlen {
        let mut next = vec![];
        for c in &cur {
            for &s in symbols {
                let mut n = c.clone();
                n.push(s);
                next.push(n);
            }
        }
        out.extend(next.iter().cloned());
        cur = next;
    }
    out
}

/// legal hskip values for a complex header given the code-length symbols that will be used
fn legal_hskips(lengths: &[u8], rle: bool) -> Vec<u32> {
    // code-length symbols used: the lengths themselves plus 16/17 when rle compresses runs; to stay simple and
    // sound we compute conservatively from the *literal* lengths: hskip 2 needs no length 1 or 2, hskip 3 no 1,2,3.
    let _ = rle;
    let has = |v: u8| lengths.iter().any(|&l| l == v);
    let mut out = vec![0];
    if !has(1) && !has(2) {
        out.push(2);
        if !has(3) {
            out.push(3);
        }
    }
    out
}

fn push_prefix_case(out: &mut Vec<Case>, name: String, code: PrefixCode, seqs: &[Vec<u32>]) {
    // identity hybrid config over the 15-bit alphabet: tokens are the values
    let cfg = HybridCfg::new(15, 0, 0);
    for (k, s) in seqs.iter().enumerate() {
        let spec = manual_spec(1, Dists::Prefix(vec![code.clone()]), cfg);
        let syms = vals(0, s);
        let expected = expand(&spec, &syms, 0);
        out.push(Case { name: format!("{name}/seq{k}"), spec, syms, mult: 0, expected });
    }
}

fn kraft_complete(l: &[u8]) -> bool {
    let s: u32 = l.iter().filter(|&&x| x > 0).map(|&x| 1u32 << (15 - x)).sum();
    s == 1 << 15 && l.iter().filter(|&&x| x > 0).count() >= 2
}

pub fn family_prefix_small(out: &mut Vec<Case>, quick: bool) {
    let maxn = if quick { 5 } else { 6 };
    for n in 2..=maxn {
        let mut l = vec![0u8; n];
        loop {
            if kraft_complete(&l) && *l.last().unwrap() != 0 {
                let used: Vec<u32> = (0..n as u32).filter(|&i| l[i as usize] > 0).collect();
                let seqs = all_seqs(&used, if n <= 4 { 3 } else { 2 });
                for rle in [false, true] {
                    for hs in legal_hskips(&l, rle) {
                        push_prefix_case(out, format!("prefix-complex{:?}-hskip{hs}-rle{rle}", l), PrefixCode::complex(&l, hs, rle), &seqs);
                    }
                }
            }
            // next vector in {0..=5}^n
            let mut i = 0;
            loop {
                if i == n {
                    break;
                }
                l[i] += 1;
                if l[i] <= 5 {
                    break;
                }
                l[i] = 0;
                i += 1;
            }
            if i == n {
                break;
            }
        }
    }
}

pub fn family_prefix_simple(out: &mut Vec<Case>) {
    for &alpha in &[2u32, 3, 4, 5, 17, 256, 257, 32768] {
        let pool: Vec<u32> = {
            let mut p = vec![0, 1, 2, 3, alpha - 1, alpha / 2];
            p.retain(|&x| x < alpha);
            p.sort();
            p.dedup();
            p
        };
        // every ordered selection of 1..=4 distinct symbols from the pool (pool <= 6)
        fn rec(pool: &[u32], cur: &mut Vec<u32>, k: usize, outv: &mut Vec<Vec<u32>>) {
            if cur.len() == k {
                outv.push(cur.clone());
                return;
            }
            for &p in pool {
                if !cur.contains(&p) {
                    cur.push(p);
                    rec(pool, cur, k, outv);
                    cur.pop();
                }
            }
        }
        for k in 1..=4usize.min(pool.len()) {
            let mut sels = vec![];
            rec(&pool, &mut vec![], k, &mut sels);
            for sel in sels {
                // the format requires symbols of equal length to be sorted: NSYM=2: sorted; 3: last two sorted;
                // 4 & !tree_select: all sorted; 4 & tree_select: last two sorted.
                for ts in [false, true] {
                    if k != 4 && ts {
                        continue;
                    }
                    let ok = match (k, ts) {
                        (1, _) => true,
                        (2, _) => sel[0] < sel[1],
                        (3, _) => sel[1] < sel[2],
                        (4, false) => sel.windows(2).all(|w| w[0] < w[1]),
                        _ => sel[2] < sel[3],
                    };
                    if !ok {
                        continue;
                    }
                    let code = PrefixCode::simple(alpha, &sel, ts);
                    let seqs = all_seqs(&sel, if k <= 2 { 3 } else { 2 });
                    push_prefix_case(out, format!("prefix-simple-a{alpha}-{:?}-ts{ts}", sel), code, &seqs);
                }
            }
        }
    }
}

pub fn family_prefix_deep(out: &mut Vec<Case>, seed: u64) {
    // chains (1,2,...,k,k)
    for k in 2..=15u8 {
        let mut l: Vec<u8> = (1..=k).collect();
        l.push(k);
        let used: Vec<u32> = (0..l.len() as u32).collect();
        let mut seqs = vec![used.clone(), used.iter().rev().cloned().collect()];
        seqs.push(vec![k as u32, k as u32 - 1, 0, k as u32]);
        for rle in [false, true] {
            push_prefix_case(out, format!("prefix-chain{k}-rle{rle}"), PrefixCode::complex(&l, 0, rle), &seqs);
        }
        // chain placed at the end of a larger alphabet with a zero run in front (code 17 runs)
        for pad in [3usize, 10, 11, 74, 75, 138, 500] {
            let mut l2 = vec![0u8; pad];
            l2.extend_from_slice(&l);
            let used: Vec<u32> = (pad as u32..l2.len() as u32).collect();
            let seqs = vec![used.clone()];
            push_prefix_case(out, format!("prefix-chain{k}-pad{pad}"), PrefixCode::complex(&l2, 0, true), &seqs);
        }
    }
    // flat big alphabets (code 16 runs, second-level table)
    for (n, len) in [(256usize, 8u8), (512, 9), (1024, 10), (4096, 12), (32768, 15)] {
        let l = vec![len; n];
        let mut rng = Lcg(seed ^ n as u64);
        let s: Vec<u32> = (0..200).map(|_| rng.below(n as u32)).chain([0, n as u32 - 1]).collect();
        for rle in [true, false] {
            if !rle && n > 4096 {
                continue;
            }
            push_prefix_case(out, format!("prefix-flat{n}-rle{rle}"), PrefixCode::complex(&l, 0, rle), &[s.clone()]);
        }
    }
    // mixed: half at len L, quarter at L+1 ... (hybrid deep/balanced), alphabets 257 / 300
    for n in [257usize, 300, 1000] {
        let counts: Vec<u64> = (0..n).map(|i| 1 + (i as u64 * 7919) % 97 + if i % 50 == 0 { 5000 } else { 0 }).collect();
        let l = huffman_lengths(&counts, 15);
        let mut rng = Lcg(seed ^ 77 ^ n as u64);
        let s: Vec<u32> = (0..300).map(|_| rng.below(n as u32)).collect();
        for hs in legal_hskips(&l, true) {
            push_prefix_case(out, format!("prefix-huff{n}-hskip{hs}"), PrefixCode::complex(&l, hs, true), &[s.clone()]);
        }
    }
    // single code-length symbol: all used symbols share one length (power-of-two count)
    for (n, len) in [(2usize, 1u8), (4, 2), (8, 3), (16, 4), (32, 5)] {
        let l = vec![len; n];
        let s: Vec<u32> = (0..n as u32).collect();
        push_prefix_case(out, format!("prefix-uniform{n}"), PrefixCode::complex(&l, 0, false), &[s.clone()]);
    }
}

fn ans_spec(dist: AnsDist, la: u32) -> CodeSpec {
    manual_spec(1, Dists::Ans { log_alpha: la, dists: vec![dist] }, HybridCfg::new(la, 0, 0))
}

fn push_ans_case(out: &mut Vec<Case>, name: String, dist: AnsDist, la: u32, seqs: &[Vec<u32>]) {
    for (k, s) in seqs.iter().enumerate() {
        let spec = ans_spec(dist.clone(), la);
        let syms = vals(0, s);
        let expected = expand(&spec, &syms, 0);
        out.push(Case { name: format!("{name}/seq{k}"), spec, syms, mult: 0, expected });
    }
}

fn lcg_seq_weighted(d: &[u16], n: usize, seed: u64) -> Vec<u32> {
    // sequence drawn roughly according to the distribution (forces renormalisation both ways)
    let mut rng = Lcg(seed);
    let mut out = Vec::with_capacity(n);
    for _ in 0..n {
        let r = rng.below(4096);
        let mut acc = 0u32;
        let mut s = 0;
        for (i, &f) in d.iter().enumerate() {
            acc += f as u32;
            if r < acc {
                s = i;
                break;
            }
        }
        out.push(s as u32);
    }
    // make sure every used symbol appears
    for (i, &f) in d.iter().enumerate() {
        if f > 0 {
            out.push(i as u32);
        }
    }
    out
}

pub fn family_ans(out: &mut Vec<Case>, quick: bool, seed: u64) {
    for la in 5..=8u32 {
        let tab = 1u32 << la;
        // single
        for s in [0u32, 1, tab / 2, tab - 1] {
            push_ans_case(out, format!("ans-single-la{la}-s{s}"), AnsDist::single(s), la, &[vec![s], vec![s; 5], vec![s; 300]]);
        }
        // binary: all pairs in an 8-symbol alphabet x probabilities
        for a in 0..8u32 {
            for b in a + 1..8 {
                for p in [1u16, 2, 2047, 2048, 2049, 4094, 4095] {
                    if quick && (a + b) % 3 != 0 && !(p == 1 || p == 2048 || p == 4095) {
                        continue;
                    }
                    let d = AnsDist::binary(a, b, p);
                    let mut seqs = all_seqs(&[a, b], 3);
                    seqs.push(lcg_seq_weighted(&d.d, 400, seed ^ (a * 8 + b) as u64));
                    push_ans_case(out, format!("ans-binary-la{la}-{a}-{b}-p{p}"), d, la, &seqs);
                }
            }
        }
        // flat: every alphabet size
        for n in 1..=tab.min(256) {
            if quick && la != 8 && n % 5 != 0 && n > 4 && n != tab {
                continue;
            }
            let d = AnsDist::flat(n);
            let all: Vec<u32> = (0..n).collect();
            let mut seqs = vec![all.clone(), all.iter().rev().cloned().collect()];
            if n <= 3 {
                seqs.extend(all_seqs(&all, 3));
            }
            seqs.push(lcg_seq_weighted(&d.d, 300, seed ^ n as u64));
            push_ans_case(out, format!("ans-flat-la{la}-n{n}"), d, la, &seqs);
        }
    }
    // general: every way to place 4096 over <= 4 symbols on a coarse grid, positions spread in the alphabet
    let grid: Vec<u16> = vec![1, 2, 3, 64, 100, 1000, 1365, 2048, 3000, 4000];
    for la in [5u32, 8] {
        let tab = 1usize << la;
        let layouts: Vec<Vec<usize>> = vec![vec![0, 1, 2, 3], vec![0, 2, 5, tab - 1], vec![3, 4, 5, 6], vec![1, tab / 2, tab - 2, tab - 1]];
        for k in 2..=4usize {
            // compositions from the grid with remainder on the last symbol
            let mut idx = vec![0usize; k - 1];
            loop {
                let partial: u32 = idx.iter().map(|&i| grid[i] as u32).sum();
                if partial < 4096 {
                    let rest = 4096 - partial;
                    for (li, lay) in layouts.iter().enumerate() {
                        if quick && li >= 2 {
                            continue;
                        }
                        let n = lay[..k].iter().max().unwrap() + 1;
                        let mut d = vec![0u16; n.max(3)];
                        for (j, &i) in idx.iter().enumerate() {
                            d[lay[j]] = grid[i];
                        }
                        d[lay[k - 1]] = rest as u16;
                        if d.iter().any(|&x| x == 4096) {
                            continue;
                        }
                        let shifts: Vec<u32> = if quick { vec![0, 5, 12, 13] } else { (0..=13).collect() };
                        for sh in shifts {
                            let dist = match std::panic::catch_unwind(|| requantise(&d, sh)) {
                                Ok(x) => x,
                                Err(_) => continue, // not representable with this shift (omit symbol would move)
                            };
                            let used: Vec<u32> = (0..dist.d.len() as u32).filter(|&i| dist.d[i as usize] > 0).collect();
                            let mut seqs = all_seqs(&used, 2);
                            seqs.push(lcg_seq_weighted(&dist.d, 500, seed ^ sh as u64));
                            push_ans_case(out, format!("ans-general-la{la}-lay{li}-{:?}-shift{sh}", dist.d), dist, la, &seqs);
                        }
                    }
                }
                let mut i = 0;
                loop {
                    if i == k - 1 {
                        break;
                    }
                    idx[i] += 1;
                    if idx[i] < grid.len() {
                        break;
                    }
                    idx[i] = 0;
                    i += 1;
                }
                if i == k - 1 {
                    break;
                }
            }
        }
    }
    // general with RLE segmentations: long runs of equal frequencies, adjacent runs, run at the end, zeros runs
    for la in [6u32, 8] {
        let tab = 1usize << la;
        let mut shapes: Vec<Vec<u16>> = Vec::new();
        // one big symbol then a run of equal small ones
        for run in [4usize, 5, 8, 20, tab - 1] {
            if run + 1 > tab {
                continue;
            }
            let small = 16u16;
            let mut d = vec![small; run + 1];
            d[0] = (4096 - small as u32 * run as u32) as u16;
            shapes.push(d);
            // two adjacent runs of different values
            if 2 * run + 1 <= tab {
                let mut d = vec![0u16; 2 * run + 1];
                for i in 1..=run {
                    d[i] = 8;
                }
                for i in run + 1..=2 * run {
                    d[i] = 4;
                }
                let rest = 4096 - 12 * run as u32;
                if rest > 8 && rest <= 4096 {
                    d[0] = rest as u16;
                    shapes.push(d);
                }
            }
            // zeros run in the middle
            if run + 3 <= tab {
                let mut d = vec![0u16; run + 3];
                d[0] = 2048;
                d[1] = 1024;
                d[run + 2] = 1024;
                shapes.push(d);
            }
        }
        for d in shapes {
            for rle in [true, false] {
                let dist = AnsDist::general(d.clone(), 13, rle);
                let used: Vec<u32> = (0..d.len() as u32).filter(|&i| d[i as usize] > 0).collect();
                let seqs = vec![used.clone(), lcg_seq_weighted(&d, 600, seed ^ d.len() as u64)];
                push_ans_case(out, format!("ans-general-rle{rle}-la{la}-n{}-d0={}", d.len(), d[0]), dist, la, &seqs);
            }
        }
    }
}

pub fn family_hybrid(out: &mut Vec<Case>) {
    let values: Vec<u32> = vec![0, 1, 2, 3, 7, 8, 15, 16, 17, 31, 32, 33, 255, 256, 1023, 1024, 65535, 65536, (1 << 20) + 5, (1 << 31) - 1, 1 << 31, u32::MAX - 1, u32::MAX];
    // prefix codes: log_alpha 15
    for se in 0..=15u32 {
        for msb in 0..=se {
            for lsb in 0..=se - msb {
                if se == 15 && (msb != 0 || lsb != 0) {
                    continue;
                }
                let cfg = HybridCfg::new(se, msb, lsb);
                let mut vs: Vec<u32> = values.clone();
                let sp = 1u32 << se;
                vs.extend([sp.saturating_sub(1), sp, sp + 1]);
                // keep values whose token fits the 15-bit alphabet
                vs.retain(|&v| cfg.encode(v).0 < 32768);
                vs.sort();
                vs.dedup();
                let syms = vals(0, &vs);
                let opts = CodeOpts { use_prefix: true, cfg: Some(cfg), ..Default::default() };
                let spec = CodeSpec::build(1, &syms, &opts);
                let expected = expand(&spec, &syms, 0);
                out.push(Case { name: format!("hybrid-prefix-{se}-{msb}-{lsb}"), spec, syms, mult: 0, expected });
            }
        }
    }
    // ANS: log_alpha 5..8, tokens must be < 1 << la
    for la in 5..=8u32 {
        for se in 0..=la {
            for msb in 0..=se {
                for lsb in 0..=se - msb {
                    if se == la && (msb != 0 || lsb != 0) {
                        continue;
                    }
                    let cfg = HybridCfg::new(se, msb, lsb);
                    let mut vs: Vec<u32> = values.clone();
                    let sp = 1u32 << se;
                    vs.extend([sp.saturating_sub(1), sp, sp + 1]);
                    vs.retain(|&v| cfg.encode(v).0 < (1 << la));
                    vs.sort();
                    vs.dedup();
                    if vs.is_empty() {
                        continue;
                    }
                    let syms = vals(0, &vs);
                    let opts = CodeOpts { use_prefix: false, log_alpha: la, cfg: Some(cfg), ..Default::default() };
                    let spec = CodeSpec::build(1, &syms, &opts);
                    let expected = expand(&spec, &syms, 0);
                    out.push(Case { name: format!("hybrid-ans{la}-{se}-{msb}-{lsb}"), spec, syms, mult: 0, expected });
                }
            }
        }
    }
}

/// Single-token distributions: all values of a stream share one token, at and around the split point
/// of the hybrid-integer config (a token >= split carries extra bits, so the values still differ).
pub fn family_single_token(out: &mut Vec<Case>) {
    for use_prefix in [true, false] {
        for (se, msb, lsb) in [(4u32, 2u32, 0u32), (4, 0, 0), (4, 1, 1), (0, 0, 0), (2, 1, 0), (5, 0, 2), (8, 3, 1)] {
            if !use_prefix && (se > 5 || (se == 5 && (msb, lsb) != (0, 0))) {
                continue;
            }
            let cfg = HybridCfg::new(se, msb, lsb);
            let sp = 1u32 << se;
            for base in [sp.saturating_sub(1), sp, sp + 1, 2 * sp] {
                let tok = cfg.encode(base).0;
                if !use_prefix && tok >= 32 {
                    continue;
                }
                // every value that shares the token of `base` (bounded scan)
                let vs: Vec<u32> = (base.saturating_sub(64)..base + 200).filter(|&v| cfg.encode(v).0 == tok).take(9).collect();
                for n in [1usize, 2, vs.len()] {
                    let seq: Vec<u32> = (0..n.max(1) * 2).map(|i| vs[i % vs.len().min(n.max(1))]).collect();
                    let syms = vals(0, &seq);
                    let opts = CodeOpts { use_prefix, log_alpha: 5, cfg: Some(cfg), ..Default::default() };
                    let spec = CodeSpec::build(1, &syms, &opts);
                    let expected = expand(&spec, &syms, 0);
                    out.push(Case { name: format!("single-token-{}-{se}-{msb}-{lsb}-base{base}-n{n}", if use_prefix { "prefix" } else { "ans" }), spec, syms, mult: 0, expected });
                }
            }
        }
    }
}

pub fn family_clusters(out: &mut Vec<Case>, quick: bool) {
    // every hole-free cluster map (restricted growth string) for up to 6 contexts
    fn rgs(n: usize, cur: &mut Vec<u8>, outv: &mut Vec<Vec<u8>>) {
        if cur.len() == n {
            outv.push(cur.clone());
            return;
        }
        let m = cur.iter().cloned().max().map(|x| x + 1).unwrap_or(0);
        for v in 0..=m {
            cur.push(v);
            rgs(n, cur, outv);
            cur.pop();
        }
    }
    let maxn = if quick { 5 } else { 6 };
    for n in 2..=maxn {
        let mut maps = vec![];
        rgs(n, &mut vec![], &mut maps);
        // also non-canonical numberings (clusters may be numbered in any order as long as no hole)
        let mut extra = vec![];
        for m in &maps {
            let k = *m.iter().max().unwrap();
            if k >= 1 {
                extra.push(m.iter().map(|&c| k - c).collect::<Vec<u8>>());
            }
        }
        maps.extend(extra);
        for m in maps {
            let k = *m.iter().max().unwrap() as u32;
            let mut codings: Vec<ClusterCoding> = vec![ClusterCoding::Coded { mtf: false }, ClusterCoding::Coded { mtf: true }];
            let minbits = if k == 0 { 0 } else { 32 - k.leading_zeros() };
            for nb in minbits..=3 {
                if (1u32 << nb) > k || k == 0 {
                    codings.push(ClusterCoding::Simple(nb));
                }
            }
            for coding in codings {
                for use_prefix in [true, false] {
                    // each context emits values that identify it, so a wrong map shows as a wrong value/desync
                    let mut syms = vec![];
                    for rep in 0..3u32 {
                        for ctx in 0..n as u32 {
                            syms.push(Sym::Val { ctx, value: (m[ctx as usize] as u32 * 3 + rep) % 11 });
                        }
                    }
                    let opts = CodeOpts { use_prefix, cluster_map: Some(m.clone()), cluster_coding: Some(coding.clone()), ..Default::default() };
                    let spec = CodeSpec::build(n, &syms, &opts);
                    let expected = expand(&spec, &syms, 0);
                    out.push(Case { name: format!("clusters-{:?}-{:?}-prefix{use_prefix}", m, coding), spec, syms, mult: 0, expected });
                }
            }
        }
    }
    // large maps: 40 and 300 contexts (entropy coded with and without MTF)
    for n in [40usize, 300] {
        let m: Vec<u8> = (0..n).map(|i| ((i * 7) % 13) as u8).collect();
        // make hole-free by construction: 13 clusters all used
        for mtf in [false, true] {
            let syms: Vec<Sym> = (0..n as u32).map(|ctx| Sym::Val { ctx, value: m[ctx as usize] as u32 }).collect();
            let opts = CodeOpts { use_prefix: true, cluster_map: Some(m.clone()), cluster_coding: Some(ClusterCoding::Coded { mtf }), ..Default::default() };
            let spec = CodeSpec::build(n, &syms, &opts);
            let expected = expand(&spec, &syms, 0);
            out.push(Case { name: format!("clusters-large{n}-mtf{mtf}"), spec, syms, mult: 0, expected });
        }
    }
}

pub fn family_lz77(out: &mut Vec<Case>, quick: bool, seed: u64) {
    let lz_variants: Vec<Lz77> = vec![
        Lz77 { min_symbol: 224, min_length: 3, len_cfg: HybridCfg::new(0, 0, 0) },
        Lz77 { min_symbol: 512, min_length: 4, len_cfg: HybridCfg::new(4, 1, 0) },
        Lz77 { min_symbol: 4096, min_length: 5, len_cfg: HybridCfg::new(8, 0, 0) },
        Lz77 { min_symbol: 8, min_length: 8, len_cfg: HybridCfg::new(3, 2, 1) },
        Lz77 { min_symbol: 1000, min_length: 9, len_cfg: HybridCfg::new(2, 0, 2) },
        Lz77 { min_symbol: 100, min_length: 264, len_cfg: HybridCfg::new(5, 2, 0) },
    ];
    let mk = |name: String, lz: &Lz77, syms: Vec<Sym>, mult: u32, nctx: usize, out: &mut Vec<Case>| {
        // literal values must tokenise below min_symbol: use a config with enough extra bits
        let cfg = if lz.min_symbol <= 16 { HybridCfg::new(2, 0, 0) } else { HybridCfg::new(4, 1, 0) };
        let opts = CodeOpts { use_prefix: true, cfg: Some(cfg), lz77: Some(lz.clone()), ..Default::default() };
        let ok = std::panic::catch_unwind(|| CodeSpec::build(nctx, &syms, &opts));
        let Ok(spec) = ok else { return };
        let expected = expand(&spec, &syms, mult);
        out.push(Case { name, spec, syms, mult, expected });
    };
    let base: Vec<u32> = vec![5, 1, 4, 1, 3, 0, 2, 2, 6];
    for (li, lz) in lz_variants.iter().enumerate() {
        let lit: Vec<Sym> = base.iter().enumerate().map(|(i, &v)| Sym::Val { ctx: (i % 2) as u32, value: v }).collect();
        // plain distances, multiplier 0
        for dist_value in [0u32, 1, 2, 7, 8, 9, 50] {
            for extra_len in [0u32, 1, 5, 40] {
                let mut s = lit.clone();
                s.push(Sym::Copy { ctx: 1, len: lz.min_length + extra_len, dist_value });
                s.push(Sym::Val { ctx: 0, value: 3 });
                s.push(Sym::Copy { ctx: 0, len: lz.min_length, dist_value: 0 });
                mk(format!("lz77-v{li}-dist{dist_value}-len+{extra_len}"), lz, s, 0, 2, out);
            }
        }
        // copy as the very first symbol (nothing decoded yet) and right after one symbol
        // (a copy as the very first symbol is outside the alphabet: whether it denotes zeros or is invalid is an
        // oracle-uncertain zone, see DESIGN.md section 8)
        mk(format!("lz77-v{li}-second"), lz, vec![Sym::Val { ctx: 1, value: 4 }, Sym::Copy { ctx: 0, len: lz.min_length + 2, dist_value: 3 }], 0, 2, out);
        if quick && li >= 2 {
            continue;
        }
        // all 120 special distances x multipliers
        let mut rng = Lcg(seed ^ li as u64);
        let pre: Vec<Sym> = (0..2500).map(|i| Sym::Val { ctx: (i % 2) as u32, value: rng.below(7) }).collect();
        for mult in [1u32, 2, 5, 8, 300] {
            for dv in 0..123u32 {
                if quick && (dv + mult) % 4 != 0 && dv < 119 {
                    continue;
                }
                let mut s = pre.clone();
                s.push(Sym::Copy { ctx: 0, len: lz.min_length + 3, dist_value: dv });
                s.push(Sym::Val { ctx: 1, value: 1 });
                mk(format!("lz77-v{li}-special{dv}-mult{mult}"), lz, s, mult, 2, out);
            }
        }
    }
    // window boundary: copies at distance 2^20-1, 2^20, 2^20+1 after more than 2^20 symbols (mult 0)
    let lz = &lz_variants[0];
    let n = (1usize << 20) + 7;
    let mut rng = Lcg(seed ^ 0xabcdef);
    let pre: Vec<Sym> = (0..n).map(|_| Sym::Val { ctx: 0, value: rng.below(5) }).collect();
    for dv in [(1u32 << 20) - 2, (1 << 20) - 1, 1 << 20, (1 << 20) + 6, 5_000_000] {
        let mut s = pre.clone();
        s.push(Sym::Copy { ctx: 0, len: 12, dist_value: dv });
        s.push(Sym::Val { ctx: 0, value: 2 });
        s.push(Sym::Copy { ctx: 0, len: 3, dist_value: 0 });
        mk(format!("lz77-window-dist{dv}"), lz, s, 0, 1, out);
        if quick {
            break;
        }
    }
    if quick {
        let mut s = pre.clone();
        s.push(Sym::Copy { ctx: 0, len: 12, dist_value: (1 << 20) - 1 });
        s.push(Sym::Val { ctx: 0, value: 2 });
        mk("lz77-window-dist-2^20".into(), lz, s, 0, 1, out);
    }
}

// ------------------------------------------------------------------------------------------
// permutations

pub struct PermCase {
    pub name: String,
    pub perm: Vec<u32>,
    pub skip: usize,
    pub use_prefix: bool,
}

fn run_perm(c: &PermCase) -> Result<(), (String, String)> {
    let mut w = BitWriter::new();
    let opts = CodeOpts { use_prefix: c.use_prefix, ..Default::default() };
    jxlw::headers::write_permutation(&mut w, &c.perm, c.skip, &opts);
    let bits = w.bit_len();
    let mut bytes = w.finish();
    bytes.extend_from_slice(&[0; 8]);
    let r = guard(|| -> Result<(), (String, String)> {
        let mut bs = Bitstream::new(&bytes);
        let mut dec = jxl_coding::Decoder::parse(&mut bs, 8).map_err(|e| ("perm-parse".to_string(), format!("{e}")))?;
        dec.begin(&mut bs).map_err(|e| ("perm-begin".to_string(), format!("{e}")))?;
        let p = jxl_coding::read_permutation(&mut bs, &mut dec, c.perm.len() as u32, c.skip as u32).map_err(|e| ("perm-read".to_string(), format!("{e}")))?;
        dec.finalize().map_err(|e| ("perm-final".to_string(), format!("{e}")))?;
        let got: Vec<u32> = p.iter().map(|&x| x as u32).collect();
        if got != c.perm {
            return Err(("perm-mismatch".into(), format!("decoded {:?} encoded {:?}", got, c.perm)));
        }
        if bs.num_read_bits() != bits {
            return Err(("perm-bits".into(), format!("consumed {} bits, written {}", bs.num_read_bits(), bits)));
        }
        Ok(())
    });
    match r {
        Ok(x) => x,
        Err(p) => Err((format!("panic@{}", panic_site(&p)), format!("panic: {p}"))),
    }
}

fn all_perms(n: usize) -> Vec<Vec<u32>> {
    let mut out = vec![];
    fn rec(n: usize, cur: &mut Vec<u32>, out: &mut Vec<Vec<u32>>) {
        if cur.len() == n {
            out.push(cur.clone());
            return;
        }
        for v in 0..n as u32 {
            if !cur.contains(&v) {
                cur.push(v);
                rec(n, cur, out);
                cur.pop();
            }
        }
    }
    rec(n, &mut vec![], &mut out);
    out
}

pub fn family_perms(seed: u64) -> Vec<PermCase> {
    let mut out = vec![];
    for n in 1..=5usize {
        for p in all_perms(n) {
            for skip in 0..=2usize.min(n) {
                if (0..skip).any(|i| p[i] != i as u32) {
                    continue;
                }
                for use_prefix in [true, false] {
                    out.push(PermCase { name: format!("perm{:?}-skip{skip}", p), perm: p.clone(), skip, use_prefix });
                }
            }
        }
    }
    for n in [8usize, 64, 300] {
        let id: Vec<u32> = (0..n as u32).collect();
        let rev: Vec<u32> = id.iter().rev().cloned().collect();
        let rot: Vec<u32> = (0..n as u32).map(|i| (i + 1) % n as u32).collect();
        let mut rng = Lcg(seed ^ n as u64);
        let mut sh = id.clone();
        for i in (1..n).rev() {
            let j = rng.below(i as u32 + 1) as usize;
            sh.swap(i, j);
        }
        let mut swap_last = id.clone();
        swap_last.swap(n - 1, n - 2);
        for (k, p) in [id, rev, rot, sh, swap_last].into_iter().enumerate() {
            for use_prefix in [true, false] {
                out.push(PermCase { name: format!("perm-n{n}-kind{k}"), perm: p.clone(), skip: 0, use_prefix });
            }
        }
    }
    out
}

pub fn main(args: &crate::Args) {
    crate::util::install_panic_hook();
    let mut rep = Report::new("C04", &args.tier, "exploration");
    let quick = rep.is_quick();
    let seed = rep.seed;
    if let Some(p) = &args.replay {
        replay(p, quick, seed);
    }
    let (cases, perms) = all_cases(quick, seed);
    let results = par_map(&cases, n_threads(), |_, c| run_case(c));
    let mut fam_counts: std::collections::BTreeMap<String, u64> = Default::default();
    for (c, r) in cases.iter().zip(&results) {
        rep.eval();
        let fam = c.name.split('-').take(2).collect::<Vec<_>>().join("-");
        *fam_counts.entry(fam.clone()).or_insert(0) += 1;
        rep.outcome(if r.is_ok() { "ok" } else { "bad" });
        if c.expected.len() >= 2 {
            rep.nontrivial(fnv(c.name.as_bytes()));
        }
        if let Err((k, w)) = r {
            let (bytes, bits) = encode(c);
            rep.violation(
                &format!("{k}:{fam}"),
                &format!("{w} [{}]", c.name),
                &json!({"case": c.name, "stream_hex": hex(&bytes[..bytes.len().min(4000)]), "bits": bits, "num_ctx": c.spec.num_ctx, "mult": c.mult,
                        "expected_head": c.expected.iter().take(64).collect::<Vec<_>>(), "expected_len": c.expected.len()}),
            );
        }
    }
    let presults = par_map(&perms, n_threads(), |_, c| run_perm(c));
    for (c, r) in perms.iter().zip(&presults) {
        rep.eval();
        rep.nontrivial(fnv(format!("{}{}", c.name, c.use_prefix).as_bytes()));
        rep.outcome(if r.is_ok() { "ok" } else { "bad" });
        if let Err((k, w)) = r {
            rep.violation(&format!("{k}"), &format!("{w} [{}]", c.name), &json!({"case": c.name, "perm": c.perm, "skip": c.skip, "use_prefix": c.use_prefix}));
        }
    }
    fam_counts.insert("permutations".into(), perms.len() as u64);
    rep.rule = "families enumerated exhaustively in small scope: (1) every Kraft-complete prefix code length vector over alphabets <= 5 (quick) / 6 with every legal hskip and RLE on/off x all symbol sequences of length <= 2-3; (2) every simple-form prefix header (1-4 symbols, every legal order, tree_select) over alphabets 2..32768; (3) deep chains 1..15, flat alphabets up to 2^15, zero/non-zero run lengths incl. chained repeats; (4) ANS single/binary/flat for every alphabet size and log_alphabet_size 5..8, general histograms = every grid placement of 4096 over 2-4 symbols x shift x 4 symbol layouts, RLE segmentations, with all sequences <= 2-3 plus a distribution-driven sequence of 300-600 symbols; (5) every legal hybrid-integer config for log 15 and 5..8 x boundary values; (6) every hole-free cluster map for <= 5/6 contexts x simple/coded/MTF forms; (7) LZ77 parameter forms x distances x 123 distance symbols x 5 multipliers, window boundary 2^20 after > 2^20 symbols; (8) every permutation of size <= 5 with skip 0..2 and families of size 8/64/300. Oracle: decoded values, final-state check, and bit position equal the writer's. Non-trivial = more than one symbol; distinct by case name.".into();
    for i in [0, cases.len() / 3, cases.len() / 2, cases.len() - 1] {
        let c = &cases[i];
        let (b, bits) = encode(c);
        rep.sample(json!({"case": c.name, "bits": bits, "stream_hex": hex(&b[..b.len().min(48)]), "symbols": c.expected.len()}));
    }
    rep.extra.insert("cases_per_family".into(), json!(fam_counts));
    rep.exhaustive = true;
    rep.assumptions = vec![
        "jxlw::entropy (writer, own alias-table construction, own Huffman/RLE header writer) is the specification oracle".into(),
        "sequences longer than 3 are represented by one pseudo-random distribution-driven sequence per code (seeded by VERIF_SEED)".into(),
    ];
    rep.finish();
}

fn all_cases(quick: bool, seed: u64) -> (Vec<Case>, Vec<PermCase>) {
    let mut cases = Vec::new();
    family_prefix_small(&mut cases, quick);
    family_prefix_simple(&mut cases);
    family_prefix_deep(&mut cases, seed);
    family_ans(&mut cases, quick, seed);
    family_hybrid(&mut cases);
    family_single_token(&mut cases);
    family_clusters(&mut cases, quick);
    family_lz77(&mut cases, quick, seed);
    (cases, family_perms(seed))
}

fn replay(path: &str, quick: bool, seed: u64) -> ! {
    let s = std::fs::read_to_string(path).unwrap_or_else(|e| crate::explore::machinery_failure(&format!("{path}: {e}")));
    let v: serde_json::Value = serde_json::from_str(&s).unwrap();
    let name = v["case"].as_str().unwrap_or("");
    let (cases, perms) = all_cases(quick, seed);
    let cases_t = if cases.iter().any(|c| c.name == name) { cases } else { all_cases(!quick, seed).0 };
    if let Some(c) = cases_t.iter().find(|c| c.name == name) {
        let r1 = run_case(c);
        let r2 = run_case(c);
        if r1 != r2 {
            crate::explore::machinery_failure("replay not deterministic");
        }
        match r1 {
            Ok(()) => {
                println!("replay: property holds on this case");
                std::process::exit(0)
            }
            Err((k, w)) => {
                println!("VIOLATION property=C04 replay={path}\n  key={k} :: {w}");
                std::process::exit(1)
            }
        }
    }
    if let Some(c) = perms.iter().find(|c| c.name == name && Some(c.use_prefix) == v["use_prefix"].as_bool()) {
        match run_perm(c) {
            Ok(()) => {
                println!("replay: property holds on this case");
                std::process::exit(0)
            }
            Err((k, w)) => {
                println!("VIOLATION property=C04 replay={path}\n  key={k} :: {w}");
                std::process::exit(1)
            }
        }
    }
    crate::explore::machinery_failure("replay: case not found");
}
