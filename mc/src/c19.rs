//! C19 — colour descriptions round-trip and transfer curves invert: the full product of enumerated
//! colour encodings over lattices of real chromaticities and gammas (synthesise ICC -> parse back), all
//! f32 samples in [0,1] (thorough) through every transfer function and back, every slice length 1..67
//! (vector tails), and identity conversions.

use crate::explore::{n_threads, par_map};
use crate::report::{fnv, Report};
use crate::util::{guard, panic_site};
use jxl_color::{ColorEncodingWithProfile, ColorTransform, ColourEncoding, ColourSpace, Customxy, EnumColourEncoding, NullCms, Primaries, RenderingIntent, TransferFunction, WhitePoint};
use serde_json::json;

fn xy(x: f64, y: f64) -> Customxy {
    Customxy { x: (x * 1e6).round() as i32, y: (y * 1e6).round() as i32 }
}

fn whites() -> Vec<(String, WhitePoint)> {
    let mut v = vec![("D65".to_string(), WhitePoint::D65), ("E".into(), WhitePoint::E), ("DCI".into(), WhitePoint::Dci)];
    // (the last two are D65 and E moved by 5e-4 in one coordinate: custom, not the named point)
    for (x, y) in [(0.3457, 0.3585), (0.3101, 0.3162), (0.28, 0.29), (0.36, 0.37), (0.44757, 0.40745), (0.3132, 0.3290), (0.33333, 0.33383)] {
        v.push((format!("custom({x},{y})"), WhitePoint::Custom(xy(x, y))));
    }
    v
}

fn primaries() -> Vec<(String, Primaries)> {
    let mut v = vec![("sRGB".to_string(), Primaries::Srgb), ("2100".into(), Primaries::Bt2100), ("P3".into(), Primaries::P3)];
    let sets: [[(f64, f64); 3]; 4] = [
        [(0.64, 0.33), (0.21, 0.71), (0.15, 0.06)],         // Adobe RGB (1998)
        [(0.7347, 0.2653), (0.1596, 0.8404), (0.0366, 0.0001)], // ProPhoto
        [(0.63, 0.34), (0.31, 0.595), (0.155, 0.07)],       // SMPTE-C
        [(0.67, 0.33), (0.21, 0.71), (0.14, 0.08)],         // NTSC 1953
    ];
    for (i, s) in sets.iter().enumerate() {
        v.push((format!("custom{i}"), Primaries::Custom { red: xy(s[0].0, s[0].1), green: xy(s[1].0, s[1].1), blue: xy(s[2].0, s[2].1) }));
    }
    // custom sets that agree with a named set in two primaries and differ in the third (red / green / blue in turn):
    // a recogniser that does not compare all three would call them by the name
    let named: [(&str, [(f64, f64); 3]); 3] = [
        ("srgb", [(0.639998686, 0.330010138), (0.300003784, 0.600003357), (0.150002046, 0.059997204)]),
        ("2100", [(0.708, 0.292), (0.170, 0.797), (0.131, 0.046)]),
        ("p3", [(0.680, 0.320), (0.265, 0.690), (0.150, 0.060)]),
    ];
    let other: [(f64, f64); 3] = [(0.61, 0.35), (0.24, 0.66), (0.14, 0.10)];
    for (n, set) in named.iter() {
        for k in 0..3 {
            let mut s = *set;
            s[k] = other[k];
            v.push((format!("{n}-but-{}", ["red", "green", "blue"][k]), Primaries::Custom { red: xy(s[0].0, s[0].1), green: xy(s[1].0, s[1].1), blue: xy(s[2].0, s[2].1) }));
        }
    }
    v
}

fn tfs() -> Vec<(String, TransferFunction)> {
    let mut v = vec![
        ("709".to_string(), TransferFunction::Bt709),
        ("linear".into(), TransferFunction::Linear),
        ("srgb".into(), TransferFunction::Srgb),
        ("pq".into(), TransferFunction::Pq),
        ("dci".into(), TransferFunction::Dci),
        ("hlg".into(), TransferFunction::Hlg),
    ];
    // gamma fields above 10^7 (exponent > 1) do not describe a real colour space and are left to C01
    for g in [4545455u32, 3333333, 5555556, 2500000, 1000000, 9999999, 6250000, 10_000_000] {
        v.push((format!("gamma{g}"), TransferFunction::Gamma { g, inverted: true }));
    }
    v
}

fn close_xy(a: &Customxy, b: &Customxy) -> bool {
    (a.x as f64 - b.x as f64).abs() <= 100.0 && (a.y as f64 - b.y as f64).abs() <= 100.0
}

fn check_encoding(e: &EnumColourEncoding) -> Result<(), (String, String)> {
    let r = guard(|| -> Result<(), (String, String)> {
        let icc = jxl_color::icc::colour_encoding_to_icc(e);
        let back = ColorEncodingWithProfile::with_icc(&icc).map_err(|err| ("synth-icc-unparseable".to_string(), format!("{err}")))?;
        let ColourEncoding::Enum(b) = back.encoding() else {
            return Err(("synth-icc-not-recognised".into(), "the synthesised profile does not parse back to an enumerated encoding".into()));
        };
        if b.colour_space != e.colour_space {
            return Err(("colour-space".into(), format!("{:?} -> {:?}", e.colour_space, b.colour_space)));
        }
        if b.rendering_intent != e.rendering_intent {
            return Err(("rendering-intent".into(), format!("{:?} -> {:?}", e.rendering_intent, b.rendering_intent)));
        }
        match (&e.white_point, &b.white_point) {
            (WhitePoint::Custom(a), WhitePoint::Custom(c)) => {
                if !close_xy(a, c) {
                    return Err(("white-point".into(), format!("custom white {:?} -> {:?}", a, c)));
                }
            }
            (a, c) if std::mem::discriminant(a) == std::mem::discriminant(c) => {}
            (a, c) => return Err(("white-point".into(), format!("{:?} -> {:?}", a, c))),
        }
        if e.colour_space == ColourSpace::Rgb {
            match (&e.primaries, &b.primaries) {
                (Primaries::Custom { red, green, blue }, Primaries::Custom { red: r2, green: g2, blue: b2 }) => {
                    if !(close_xy(red, r2) && close_xy(green, g2) && close_xy(blue, b2)) {
                        return Err(("primaries".into(), format!("custom primaries {:?} -> {:?}", e.primaries, b.primaries)));
                    }
                }
                (a, c) if std::mem::discriminant(a) == std::mem::discriminant(c) => {}
                (a, c) => return Err(("primaries".into(), format!("{:?} -> {:?}", a, c))),
            }
        }
        match (&e.tf, &b.tf) {
            (TransferFunction::Gamma { g, inverted }, TransferFunction::Gamma { g: g2, inverted: i2 }) => {
                let a = if *inverted { *g as f64 / 1e7 } else { 1e7 / *g as f64 };
                let c = if *i2 { *g2 as f64 / 1e7 } else { 1e7 / *g2 as f64 };
                if ((a - c) / a).abs() > 1e-4 {
                    return Err(("gamma".into(), format!("gamma {a} -> {c}")));
                }
            }
            (a, c) if a == c => {}
            (a, c) => {
                // a pure power law may come back under another name of the same curve (Linear = gamma 1,
                // DCI = gamma 2.6): equivalent when the exponents agree within 1e-4 relative
                let exponent = |t: &TransferFunction| -> Option<f64> {
                    match t {
                        TransferFunction::Linear => Some(1.0),
                        TransferFunction::Dci => Some(1.0 / 2.6),
                        TransferFunction::Gamma { g, inverted: true } => Some(*g as f64 / 1e7),
                        TransferFunction::Gamma { g, inverted: false } => Some(1e7 / *g as f64),
                        _ => None,
                    }
                };
                match (exponent(a), exponent(c)) {
                    (Some(x), Some(y)) if ((x - y) / x).abs() <= 1e-4 => {}
                    _ => return Err(("transfer-function".into(), format!("{:?} -> {:?}", a, c))),
                }
            }
        }
        Ok(())
    });
    match r {
        Ok(x) => x,
        Err(p) => Err((format!("panic@{}", panic_site(&p)), format!("panic: {p}"))),
    }
}

fn default_header() -> jxl_image::ImageHeader {
    use jxl_oxide_common::Bundle;
    let mut w = jxlw::bits::BitWriter::new();
    let mut h = jxlw::headers::ImageHeader::simple(8, 8, false, 8);
    h.size.div8 = true;
    h.all_default = true;
    h.write(&mut w, &jxlw::headers::Sel::default());
    let b = w.finish();
    let mut bs = jxl_bitstream::Bitstream::new(&b);
    jxl_image::ImageHeader::parse(&mut bs, ()).expect("default header")
}

fn enc(tf: TransferFunction) -> ColorEncodingWithProfile {
    ColorEncodingWithProfile::new(EnumColourEncoding { colour_space: ColourSpace::Rgb, white_point: WhitePoint::D65, primaries: Primaries::Srgb, tf, rendering_intent: RenderingIntent::Relative })
}

struct TfResult {
    samples: u64,
    max_err: f64,
    worst: f64,
    viol: Option<(String, String)>,
}

/// Round trip linear -> tf -> linear over the given f32 bit patterns, in slices of `chunk` samples.
thread_local! {
    static MEASURE: std::cell::RefCell<std::collections::BTreeMap<(String, i32), (f64, f64)>> = Default::default();
}

pub fn dump_measure() {
    MEASURE.with(|m| {
        for ((n, d), (e, r)) in m.borrow().iter() {
            println!("MEASURE {n} decade 1e{d}: max abs err {e:.3e}, max rel err {r:.3e}");
        }
    });
}

fn tf_roundtrip(name: &str, tf: TransferFunction, lo_bits: u32, hi_bits: u32, step: u32, chunk: usize, tol: (f64, f64), mode: u32) -> TfResult {
    let (colour, negative) = (mode & 1 != 0, mode & 2 != 0);
    let hdr = default_header();
    let m = &hdr.metadata;
    let fwd = ColorTransform::new(&enc(TransferFunction::Linear), &enc(tf), &m.opsin_inverse_matrix, &m.tone_mapping, &NullCms);
    let bwd = ColorTransform::new(&enc(tf), &enc(TransferFunction::Linear), &m.opsin_inverse_matrix, &m.tone_mapping, &NullCms);
    let (Ok(fwd), Ok(bwd)) = (fwd, bwd) else {
        return TfResult { samples: 0, max_err: 0.0, worst: 0.0, viol: Some((format!("transform-unavailable:{name}"), "cannot build the transform".into())) };
    };
    let mut res = TfResult { samples: 0, max_err: 0.0, worst: 0.0, viol: None };
    let measuring = std::env::var("VERIF_C19_MEASURE").is_ok();
    let mut bits = lo_bits;
    let mut prev_enc: Option<(f32, f32)> = None;
    while bits <= hi_bits {
        let mut xs: Vec<f32> = Vec::with_capacity(chunk);
        while xs.len() < chunk && bits <= hi_bits {
            xs.push(if negative { -f32::from_bits(bits) } else { f32::from_bits(bits) });
            bits = bits.saturating_add(step);
            if bits == u32::MAX {
                break;
            }
        }
        let n = xs.len();
        // grey axis (same sample in all three channels), or a saturated colour (g and b derived from the sample): curves
        // with a luminance-dependent stage (HLG's OOTF) mix the channels, which a grey ramp cannot see
        let (mut a, mut b, mut c) = if colour { (xs.clone(), xs.iter().map(|&x| (0.25 + 0.6 * x).min(1.0)).collect::<Vec<f32>>(), xs.iter().map(|&x| 0.3 * x).collect::<Vec<f32>>()) } else { (xs.clone(), xs.clone(), xs.clone()) };
        let (g_in, b_in) = (b.clone(), c.clone());
        let r = guard(|| {
            fwd.run(&mut [&mut a[..], &mut b[..], &mut c[..]]).map_err(|e| e.to_string())?;
            let encd = a.clone();
            bwd.run(&mut [&mut a[..], &mut b[..], &mut c[..]]).map_err(|e| e.to_string())?;
            Ok::<_, String>(encd)
        });
        let encd = match r {
            Ok(Ok(e)) => e,
            Ok(Err(e)) => {
                res.viol = Some((format!("transform-error:{name}"), e));
                return res;
            }
            Err(p) => {
                res.viol = Some((format!("panic@{}", panic_site(&p)), p));
                return res;
            }
        };
        for i in 0..n {
            res.samples += 1;
            let x = xs[i] as f64;
            let err = (a[i] as f64 - x).abs();
            if measuring && x > 0.0 {
                let d = (x.log10().floor() as i32).clamp(-10, 0);
                MEASURE.with(|m| {
                    let mut m = m.borrow_mut();
                    let e = m.entry((name.to_string(), d)).or_insert((0f64, 0f64));
                    e.0 = e.0.max(err);
                    e.1 = e.1.max(err / x);
                });
            }
            if err > res.max_err {
                res.max_err = err;
                res.worst = x;
            }
            let (gx, bx) = (g_in[i] as f64, b_in[i] as f64);
            let (err, x_ref) = if colour {
                // all three channels must come back; the tolerance scales with the largest of them
                (err.max((b[i] as f64 - gx).abs()).max((c[i] as f64 - bx).abs()), x.abs().max(gx).max(bx))
            } else {
                (err, x.abs())
            };
            let allowed = tol.0 * x_ref + tol.1;
            if !(err <= allowed) && res.viol.is_none() {
                res.viol = Some((format!("roundtrip:{name}"), format!("{name}: sample {x:e} (slice index {i} of {n}) encodes to {} and decodes to {} (error {err:e} > {allowed:e} = {:e} x + {:e})", encd[i], a[i], tol.0, tol.1)));
            }
            // monotone (non-decreasing) encode on increasing inputs
            if let Some((px, pe)) = prev_enc {
                if !negative && xs[i] > px && encd[i] < pe && (pe - encd[i]) as f64 > 1e-6 && res.viol.is_none() {
                    res.viol = Some((format!("not-monotone:{name}"), format!("{name}: encode({px:e}) = {pe:e} but encode({:e}) = {:e}", xs[i], encd[i])));
                }
            }
            prev_enc = Some((xs[i], encd[i]));
        }
        if res.viol.is_some() {
            return res;
        }
    }
    res
}

pub fn main(args: &crate::Args) {
    crate::util::install_panic_hook();
    let mut rep = Report::new("C19", &args.tier, "exploration");
    let quick = rep.is_quick();
    if args.replay.is_some() {
        println!("C19 replay: deterministic check; re-running");
    }
    // (a) encodings: full product
    let mut encs: Vec<(String, EnumColourEncoding)> = vec![];
    for cs in [ColourSpace::Rgb, ColourSpace::Grey] {
        for (wn, w) in whites() {
            for (pn, p) in primaries() {
                if cs == ColourSpace::Grey && pn != "sRGB" {
                    continue;
                }
                for (tn, t) in tfs() {
                    for ri in [RenderingIntent::Perceptual, RenderingIntent::Relative, RenderingIntent::Saturation, RenderingIntent::Absolute] {
                        encs.push((format!("{:?}/{wn}/{pn}/{tn}/{:?}", cs, ri), EnumColourEncoding { colour_space: cs, white_point: w.clone(), primaries: p.clone(), tf: t, rendering_intent: ri }));
                    }
                }
            }
        }
    }
    let er = par_map(&encs, n_threads(), |_, (_, e)| check_encoding(e));
    for ((n, _), r) in encs.iter().zip(&er) {
        rep.eval();
        match r {
            Ok(()) => {
                rep.outcome("encoding-roundtrip-ok");
                rep.nontrivial(fnv(n.as_bytes()));
            }
            Err((k, w)) => {
                rep.outcome("encoding-bad");
                let cls = n.split('/').collect::<Vec<_>>();
                rep.violation(&format!("{k}:{}:{}", cls[0], if k.contains("white") { cls[1] } else if k.contains("prim") { cls[2] } else { cls[3] }), &format!("{w} [{n}]"), &json!({"encoding": n}));
            }
        }
    }
    // (b) transfer functions
    let one = 1.0f32.to_bits();
    let tf_list: Vec<(&str, TransferFunction, (f64, f64))> = vec![
        // tolerance = rel * x + floor.  Measured per decade of x on the unchanged tree (VERIF_C19_MEASURE=1): the error of
        // every curve but PQ is relative (sRGB <= 4.2e-4 x above its linear toe - its kernels are fast approximations -,
        // 1e-7 x in the toe; BT.709 / DCI / gamma <= 8e-6 x, with values below 1e-7 flushed to 0; HLG <= 1.2e-5 x),
        // PQ's is absolute (<= 2.5e-5 everywhere).  Margins >= 4x.  A purely absolute tolerance would let an error of a
        // multiple of the sample through for dark samples.
        ("srgb", TransferFunction::Srgb, (2e-3, 1e-9)),
        ("bt709", TransferFunction::Bt709, (4e-5, 1e-9)),
        ("dci", TransferFunction::Dci, (4e-5, 4e-7)),
        ("gamma2.2", TransferFunction::Gamma { g: 4545455, inverted: true }, (4e-5, 4e-7)),
        ("pq", TransferFunction::Pq, (2e-5, 1e-4)),
        ("hlg", TransferFunction::Hlg, (6e-5, 1e-9)),
    ];
    // jobs: (tf index, lo, hi, step, chunk)
    let mut jobs: Vec<(usize, u32, u32, u32, usize)> = vec![];
    let lo = 0x3000_0000u32; // ~4.7e-10: below this every curve is in its linear toe
    let step = if quick { 4096 } else { 1 };
    let nseg = 64u32;
    for ti in 0..tf_list.len() {
        for s in 0..nseg {
            let a = lo + (one - lo) / nseg * s;
            let b = if s + 1 == nseg { one } else { lo + (one - lo) / nseg * (s + 1) - 1 };
            jobs.push((ti, a, b, step, 65536));
        }
        // slice lengths 1..67 on a ramp (vector tails), plus values slightly outside the nominal range
        for len in 1..=67usize {
            jobs.push((ti, 0x3c00_0000, 0x3f80_0000, (0x0380_0000 / 200) as u32, len));
        }
        jobs.push((ti, 0, lo, 1 << 18, 4096)); // tiny values incl. 0 and subnormals
        // saturated colours on a ramp over [1e-4, 1] (every 64th f32 in thorough, every 4096th in quick), three slice lengths
        for len in [4096usize, 13, 1] {
            jobs.push((ti, 0x38d1_b717, one, if quick { 4096 } else { 64 }, len | (1 << 20)));
        }
        // negative samples (the curves are extended as odd functions): the same ramp negated, in full vector blocks and in
        // tails
        // (sRGB, BT.709 and PQ only: the gamma curves clamp negative input to 0 by design, and HLG's OOTF is not defined
        // for negative luminance)
        if ["srgb", "bt709", "pq"].contains(&tf_list[ti].0) {
            for len in [4096usize, 8, 13, 3] {
                jobs.push((ti, 0x38d1_b717, one, if quick { 4096 } else { 64 }, len | (1 << 21)));
            }
        }
    }
    if std::env::var("VERIF_C19_MEASURE").is_ok() {
        // single-threaded measuring run (thread-local statistics)
        for &(ti, a, b, st, chunk) in &jobs {
            let _ = tf_roundtrip(tf_list[ti].0, tf_list[ti].1, a, b, st, chunk.min(1 << 20), (1.0, 1.0), 0);
        }
        dump_measure();
        std::process::exit(0);
    }
    // chunk values above 2^20 mark the colour jobs
    let tr = par_map(&jobs, n_threads(), |_, &(ti, a, b, st, chunk)| tf_roundtrip(tf_list[ti].0, tf_list[ti].1, a, b, st, chunk & 0xfffff, tf_list[ti].2, (chunk >> 20) as u32));
    let mut samples = 0u64;
    let mut max_err = vec![0f64; tf_list.len()];
    let mut worst = vec![0f64; tf_list.len()];
    for (&(ti, a, _, _, chunk), r) in jobs.iter().zip(&tr) {
        rep.eval();
        samples += r.samples;
        if r.max_err > max_err[ti] {
            max_err[ti] = r.max_err;
            worst[ti] = r.worst;
        }
        rep.nontrivial(fnv(format!("{ti}-{a}-{chunk}").as_bytes()));
        match &r.viol {
            None => rep.outcome("tf-ok"),
            Some((k, w)) => {
                rep.outcome("tf-bad");
                rep.violation(k, w, &json!({"tf": tf_list[ti].0, "from_bits": a, "slice_len": chunk}));
            }
        }
    }
    // (c) identity conversion: same encoding in and out is a no-op and leaves samples bit-identical
    let hdr = default_header();
    for (tn, t) in tfs() {
        for (pn, p, cs) in primaries().into_iter().map(|(n, p)| (n, p, ColourSpace::Rgb)).chain(primaries().into_iter().take(1).map(|(_, p)| ("grey".to_string(), p, ColourSpace::Grey))) {
            rep.eval();
            let e = ColorEncodingWithProfile::new(EnumColourEncoding { colour_space: cs, white_point: WhitePoint::D65, primaries: p.clone(), tf: t, rendering_intent: RenderingIntent::Relative });
            let r = guard(|| -> Result<(), String> {
                let tr = ColorTransform::new(&e, &e, &hdr.metadata.opsin_inverse_matrix, &hdr.metadata.tone_mapping, &NullCms).map_err(|e| e.to_string())?;
                if !tr.is_noop() {
                    return Err("the transform is not recognised as a no-op".into());
                }
                let src: Vec<f32> = (0..97).map(|i| i as f32 / 96.0 * 1.2 - 0.1).collect();
                let (mut a, mut b, mut c) = (src.clone(), src.iter().rev().cloned().collect::<Vec<_>>(), src.clone());
                let b0 = b.clone();
                tr.run(&mut [&mut a[..], &mut b[..], &mut c[..]]).map_err(|e| e.to_string())?;
                if a.iter().zip(&src).any(|(x, y)| x.to_bits() != y.to_bits()) || b.iter().zip(&b0).any(|(x, y)| x.to_bits() != y.to_bits()) {
                    return Err("samples changed".into());
                }
                Ok(())
            });
            match r {
                Ok(Ok(())) => rep.outcome("identity-ok"),
                Ok(Err(w)) => rep.violation(&format!("identity-changes-samples:{tn}"), &format!("converting {pn}/{tn} to itself: {w}"), &json!({"tf": tn, "primaries": pn})),
                Err(p) => rep.violation(&format!("panic@{}", panic_site(&p)), &p, &json!({"tf": tn, "primaries": pn})),
            }
        }
    }
    rep.rule = format!("(a) FULL PRODUCT of enumerated encodings: {{RGB, Grey}} x 10 white points (D65, E, DCI, 5 custom, D65 and E moved by 5e-4) x 16 primaries (sRGB, 2100, P3, 4 custom real gamuts, 9 sets equal to a named set in two primaries only) x 14 transfer functions (709, linear, sRGB, PQ, DCI, HLG, 8 gammas up to 1.0) x 4 intents = {} encodings: synthesise ICC, parse back, compare as the statement prescribes (1e-4 on xy, 1e-4 relative on gamma); (b) for sRGB, BT.709, DCI, gamma 2.2, PQ, HLG: linear -> curve -> linear through ColorTransform on {} f32 bit pattern in [4.7e-10, 1] plus a lattice below, round-trip error within per-curve tolerances rel*x + floor fixed from the per-decade error of the unchanged tree (sRGB 2e-3 x, BT.709 / DCI / gamma 4e-5 x, HLG 6e-5 x, PQ 2e-5 x + 1e-4) and encode monotone, and the same on every slice length 1..67 and on ramps of saturated colours (r, 0.25 + 0.6 r, 0.3 r) and, for sRGB / BT.709 / PQ, on negated ramps (odd extension of the curves) in slice lengths 4096, 8, 13, 3; (c) identity conversion for every tf x primaries leaves samples bit-identical.", encs.len(), if quick { "every 4096th" } else { "EVERY" });
    rep.sample(json!({"encoding": encs[encs.len() / 2].0}));
    rep.sample(json!({"tf": "pq", "range_bits": [lo, one], "step": step}));
    rep.extra.insert("tf_samples".into(), json!(samples));
    rep.extra.insert("tf_max_roundtrip_error".into(), json!(tf_list.iter().zip(&max_err).map(|(t, e)| (t.0.to_string(), *e)).collect::<std::collections::BTreeMap<_, _>>()));
    rep.extra.insert("tf_worst_sample".into(), json!(tf_list.iter().zip(&worst).map(|(t, e)| (t.0.to_string(), *e)).collect::<std::collections::BTreeMap<_, _>>()));
    rep.exhaustive = !quick;
    rep.assumptions = vec![
        "transfer functions are reached through the public ColorTransform (tf module is private); equal samples in the three channels make the primaries matrix the identity".into(),
        "tolerances fixed from the measured error of the unchanged tree with margin (recorded as tf_max_roundtrip_error)".into(),
        "encodings outside 'a real colour space' (Unknown, XYB, degenerate xy, gamma 0) are C01's subject".into(),
    ];
    rep.finish();
}
