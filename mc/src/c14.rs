//! C14 — headers reported as encoded: image header, frame header and TOC written by `jxlw` with every
//! field assignment within a deviation bound, parsed through the public `Bundle::parse`, compared
//! field by field, and the bit position checked.

use crate::explore::{collect_tapes, n_threads, par_map, Tape};
use crate::report::{fnv, hex, Report};
use crate::util::{guard, panic_site};
use jxl_bitstream::Bitstream;
use jxl_oxide_common::Bundle;
use jxlw::bits::{f16_bits_to_f32, BitWriter};
use jxlw::entropy::CodeOpts;
use jxlw::headers::*;
use serde_json::json;

// ---------------------------------------------------------------------------------------------
// projection of the writer's struct

fn f16s(bits: &[u16]) -> String {
    bits.iter().map(|&b| format!("{:?}", f16_bits_to_f32(b))).collect::<Vec<_>>().join(",")
}

fn depth_str(b: &BitDepth) -> String {
    if b.float {
        format!("float{}e{}", b.bits, b.exp_bits)
    } else {
        format!("int{}", b.bits)
    }
}

fn ec_type_str_w(e: &ExtraChannelInfo) -> String {
    match e.ty {
        EC_ALPHA => format!("Alpha(assoc={})", e.alpha_associated),
        EC_DEPTH => "Depth".into(),
        EC_SPOT => format!("Spot({})", f16s(&e.spot)),
        EC_SELECTION => "SelectionMask".into(),
        EC_BLACK => "Black".into(),
        EC_CFA => format!("Cfa({})", e.cfa_channel),
        EC_THERMAL => "Thermal".into(),
        EC_NONOPTIONAL => "NonOptional".into(),
        EC_OPTIONAL => "Optional".into(),
        _ => "?".into(),
    }
}

fn colour_str_w(c: &ColourEncoding) -> String {
    if c.all_default {
        return "enum cs=0 wp=1 pr=1 tf=13 ri=1".into();
    }
    if c.want_icc {
        return format!("icc cs={}", c.colour_space);
    }
    let wp = if c.colour_space == CS_XYB {
        "1".to_string()
    } else if c.white_point == WP_CUSTOM {
        format!("custom({},{})", c.white.0, c.white.1)
    } else {
        c.white_point.to_string()
    };
    let pr = if !c.has_primaries() {
        "-".to_string()
    } else if c.primaries == PR_CUSTOM {
        format!("custom({},{};{},{};{},{})", c.red.0, c.red.1, c.green.0, c.green.1, c.blue.0, c.blue.1)
    } else {
        c.primaries.to_string()
    };
    let tf = if c.have_gamma { format!("gamma{}", c.gamma) } else { c.transfer_function.to_string() };
    format!("enum cs={} wp={} pr={} tf={} ri={}", c.colour_space, wp, pr, tf, c.rendering_intent)
}

pub fn project_written(h: &ImageHeader) -> Vec<String> {
    let mut v = vec![format!("size={}x{}", h.size.width, h.size.height)];
    if h.all_default {
        v.push("orientation=1".into());
        v.push("intrinsic=None".into());
        v.push("preview=None".into());
        v.push("animation=None".into());
        v.push("depth=int8".into());
        v.push("m16=true".into());
        v.push("num_extra=0".into());
        v.push("xyb=true".into());
        v.push(format!("colour={}", colour_str_w(&ColourEncoding::srgb())));
        v.push("tone=255.0,0.0,false,0.0".into());
    } else {
        v.push(format!("orientation={}", if h.extra_fields { h.orientation } else { 1 }));
        v.push(format!("intrinsic={}", match (&h.intrinsic_size, h.extra_fields) { (Some(s), true) => format!("{}x{}", s.width, s.height), _ => "None".into() }));
        v.push(format!("preview={}", match (&h.preview, h.extra_fields) { (Some(s), true) => format!("{}x{}", s.width, s.height), _ => "None".into() }));
        v.push(format!(
            "animation={}",
            match (&h.animation, h.extra_fields) {
                (Some(a), true) => format!("{}/{} loops={} tc={}", a.tps_numerator, a.tps_denominator, a.num_loops, a.have_timecodes),
                _ => "None".into(),
            }
        ));
        v.push(format!("depth={}", depth_str(&h.bit_depth)));
        v.push(format!("m16={}", h.modular_16bit_buffers));
        v.push(format!("num_extra={}", h.ec_info.len()));
        for (i, e) in h.ec_info.iter().enumerate() {
            if e.all_default {
                v.push(format!("ec{i}=Alpha(assoc=false) int8 shift0 name=\"\""));
            } else {
                v.push(format!("ec{i}={} {} shift{} name={:?}", ec_type_str_w(e), depth_str(&e.bit_depth), e.dim_shift, String::from_utf8_lossy(&e.name)));
            }
        }
        v.push(format!("xyb={}", h.xyb_encoded));
        v.push(format!("colour={}", colour_str_w(&h.colour_encoding)));
        let t = &h.tone_mapping;
        if h.extra_fields && !t.all_default {
            v.push(format!("tone={:?},{:?},{},{:?}", f16_bits_to_f32(t.intensity_target), f16_bits_to_f32(t.min_nits), t.relative_to_max_display, f16_bits_to_f32(t.linear_below)));
        } else {
            v.push("tone=255.0,0.0,false,0.0".into());
        }
    }
    let xyb = if h.all_default { true } else { h.xyb_encoded };
    if !h.default_m && xyb && !h.opsin_inverse_matrix.all_default {
        let o = &h.opsin_inverse_matrix;
        v.push(format!("opsin={};{};{};{}", f16s(&o.inv_mat), f16s(&o.opsin_bias), f16s(&o.quant_bias), f16s(&[o.quant_bias_numerator])));
    } else {
        v.push("opsin=default".into());
    }
    let cw = if h.default_m { 0 } else { h.cw_mask };
    v.push(format!("up2={}", if cw & 1 != 0 { f16s(&h.up2_weight) } else { "default".into() }));
    v.push(format!("up4={}", if cw & 2 != 0 { format!("{:x}", fnv(f16s(&h.up4_weight).as_bytes())) } else { "default".into() }));
    v.push(format!("up8={}", if cw & 4 != 0 { format!("{:x}", fnv(f16s(&h.up8_weight).as_bytes())) } else { "default".into() }));
    v
}

// ---------------------------------------------------------------------------------------------
// projection of the decoder's struct

fn depth_str_d(b: &jxl_image::BitDepth) -> String {
    match b {
        jxl_image::BitDepth::IntegerSample { bits_per_sample } => format!("int{bits_per_sample}"),
        jxl_image::BitDepth::FloatSample { bits_per_sample, exp_bits } => format!("float{bits_per_sample}e{exp_bits}"),
    }
}

fn colour_str_d(c: &jxl_image::color::ColourEncoding) -> String {
    use jxl_image::color::*;
    match c {
        ColourEncoding::IccProfile(cs) => format!("icc cs={}", *cs as u32),
        ColourEncoding::Enum(e) => {
            let wp = match &e.white_point {
                WhitePoint::D65 => "1".to_string(),
                WhitePoint::Custom(xy) => format!("custom({},{})", xy.x, xy.y),
                WhitePoint::E => "10".into(),
                WhitePoint::Dci => "11".into(),
            };
            let pr = if matches!(e.colour_space, ColourSpace::Grey | ColourSpace::Xyb) {
                "-".to_string()
            } else {
                match &e.primaries {
                    Primaries::Srgb => "1".to_string(),
                    Primaries::Custom { red, green, blue } => format!("custom({},{};{},{};{},{})", red.x, red.y, green.x, green.y, blue.x, blue.y),
                    Primaries::Bt2100 => "9".into(),
                    Primaries::P3 => "11".into(),
                }
            };
            let tf = match &e.tf {
                TransferFunction::Gamma { g, .. } => format!("gamma{}", g),
                TransferFunction::Bt709 => "1".into(),
                TransferFunction::Unknown => "2".into(),
                TransferFunction::Linear => "8".into(),
                TransferFunction::Srgb => "13".into(),
                TransferFunction::Pq => "16".into(),
                TransferFunction::Dci => "17".into(),
                TransferFunction::Hlg => "18".into(),
            };
            format!("enum cs={} wp={} pr={} tf={} ri={}", e.colour_space as u32, wp, pr, tf, e.rendering_intent as u32)
        }
    }
}

pub fn project_decoded(h: &jxl_image::ImageHeader) -> Vec<String> {
    let m = &h.metadata;
    let mut v = vec![format!("size={}x{}", h.size.width, h.size.height)];
    v.push(format!("orientation={}", m.orientation));
    v.push(format!("intrinsic={}", m.intrinsic_size.as_ref().map(|s| format!("{}x{}", s.width, s.height)).unwrap_or("None".into())));
    v.push(format!("preview={}", m.preview.as_ref().map(|s| format!("{}x{}", s.width, s.height)).unwrap_or("None".into())));
    v.push(format!(
        "animation={}",
        m.animation.as_ref().map(|a| format!("{}/{} loops={} tc={}", a.tps_numerator, a.tps_denominator, a.num_loops, a.have_timecodes)).unwrap_or("None".into())
    ));
    v.push(format!("depth={}", depth_str_d(&m.bit_depth)));
    v.push(format!("m16={}", m.modular_16bit_buffers));
    v.push(format!("num_extra={}", m.ec_info.len()));
    for (i, e) in m.ec_info.iter().enumerate() {
        use jxl_image::ExtraChannelType as T;
        let ty = match e.ty {
            T::Alpha { alpha_associated } => format!("Alpha(assoc={alpha_associated})"),
            T::Depth => "Depth".into(),
            T::SpotColour { red, green, blue, solidity } => format!("Spot({:?},{:?},{:?},{:?})", red, green, blue, solidity),
            T::SelectionMask => "SelectionMask".into(),
            T::Black => "Black".into(),
            T::Cfa { cfa_channel } => format!("Cfa({cfa_channel})"),
            T::Thermal => "Thermal".into(),
            T::NonOptional => "NonOptional".into(),
            T::Optional => "Optional".into(),
        };
        v.push(format!("ec{i}={} {} shift{} name={:?}", ty, depth_str_d(&e.bit_depth), e.dim_shift, e.name.as_str()));
    }
    v.push(format!("xyb={}", m.xyb_encoded));
    v.push(format!("colour={}", colour_str_d(&m.colour_encoding)));
    let t = &m.tone_mapping;
    v.push(format!("tone={:?},{:?},{},{:?}", t.intensity_target, t.min_nits, t.relative_to_max_display, t.linear_below));
    // opsin / upsampling weights: compare against defaults by value
    let o = &m.opsin_inverse_matrix;
    let def_o = format!("{:?}", default_header().metadata.opsin_inverse_matrix);
    if format!("{:?}", o) == def_o {
        v.push("opsin=default".into());
    } else {
        let fl = |x: &[f32]| x.iter().map(|f| format!("{:?}", f)).collect::<Vec<_>>().join(",");
        let inv: Vec<f32> = o.inv_mat.iter().flatten().cloned().collect();
        v.push(format!("opsin={};{};{};{}", fl(&inv), fl(&o.opsin_bias), fl(&o.quant_bias), fl(&[o.quant_bias_numerator])));
    }
    let d = default_header();
    let fl = |x: &[f32]| x.iter().map(|f| format!("{:?}", f)).collect::<Vec<_>>().join(",");
    v.push(format!("up2={}", if m.up2_weight == d.metadata.up2_weight { "default".into() } else { fl(&m.up2_weight) }));
    v.push(format!("up4={}", if m.up4_weight == d.metadata.up4_weight { "default".into() } else { format!("{:x}", fnv(fl(&m.up4_weight).as_bytes())) }));
    v.push(format!("up8={}", if m.up8_weight == d.metadata.up8_weight { "default".into() } else { format!("{:x}", fnv(fl(&m.up8_weight).as_bytes())) }));
    v
}

fn default_header() -> jxl_image::ImageHeader {
    // all-default metadata: 8x8 div8
    let mut w = BitWriter::new();
    let mut h = ImageHeader::simple(8, 8, false, 8);
    h.size.div8 = true;
    h.all_default = true;
    h.write(&mut w, &Sel::default());
    let b = w.finish();
    let mut bs = Bitstream::new(&b);
    jxl_image::ImageHeader::parse(&mut bs, ()).expect("default header")
}

// ---------------------------------------------------------------------------------------------
// image header alphabet

const SIZES: &[(u32, u32, bool, u32)] = &[
    (5, 3, false, 0),
    (8, 8, true, 0),
    (256, 256, true, 0),
    (248, 16, true, 0),
    (1, 1, false, 0),
    (512, 512, false, 0),
    (513, 8192, false, 0),
    (8193, 262144, false, 0),
    (262145, 7, false, 0),
    (1 << 30, 1 << 30, false, 0),
    (100, 100, false, 1),
    (120, 100, false, 2),
    (133, 100, false, 3),
    (150, 100, false, 4),
    (177, 100, false, 5),
    (125, 100, false, 6),
    (200, 100, false, 7),
    (64, 64, true, 1),
    (128, 64, true, 7),
];

fn f16_alphabet() -> Vec<u16> {
    // +0, -0, smallest subnormal, largest subnormal, 1, -2.5, max finite, small normal, every exponent with one mantissa
    let mut v = vec![0x3c00, 0x0000, 0x8000, 0x0001, 0x03ff, 0xc100, 0x7bff, 0x0400, 0xfbff];
    for e in 1..31u16 {
        v.push((e << 10) | 0x155);
    }
    v
}

pub struct ImgCase {
    pub h: ImageHeader,
    pub sel: Sel,
}

pub fn image_case(t: &mut Tape) -> Option<ImgCase> {
    let mut h = ImageHeader::simple(5, 3, false, 8);
    let mut sel = Sel::default();
    let (w, hh, div8, ratio) = *t.choose_from(SIZES);
    h.size = SizeHeader { width: w, height: hh, div8, ratio };
    // forced selector for height/width (widest = 3)
    let fs = t.choose(4);
    if fs != 0 && !div8 {
        let s = (fs as usize).max(1);
        // only legal if the selector can hold the value: BitsOffset(n,1) with n = 9,13,18,30
        let cap = [512u64, 8192, 262144, 1 << 30][s];
        if (hh as u64) <= cap {
            sel.0.push(("size.height".into(), s));
        }
        if ratio == 0 && (w as u64) <= cap {
            sel.0.push(("size.width".into(), s));
        }
    }
    h.all_default = t.flag();
    h.extra_fields = t.flag();
    h.orientation = 1 + t.choose(8);
    h.intrinsic_size = match t.choose(4) {
        0 => None,
        1 => Some(SizeHeader { width: 16, height: 24, div8: true, ratio: 0 }),
        2 => Some(SizeHeader { width: 3000, height: 2000, div8: false, ratio: 4 }),
        _ => Some(SizeHeader { width: 70000, height: 1, div8: false, ratio: 0 }),
    };
    h.preview = match t.choose(9) {
        0 => None,
        1 => Some(PreviewHeader { width: 128, height: 128, div8: true, ratio: 0 }),
        2 => Some(PreviewHeader { width: 256, height: 256, div8: true, ratio: 0 }),
        3 => Some(PreviewHeader { width: 8, height: 264, div8: true, ratio: 0 }),
        4 => Some(PreviewHeader { width: 4096, height: 4096 - 8, div8: true, ratio: 0 }),
        5 => Some(PreviewHeader { width: 1, height: 64, div8: false, ratio: 0 }),
        6 => Some(PreviewHeader { width: 65, height: 320, div8: false, ratio: 0 }),
        7 => Some(PreviewHeader { width: 4000, height: 1345, div8: false, ratio: 0 }),
        _ => Some(PreviewHeader { width: 128, height: 128, div8: true, ratio: 1 }),
    };
    h.animation = match t.choose(6) {
        0 => None,
        1 => Some(AnimationHeader { tps_numerator: 100, tps_denominator: 1, num_loops: 0, have_timecodes: false }),
        2 => Some(AnimationHeader { tps_numerator: 1000, tps_denominator: 1001, num_loops: 7, have_timecodes: true }),
        3 => Some(AnimationHeader { tps_numerator: 1024, tps_denominator: 256, num_loops: 65535, have_timecodes: false }),
        4 => Some(AnimationHeader { tps_numerator: 1 << 30, tps_denominator: 1024, num_loops: u32::MAX, have_timecodes: true }),
        _ => Some(AnimationHeader { tps_numerator: 1, tps_denominator: 1, num_loops: 8, have_timecodes: false }),
    };
    h.bit_depth = match t.choose(12) {
        0 => BitDepth::int(8),
        1 => BitDepth::int(10),
        2 => BitDepth::int(12),
        3 => BitDepth::int(1),
        4 => BitDepth::int(16),
        5 => BitDepth::int(31),
        6 => BitDepth::int(24),
        7 => BitDepth::float(32, 8),
        8 => BitDepth::float(16, 5),
        9 => BitDepth::float(24, 7),
        10 => BitDepth::float(19, 8),
        _ => BitDepth::float(12, 4),
    };
    // force the BitsOffset form for a value that also has a Val form
    if t.flag() {
        sel.0.push(("depth.bits".into(), 3));
    }
    h.modular_16bit_buffers = !t.flag();
    let nex = t.choose(6);
    let name_kind = t.choose(7);
    let names: Vec<Vec<u8>> = vec![
        vec![],
        b"a".to_vec(),
        "name-15-bytes!!".as_bytes().to_vec(),
        "sixteen-bytes-ok".as_bytes().to_vec(),
        "é".repeat(23).into_bytes()[..46].to_vec().into_iter().chain(*b"x").collect(),
        "€".repeat(16).into_bytes(),
        vec![b'z'; 1071],
    ];
    let ecs: Vec<u32> = match nex {
        0 => vec![],
        1 => vec![EC_ALPHA],
        2 => vec![EC_DEPTH, EC_ALPHA],
        3 => vec![EC_SPOT, EC_CFA, EC_BLACK],
        4 => vec![EC_SELECTION, EC_THERMAL, EC_NONOPTIONAL, EC_OPTIONAL],
        _ => (0..18).map(|i| [EC_ALPHA, EC_DEPTH, EC_BLACK][i % 3]).collect(),
    };
    let f16a = f16_alphabet();
    let fpick = t.choose(f16a.len() as u32) as usize;
    for (i, &ty) in ecs.iter().enumerate() {
        let mut e = ExtraChannelInfo::new(ty, if i % 2 == 0 { BitDepth::int(8) } else { BitDepth::float(16, 5) });
        e.dim_shift = [0u32, 3, 4, 1, 8][i % 5];
        e.name = if i == 0 { names[name_kind as usize].clone() } else { vec![] };
        e.alpha_associated = i % 2 == 1;
        e.spot = [f16a[fpick], 0x3800, 0x3400, f16a[(fpick + 3) % f16a.len()]];
        e.cfa_channel = [1u32, 2, 3, 18, 19, 274][(i + fpick) % 6];
        if nex == 1 && name_kind == 0 && fpick == 0 {
            e = ExtraChannelInfo::default_alpha();
        }
        h.ec_info.push(e);
    }
    if t.flag() && !ecs.is_empty() {
        sel.0.push(("num_extra".into(), if ecs.len() >= 2 && ecs.len() <= 17 { 3 } else { 3 }));
    }
    h.xyb_encoded = t.flag();
    let xy_alpha: &[i32] = &[0, 1, -1, 312_700, 329_000, 524_287 / 2, 262_143, 262_144, -262_144, 524_288, 1_048_575, 1_048_576, -2_097_151, 2_097_151];
    h.colour_encoding = match t.choose(12) {
        0 => ColourEncoding::srgb(),
        1 => ColourEncoding { all_default: false, ..ColourEncoding::srgb() },
        2 => ColourEncoding::grey(),
        3 => ColourEncoding { all_default: false, want_icc: true, colour_space: CS_RGB, ..ColourEncoding::srgb() },
        4 => ColourEncoding { all_default: false, want_icc: true, colour_space: CS_UNKNOWN, ..ColourEncoding::srgb() },
        5 => ColourEncoding { all_default: false, white_point: WP_E, primaries: PR_2100, transfer_function: TF_PQ, rendering_intent: 0, ..ColourEncoding::srgb() },
        6 => ColourEncoding { all_default: false, white_point: WP_DCI, primaries: PR_P3, transfer_function: TF_DCI, rendering_intent: 3, ..ColourEncoding::srgb() },
        7 => {
            let k = t.choose(xy_alpha.len() as u32) as usize;
            let g = |d: usize| xy_alpha[(k + d) % xy_alpha.len()];
            ColourEncoding {
                all_default: false,
                white_point: WP_CUSTOM,
                white: (g(0), g(1)),
                primaries: PR_CUSTOM,
                red: (g(2), g(3)),
                green: (g(4), g(5)),
                blue: (g(6), g(7)),
                transfer_function: TF_HLG,
                rendering_intent: 2,
                ..ColourEncoding::srgb()
            }
        }
        8 => ColourEncoding { all_default: false, have_gamma: true, gamma: [1u32, 4545455, 10_000_000, (1 << 24) - 1][t.choose(4) as usize], ..ColourEncoding::srgb() },
        9 => ColourEncoding { all_default: false, colour_space: CS_GREY, white_point: WP_CUSTOM, white: (xy_alpha[3], xy_alpha[4]), transfer_function: TF_LINEAR, ..ColourEncoding::srgb() },
        10 => ColourEncoding { all_default: false, transfer_function: TF_709, rendering_intent: 0, ..ColourEncoding::srgb() },
        _ => ColourEncoding { all_default: false, colour_space: CS_UNKNOWN, transfer_function: TF_UNKNOWN, ..ColourEncoding::srgb() },
    };
    h.tone_mapping = match t.choose(4) {
        0 => ToneMapping::default_(),
        1 => ToneMapping { all_default: false, intensity_target: 0x6400, min_nits: 0x3c00, relative_to_max_display: false, linear_below: 0x4900 },
        2 => ToneMapping { all_default: false, intensity_target: 0x7bff, min_nits: 0x0001, relative_to_max_display: true, linear_below: 0x3800 },
        _ => ToneMapping { all_default: false, intensity_target: 0x0001, min_nits: 0, relative_to_max_display: true, linear_below: 0x3c00 },
    };
    // extensions with payloads: (bit index, payload length, payload pattern)
    let ext = t.choose(9);
    let mk = |n: usize, pat: u32| {
        let mut b = BitWriter::new();
        for i in 0..n {
            let bit = match pat {
                0 => 0,
                1 => 1,
                _ => ((i * 7 + 3) % 5 < 2) as u64,
            };
            b.write(1, bit);
        }
        b
    };
    h.extensions = match ext {
        0 => Extensions::default(),
        1 => Extensions { items: vec![(0, mk(0, 0))] },
        2 => Extensions { items: vec![(0, mk(5, 1))] },
        3 => Extensions { items: vec![(0, mk(64, 1))] },
        4 => Extensions { items: vec![(3, mk(200, 1))] },
        5 => Extensions { items: vec![(0, mk(57, 2)), (1, mk(90, 1)), (63, mk(17, 2))] },
        6 => Extensions { items: vec![(63, mk(273, 1))] },
        7 => Extensions { items: vec![(12, mk(4096, 2))] },
        _ => Extensions { items: vec![(5, mk(16, 0)), (6, mk(1, 1))] },
    };
    match t.choose(4) {
        0 => {}
        1 => sel.0.push(("ext.mask".into(), 3)),
        2 => sel.0.push(("ext.bits0".into(), 3)),
        _ => {
            sel.0.push(("ext.mask".into(), 3));
            sel.0.push(("ext.bits0".into(), 3));
        }
    }
    h.default_m = !t.flag();
    let cw = t.choose(8);
    h.cw_mask = cw;
    h.up2_weight = (0..15).map(|i| f16a[(i + fpick) % f16a.len()]).collect();
    h.up4_weight = (0..55).map(|i| f16a[(i * 3 + fpick) % f16a.len()]).collect();
    h.up8_weight = (0..210).map(|i| f16a[(i * 5 + fpick) % f16a.len()]).collect();
    if t.flag() {
        h.opsin_inverse_matrix = OpsinInverseMatrix {
            all_default: false,
            inv_mat: [0x4980, 0xc880, 0x3c00, 0xc400, 0x4a00, 0xb800, 0xb000, 0xbc00, 0x4400],
            opsin_bias: [0x9be0, 0x1be0, 0x0001],
            quant_bias: [0x3800, 0x3801, 0x3802],
            quant_bias_numerator: 0x30a4,
        };
    }
    // consistency the writer cannot express
    if sel.0.iter().any(|(n, _)| n == "ext.bits0") && h.extensions.items.is_empty() {
        return None;
    }
    // forced selector legality is asserted by the writer: probe
    let ok = guard(|| {
        let mut w = BitWriter::new();
        h.write(&mut w, &sel);
    });
    if ok.is_err() {
        return None;
    }
    // oracle-uncertain zone: XYB colour space with enum encoding (transfer function presence)
    if !h.colour_encoding.all_default && h.colour_encoding.colour_space == CS_XYB {
        return None;
    }
    Some(ImgCase { h, sel })
}

pub fn run_image_case(c: &ImgCase) -> Result<(), (String, String)> {
    let mut w = BitWriter::new();
    // signature + size + metadata, no ICC, no padding: the parser must stop exactly here
    w.write(16, 0x0aff);
    c.h.write_no_sig(&mut w, &c.sel);
    let bits = w.bit_len();
    let mut bytes = w.finish();
    bytes.extend_from_slice(&[0u8; 16]);
    let want = project_written(&c.h);
    let r = guard(|| {
        let mut bs = Bitstream::new(&bytes);
        jxl_image::ImageHeader::parse(&mut bs, ()).map(|h| (project_decoded(&h), bs.num_read_bits()))
    });
    match r {
        Err(p) => Err((format!("panic@{}", panic_site(&p)), format!("panic: {p}"))),
        Ok(Err(e)) => Err((format!("img-rejected:{}", first_diff_class(&c.h)), format!("valid image header rejected: {e}"))),
        Ok(Ok((got, read))) => {
            if let Some(i) = (0..want.len().max(got.len())).find(|&i| want.get(i) != got.get(i)) {
                let field = want.get(i).map(|s| s.split('=').next().unwrap_or("").to_string()).unwrap_or_default();
                return Err((format!("img-field:{}", field.trim_end_matches(char::is_numeric)), format!("written {:?} reported {:?}", want.get(i), got.get(i))));
            }
            if read != bits {
                return Err(("img-bitpos".into(), format!("parser stopped at bit {read}, writer at {bits}")));
            }
            Ok(())
        }
    }
}

fn first_diff_class(h: &ImageHeader) -> String {
    if h.preview.as_ref().map(|p| p.ratio != 0).unwrap_or(false) && h.extra_fields && !h.all_default {
        "preview-ratio".into()
    } else {
        "other".into()
    }
}

// ---------------------------------------------------------------------------------------------
// frame header + TOC

pub struct FrameCase {
    pub img: ImageHeader,
    pub fh: FrameHeader,
    pub sel: Sel,
    /// section sizes in bitstream order and the coded permutation (logical -> position), if any
    pub toc_sizes: Vec<u32>,
    pub perm: Option<Vec<u32>>,
    pub perm_prefix: bool,
}

/// Image header + frame header + TOC of the case, followed by `tail` (C01 feeds this to the whole decoder).
pub fn frame_case_stream(c: &FrameCase, tail: &[u8]) -> Vec<u8> {
    let mut w = BitWriter::new();
    c.img.write(&mut w, &Sel::default());
    let mut out = w.finish();
    let mut w = BitWriter::new();
    c.fh.write(&mut w, &c.sel, &c.img);
    let opts = CodeOpts { use_prefix: c.perm_prefix, ..Default::default() };
    write_toc(&mut w, &c.sel, &c.toc_sizes, c.perm.as_deref(), &opts);
    out.extend_from_slice(&w.finish());
    out.extend_from_slice(tail);
    out
}

fn num_toc_entries(img: &ImageHeader, fh: &FrameHeader) -> usize {
    let (w, h) = fh.frame_size(img);
    let up = fh.upsampling.max(1);
    // (frame_size already accounts for the 8x downsampling per level of an LF frame)
    let (w, h) = ((w + up - 1) / up, (h + up - 1) / up);
    let gd = 128u32 << fh.group_size_shift;
    let ng = ((w + gd - 1) / gd) * ((h + gd - 1) / gd);
    let lgd = gd * 8;
    let nlg = ((w + lgd - 1) / lgd) * ((h + lgd - 1) / lgd);
    let np = fh.passes.num_passes;
    if ng == 1 && np == 1 {
        1
    } else {
        (1 + nlg + 1 + np * ng) as usize
    }
}

pub fn frame_case(t: &mut Tape) -> Option<FrameCase> {
    frame_case_ex(t, false)
}

/// `hostile`: keep the combinations that the format forbids or that the reference is unsure about (used by
/// C01, which only asks for "no panic", not for agreement).
pub fn frame_case_ex(t: &mut Tape, hostile: bool) -> Option<FrameCase> {
    // context
    let ctx = t.choose(6);
    let mut img = ImageHeader::simple(300, 200, false, 8);
    match ctx {
        0 => {}
        1 => img.xyb_encoded = true,
        2 => img.ec_info = vec![ExtraChannelInfo::default_alpha()],
        3 => {
            img.ec_info = vec![ExtraChannelInfo::default_alpha(), ExtraChannelInfo::new(EC_ALPHA, BitDepth::int(16))];
            img.extra_fields = true;
            img.animation = Some(AnimationHeader { tps_numerator: 100, tps_denominator: 1, num_loops: 0, have_timecodes: false });
        }
        4 => {
            img.extra_fields = true;
            img.animation = Some(AnimationHeader { tps_numerator: 100, tps_denominator: 1, num_loops: 0, have_timecodes: true });
            img.xyb_encoded = true;
        }
        _ => {
            img.size = SizeHeader::new(9, 5000);
            img.ec_info = (0..3).map(|_| ExtraChannelInfo::new(EC_ALPHA, BitDepth::int(8))).collect();
        }
    }
    let ne = img.ec_info.len();
    let mut fh = FrameHeader::modular_lossless(&img);
    let mut sel = Sel::default();
    fh.all_default = t.flag();
    fh.frame_type = t.choose(4);
    fh.encoding = [ENC_MODULAR, ENC_VARDCT][t.choose(2) as usize];
    fh.flags = [0u64, FLAG_NOISE, FLAG_PATCHES | FLAG_SPLINES, FLAG_USE_LF_FRAME, FLAG_SKIP_ADAPTIVE_LF_SMOOTHING | FLAG_NOISE, 0x80 | 0x20 | 0x10 | 2 | 1][t.choose(6) as usize];
    if t.flag() {
        sel.0.push(("flags".into(), 3));
    }
    fh.do_ycbcr = t.flag();
    fh.jpeg_upsampling = [[0, 0, 0], [1, 0, 1], [2, 3, 0], [3, 3, 3]][t.choose(4) as usize];
    fh.upsampling = [1, 2, 4, 8][t.choose(4) as usize];
    let ecu = t.choose(3);
    fh.ec_upsampling = (0..ne).map(|i| [1u32, 8, 2][(i + ecu as usize) % 3].max(fh.upsampling)).collect();
    fh.group_size_shift = [1, 0, 2, 3][t.choose(4) as usize];
    fh.x_qm_scale = [3, 0, 7][t.choose(3) as usize];
    fh.b_qm_scale = [2, 0, 7][t.choose(3) as usize];
    fh.passes = match t.choose(5) {
        0 => Passes::one(),
        1 => Passes { num_passes: 2, shift: vec![1], downsample: vec![], last_pass: vec![] },
        2 => Passes { num_passes: 3, shift: vec![3, 0], downsample: vec![8, 2], last_pass: vec![0, 1] },
        3 => Passes { num_passes: 4, shift: vec![2, 1, 0], downsample: vec![8, 4, 2], last_pass: vec![0, 1, 2] },
        _ => Passes { num_passes: 11, shift: vec![0; 10], downsample: vec![8, 4, 2, 1], last_pass: vec![1, 3, 5, 7] },
    };
    fh.lf_level = 1 + t.choose(4) % 4;
    let crop = t.choose(7);
    fh.have_crop = crop != 0;
    let (x0, y0, cw, ch): (i32, i32, u32, u32) = match crop {
        0 | 1 => (0, 0, 300, 200),
        2 => (-5, -7, 400, 300),
        3 => (255, 256, 255, 256),
        4 => (2303, -2304, 2304, 18687),
        5 => (-18688, 18688, 18688, 1 << 20),
        _ => (10, 10, 20, 20),
    };
    fh.x0 = x0;
    fh.y0 = y0;
    fh.width = cw;
    fh.height = ch;
    if t.flag() {
        for n in ["x0", "y0", "width", "height"] {
            sel.0.push((n.into(), 3));
        }
    }
    let bm = t.choose(5);
    fh.blending_info = BlendingInfo { mode: bm, alpha_channel: [0u32, 1, 2, 3, 10][t.choose(5) as usize].min(ne.saturating_sub(1) as u32), clamp: t.flag(), source: t.choose(4) };
    let ecb = t.choose(3);
    fh.ec_blending_info = (0..ne)
        .map(|i| match ecb {
            0 => fh.blending_info.clone(),
            1 => BlendingInfo { mode: (bm + 1 + i as u32) % 5, alpha_channel: i as u32, clamp: i % 2 == 0, source: (i as u32 + 1) % 4 },
            _ => BlendingInfo { mode: BLEND_ADD, alpha_channel: 0, clamp: false, source: 3 },
        })
        .collect();
    fh.duration = [0u32, 1, 255, 256, u32::MAX][t.choose(5) as usize];
    fh.timecode = [0u32, 0x01020304, u32::MAX][t.choose(3) as usize];
    fh.is_last = !t.flag();
    fh.save_as_reference = t.choose(4);
    fh.save_before_ct = t.flag();
    fh.name = match t.choose(4) {
        0 => vec![],
        1 => b"frame".to_vec(),
        2 => "ß".repeat(24).into_bytes(),
        _ => vec![b'n'; 48],
    };
    fh.restoration_filter = match t.choose(7) {
        0 => RestorationFilter::none(),
        1 => RestorationFilter::default_(),
        2 => RestorationFilter { gab: true, ..RestorationFilter::none() },
        3 => RestorationFilter { gab: true, gab_custom: Some([0x2f00, 0x2b00, 0x2e00, 0x2a00, 0x2d00, 0x2900]), epf_iters: 1, ..RestorationFilter::none() },
        4 => RestorationFilter { epf_iters: 3, epf_sharp_custom: Some([0, 0x3000, 0x3400, 0x3600, 0x3800, 0x3900, 0x3a00, 0x3c00]), epf_weight_custom: Some([0x4400, 0x4200, 0x3c00]), ..RestorationFilter::none() },
        5 => RestorationFilter { epf_iters: 2, epf_sigma_custom: Some(vec![0x3c00; 4]), epf_sigma_for_modular: 0x4000, ..RestorationFilter::none() },
        _ => RestorationFilter { epf_iters: 1, extensions: Extensions { items: vec![(1, { let mut b = BitWriter::new(); b.write(33, 0x1_5555_5555); b })] }, ..RestorationFilter::none() },
    };
    if let Some(s) = &mut fh.restoration_filter.epf_sigma_custom {
        if fh.encoding == ENC_MODULAR {
            s.truncate(3);
        }
    }
    fh.extensions = match t.choose(3) {
        0 => Extensions::default(),
        1 => Extensions { items: vec![(0, { let mut b = BitWriter::new(); for _ in 0..70 { b.write(1, 1); } b })] },
        _ => Extensions { items: vec![(2, BitWriter::new()), (40, { let mut b = BitWriter::new(); b.write(9, 0x1ff); b })] },
    };
    // normalise fields that are not coded so that the expectation equals the defaults
    // oracle-uncertain zones (DESIGN.md section 8)
    if !hostile {
        if fh.blending_info.mode == BLEND_MUL && ne == 0 {
            return None;
        }
        if ne > 0 && fh.ec_blending_info.iter().any(|b| (b.mode == BLEND_REPLACE) != (fh.blending_info.mode == BLEND_REPLACE)) {
            return None;
        }
        if fh.ec_blending_info.iter().any(|b| b.mode == BLEND_MUL) && ne == 0 {
            return None;
        }
        // constraints of the format that make a header invalid rather than different
        if fh.flags & FLAG_USE_LF_FRAME != 0 && fh.frame_type == FT_LF && fh.lf_level >= 4 {
            return None;
        }
    }
    if fh.all_default {
        // nothing else is coded
    }
    // TOC
    let eff = effective(&img, &fh);
    let n = num_toc_entries(&img, &eff);
    if n > 3000 {
        return None;
    }
    let size_kind = t.choose(5);
    let toc_sizes: Vec<u32> = (0..n)
        .map(|i| match size_kind {
            0 => (i as u32 * 7 + 3) % 1000,
            1 => 0,
            2 => [1023u32, 1024, 17407, 17408, 4211711, 4211712][i % 6],
            3 => (1 << 30) + 4211711,
            _ => (i as u32) % 3,
        })
        .collect();
    let pk = t.choose(5);
    let perm: Option<Vec<u32>> = if n < 2 {
        if pk != 0 {
            return None;
        }
        None
    } else {
        match pk {
            0 => None,
            1 => Some((0..n as u32).collect()),
            2 => Some((0..n as u32).rev().collect()),
            3 => Some((0..n as u32).map(|i| (i + 1) % n as u32).collect()),
            _ => {
                let mut p: Vec<u32> = (0..n as u32).collect();
                p.swap(0, n - 1);
                if n > 3 {
                    p.swap(1, 2);
                }
                Some(p)
            }
        }
    };
    let perm_prefix = !t.flag();
    let ok = guard(|| {
        let mut w = BitWriter::new();
        fh.write(&mut w, &sel, &img);
    });
    if ok.is_err() {
        return None;
    }
    Some(FrameCase { img, fh, sel, toc_sizes, perm, perm_prefix })
}

/// The header as the format says it reads back: non-coded fields replaced by their defaults.
fn effective(img: &ImageHeader, f: &FrameHeader) -> FrameHeader {
    let mut e = f.clone();
    let ne = img.ec_info.len();
    if f.all_default {
        let mut d = FrameHeader::modular_lossless(img);
        d.all_default = true;
        d.encoding = ENC_VARDCT;
        d.restoration_filter = RestorationFilter::default_();
        d.is_last = true;
        d.group_size_shift = 1;
        d.save_before_ct = false;
        d.width = img.size.width;
        d.height = img.size.height;
        d.x_qm_scale = if img.xyb_encoded { 3 } else { 2 };
        d.ec_blending_info = vec![];
        return d;
    }
    if img.xyb_encoded {
        e.do_ycbcr = false;
    }
    let use_lf = f.flags & FLAG_USE_LF_FRAME != 0;
    if !e.do_ycbcr || use_lf {
        e.jpeg_upsampling = [0; 3];
    }
    if use_lf {
        e.upsampling = 1;
        e.ec_upsampling = vec![1; ne];
    }
    if f.encoding != ENC_MODULAR {
        e.group_size_shift = 1;
    }
    if !(f.encoding == ENC_VARDCT && img.xyb_encoded) {
        e.x_qm_scale = if img.xyb_encoded && f.encoding == ENC_VARDCT { 3 } else { 2 };
        e.b_qm_scale = 2;
    }
    if f.frame_type == FT_REFERENCE_ONLY {
        e.passes = Passes::one();
    }
    if f.frame_type != FT_LF {
        e.lf_level = 0;
    } else {
        e.have_crop = false;
    }
    if !e.have_crop {
        e.x0 = 0;
        e.y0 = 0;
        e.width = img.size.width;
        e.height = img.size.height;
    } else if f.frame_type == FT_REFERENCE_ONLY {
        e.x0 = 0;
        e.y0 = 0;
    }
    let normal = f.normal_frame();
    let full = e.is_full_frame(img);
    let fix = |b: &BlendingInfo| -> BlendingInfo {
        let mut b = b.clone();
        if !(ne > 0 && (b.mode == BLEND_BLEND || b.mode == BLEND_MULADD)) {
            b.alpha_channel = 0;
        }
        if !(ne > 0 && (b.mode == BLEND_BLEND || b.mode == BLEND_MULADD || b.mode == BLEND_MUL)) {
            b.clamp = false;
        }
        if !(b.mode != BLEND_REPLACE || !full) {
            b.source = 0;
        }
        b
    };
    if normal {
        e.blending_info = fix(&f.blending_info);
        e.ec_blending_info = f.ec_blending_info.iter().map(fix).collect();
        if img.animation.is_none() {
            e.duration = 0;
        }
        if !img.animation.as_ref().map(|a| a.have_timecodes).unwrap_or(false) {
            e.timecode = 0;
        }
    } else {
        e.blending_info = BlendingInfo::replace();
        e.ec_blending_info = vec![];
        e.duration = 0;
        e.timecode = 0;
        e.is_last = f.frame_type == FT_REGULAR;
    }
    e.is_last = f.eff_is_last();
    if !(f.frame_type != FT_LF && !e.is_last) {
        e.save_as_reference = 0;
    }
    let mut tmp = e.clone();
    tmp.have_crop = e.have_crop;
    if !tmp.save_before_ct_signalled(img) {
        e.save_before_ct = !normal;
    }
    e
}

fn project_frame_written(img: &ImageHeader, f: &FrameHeader) -> Vec<String> {
    let e = effective(img, f);
    let mut v = vec![
        format!("type={}", e.frame_type),
        format!("enc={}", e.encoding),
        format!("flags={}", if f.all_default { 0 } else { e.flags }),
        format!("ycbcr={}", e.do_ycbcr),
        format!("jpegup={:?}", e.jpeg_upsampling),
        format!("up={} ecup={:?}", e.upsampling, e.ec_upsampling),
        format!("gss={}", e.group_size_shift),
        format!("qm={},{}", e.x_qm_scale, e.b_qm_scale),
        format!("passes={} shift={:?} ds={:?} last={:?}", e.passes.num_passes, e.passes.shift, e.passes.downsample, e.passes.last_pass),
        format!("lf_level={}", e.lf_level),
        format!("crop={} {},{} {}x{}", e.have_crop, e.x0, e.y0, e.width, e.height),
        format!("blend={},{},{},{}", e.blending_info.mode, e.blending_info.alpha_channel, e.blending_info.clamp, e.blending_info.source),
    ];
    for (i, b) in e.ec_blending_info.iter().enumerate() {
        v.push(format!("ecblend{i}={},{},{},{}", b.mode, b.alpha_channel, b.clamp, b.source));
    }
    v.push(format!("duration={} timecode={}", e.duration, e.timecode));
    v.push(format!("is_last={}", e.is_last));
    v.push(format!("save_as_ref={}", e.save_as_reference));
    v.push(format!("save_before_ct={}", e.save_before_ct));
    v.push(format!("name={:?}", String::from_utf8_lossy(if f.all_default { &[] } else { &e.name })));
    let r = &e.restoration_filter;
    let (gab, iters) = if f.all_default || r.all_default { ("default".to_string(), 2) } else {
        (if !r.gab { "off".into() } else { match &r.gab_custom { None => "default".into(), Some(g) => f16s(g) } }, r.epf_iters)
    };
    v.push(format!("gab={gab}"));
    v.push(format!("epf_iters={iters}"));
    v
}

fn project_frame_decoded(h: &jxl_frame::FrameHeader) -> Vec<String> {
    use jxl_frame::filter::{EdgePreservingFilter, Gabor};
    let fl = h.flags.noise() as u64 | (h.flags.patches() as u64) << 1 | (h.flags.splines() as u64) << 4 | (h.flags.use_lf_frame() as u64) << 5 | (h.flags.skip_adaptive_lf_smoothing() as u64) << 7;
    let mut v = vec![
        format!("type={}", h.frame_type as u32),
        format!("enc={}", h.encoding as u32),
        format!("flags={}", fl),
        format!("ycbcr={}", h.do_ycbcr),
        format!("jpegup={:?}", h.jpeg_upsampling),
        format!("up={} ecup={:?}", h.upsampling, h.ec_upsampling),
        format!("gss={}", h.group_size_shift),
        format!("qm={},{}", h.x_qm_scale, h.b_qm_scale),
        format!("passes={} shift={:?} ds={:?} last={:?}", h.passes.num_passes, h.passes.shift, h.passes.downsample, h.passes.last_pass),
        format!("lf_level={}", h.lf_level),
        format!("crop={} {},{} {}x{}", h.have_crop, h.x0, h.y0, h.width, h.height),
        format!("blend={},{},{},{}", h.blending_info.mode as u32, h.blending_info.alpha_channel, h.blending_info.clamp, h.blending_info.source),
    ];
    for (i, b) in h.ec_blending_info.iter().enumerate() {
        v.push(format!("ecblend{i}={},{},{},{}", b.mode as u32, b.alpha_channel, b.clamp, b.source));
    }
    v.push(format!("duration={} timecode={}", h.duration, h.timecode));
    v.push(format!("is_last={}", h.is_last));
    v.push(format!("save_as_ref={}", h.save_as_reference));
    v.push(format!("save_before_ct={}", h.save_before_ct));
    v.push(format!("name={:?}", h.name.as_str()));
    let gab = match &h.restoration_filter.gab {
        Gabor::Disabled => "off".to_string(),
        Gabor::Enabled(w) => {
            if format!("{:?}", w) == format!("{:?}", [[0.115169525f32, 0.061248592]; 3]) {
                "default".into()
            } else {
                w.iter().flatten().map(|f| format!("{:?}", f)).collect::<Vec<_>>().join(",")
            }
        }
    };
    v.push(format!("gab={gab}"));
    v.push(format!(
        "epf_iters={}",
        match &h.restoration_filter.epf {
            EdgePreservingFilter::Disabled => 0,
            EdgePreservingFilter::Enabled(p) => p.iters,
        }
    ));
    v
}

pub fn run_frame_case(c: &FrameCase) -> Result<(), (String, String)> {
    // parse the image header with the decoder first (context for the frame header)
    let mut iw = BitWriter::new();
    c.img.write(&mut iw, &Sel::default());
    let ib = iw.finish();
    let mut w = BitWriter::new();
    c.fh.write(&mut w, &c.sel, &c.img);
    let hdr_bits = w.bit_len();
    let opts = CodeOpts { use_prefix: c.perm_prefix, ..Default::default() };
    write_toc(&mut w, &c.sel, &c.toc_sizes, c.perm.as_deref(), &opts);
    let all_bits = w.bit_len();
    let mut bytes = w.finish();
    bytes.extend_from_slice(&[0u8; 16]);
    let want = project_frame_written(&c.img, &c.fh);
    let r = guard(|| -> Result<(Vec<String>, usize, Option<(Vec<(String, u32)>, usize)>), String> {
        let mut bs = Bitstream::new(&ib);
        let ih = jxl_image::ImageHeader::parse(&mut bs, ()).map_err(|e| format!("image header: {e}"))?;
        let mut bs = Bitstream::new(&bytes);
        let fh = jxl_frame::FrameHeader::parse(&mut bs, &ih).map_err(|e| format!("frame header: {e}"))?;
        let got = project_frame_decoded(&fh);
        let pos = bs.num_read_bits();
        // whole frame (header + TOC)
        let mut bs2 = Bitstream::new(&bytes);
        let ctx = jxl_frame::FrameContext { image_header: std::sync::Arc::new(ih), tracker: None, pool: jxl_oxide::JxlThreadPool::none() };
        let toc = match jxl_frame::Frame::parse(&mut bs2, ctx) {
            Ok(fr) => {
                let groups: Vec<(String, u32)> = fr.toc().iter_bitstream_order().map(|g| (format!("{:?}", g.kind), g.size)).collect();
                // the lookup used by every section parser: kind -> position in the bitstream
                let lookups: Vec<usize> = fr.toc().iter_bitstream_order().map(|g| fr.toc().group_index_bitstream_order(g.kind)).collect();
                if let Some(i) = (0..lookups.len()).find(|&i| lookups[i] != i) {
                    return Err(format!("toc-lookup: the section at bitstream position {i} ({}) is looked up at position {}", groups[i].0, lookups[i]));
                }
                Some((groups, bs2.num_read_bits()))
            }
            Err(e) => return Err(format!("frame+toc: {e}")),
        };
        Ok((got, pos, toc))
    });
    let cls = format!("ft{}", c.fh.frame_type);
    match r {
        Err(p) => Err((format!("panic@{}", panic_site(&p)), format!("panic: {p}"))),
        Ok(Err(e)) => Err((format!("frame-rejected:{}:{}", e.split(':').next().unwrap_or(""), cls), format!("valid frame header / TOC rejected: {e}"))),
        Ok(Ok((got, pos, toc))) => {
            if let Some(i) = (0..want.len().max(got.len())).find(|&i| want.get(i) != got.get(i)) {
                let field = want.get(i).or(got.get(i)).map(|s| s.split('=').next().unwrap_or("").to_string()).unwrap_or_default();
                return Err((format!("frame-field:{}", field.trim_end_matches(char::is_numeric)), format!("written {:?} reported {:?}", want.get(i), got.get(i))));
            }
            if pos != hdr_bits {
                return Err(("frame-bitpos".into(), format!("frame header parser stopped at bit {pos}, writer at {hdr_bits}")));
            }
            let (groups, tpos) = toc.unwrap();
            if tpos != all_bits {
                return Err(("toc-bitpos".into(), format!("TOC parser stopped at bit {tpos}, writer at {all_bits}")));
            }
            // expected: position i holds logical section inv(perm)(i) with size toc_sizes[i]
            let eff = effective(&c.img, &c.fh);
            let n = c.toc_sizes.len();
            let names = section_names(&c.img, &eff, n);
            let mut expect: Vec<(String, u32)> = Vec::new();
            for pos_i in 0..n {
                let logical = match &c.perm {
                    None => pos_i,
                    Some(p) => p.iter().position(|&x| x as usize == pos_i).unwrap(),
                };
                expect.push((names[logical].clone(), c.toc_sizes[pos_i]));
            }
            if groups != expect {
                let i = (0..n).find(|&i| groups.get(i) != expect.get(i)).unwrap_or(0);
                return Err(("toc-order".into(), format!("TOC entry {i}: written {:?} reported {:?}", expect.get(i), groups.get(i))));
            }
            Ok(())
        }
    }
}

fn section_names(img: &ImageHeader, fh: &FrameHeader, n: usize) -> Vec<String> {
    if n == 1 {
        return vec!["All".into()];
    }
    let (w, h) = fh.frame_size(img);
    let up = fh.upsampling.max(1);
    // (frame_size already accounts for the 8x downsampling per level of an LF frame)
    let (w, h) = ((w + up - 1) / up, (h + up - 1) / up);
    let gd = 128u32 << fh.group_size_shift;
    let ng = ((w + gd - 1) / gd) * ((h + gd - 1) / gd);
    let lgd = gd * 8;
    let nlg = ((w + lgd - 1) / lgd) * ((h + lgd - 1) / lgd);
    let mut v = vec!["LfGlobal".to_string()];
    for i in 0..nlg {
        v.push(format!("LfGroup({i})"));
    }
    v.push("HfGlobal".into());
    for p in 0..fh.passes.num_passes {
        for g in 0..ng {
            v.push(format!("GroupPass {{ pass_idx: {p}, group_idx: {g} }}"));
        }
    }
    v
}

// ---------------------------------------------------------------------------------------------

pub fn main(args: &crate::Args) {
    crate::util::install_panic_hook();
    let mut rep = Report::new("C14", &args.tier, "exploration");
    let quick = rep.is_quick();
    if let Some(p) = &args.replay {
        replay(p);
    }
    let bound = if quick { 3 } else { 4 };
    let fbound = if quick { 2 } else { 3 };
    let (itapes, _) = collect_tapes(bound, 0, |t| {
        let _ = image_case(t);
    });
    let (mut ftapes, _) = collect_tapes(fbound, 0, |t| {
        let _ = frame_case(t);
    });
    // coupled full product: whether save_as_reference / save_before_ct / blending / duration are coded at all depends on
    // frame type x is_last x duration x save slot x blend mode x crop x animation together (tape positions: 0 context,
    // 2 type, 15 crop, 17 blend mode, 22 duration, 24 not-last, 25 save slot, 26 save_before_ct)
    {
        let len = ftapes[0].len();
        for ctx in [0u32, 3] {
            for ft in 0..4u32 {
                for crop in [0u32, 1, 6] {
                    for bm in [0u32, 1, 2] {
                        for dur in 0..2u32 {
                            for not_last in 0..2u32 {
                                for save in 0..2u32 {
                                    for sbct in 0..2u32 {
                                        let mut t = vec![0u32; len];
                                        t[0] = ctx;
                                        t[2] = ft;
                                        t[15] = crop;
                                        t[17] = bm;
                                        t[22] = dur;
                                        t[24] = not_last;
                                        t[25] = save;
                                        t[26] = sbct;
                                        ftapes.push(t);
                                    }
                                }
                            }
                        }
                    }
                }
            }
        }
        ftapes.sort();
        ftapes.dedup();
    }
    let ires = par_map(&itapes, n_threads(), |_, tp| {
        let mut t = Tape::from_answers(tp);
        match image_case(&mut t) {
            None => None,
            Some(c) => Some(run_image_case(&c)),
        }
    });
    let fres = par_map(&ftapes, n_threads(), |_, tp| {
        let mut t = Tape::from_answers(tp);
        match frame_case(&mut t) {
            None => None,
            Some(c) => Some(run_frame_case(&c)),
        }
    });
    let mut skipped = 0u64;
    for (kind, tapes, res) in [("image", &itapes, &ires), ("frame", &ftapes, &fres)] {
        for (tp, r) in tapes.iter().zip(res.iter()) {
            rep.eval();
            match r {
                None => {
                    skipped += 1;
                    rep.outcome("not-expressible");
                }
                Some(Ok(())) => {
                    rep.outcome("ok");
                    let b: Vec<u8> = tp.iter().flat_map(|x| x.to_le_bytes()).chain(kind.bytes()).collect();
                    if tp.iter().any(|&a| a != 0) {
                        rep.nontrivial(fnv(&b));
                    }
                }
                Some(Err((k, w))) => {
                    rep.outcome("mismatch");
                    rep.violation(k, w, &json!({"kind": kind, "tape": tp}));
                }
            }
        }
    }
    rep.rule = format!("image header: every assignment of 28 field dimensions (size forms and forced U32 selectors, all_default, extra_fields, orientation 1-8, intrinsic size, 8 preview forms, animation, 12 bit depths, 6 extra-channel lists with names up to 1071 bytes and F16 boundary values, xyb, 12 colour encodings incl. custom xy at selector boundaries and gamma, tone mapping, 9 extension layouts with payloads up to 4096 bits and forced 64-bit U64 forms, cw_mask 0-7, opsin matrix) within {bound} deviations of the default; frame header + TOC: 38 dimensions (6 image contexts, type, encoding, flags, crop forms at selector boundaries, blending, passes up to 11, restoration filter forms, extensions, TOC size selectors, 5 permutations, permutation coder) within {fbound} deviations; oracle = the values written and the writer's bit position. Non-trivial = at least one non-default field; distinct by tape.");
    for (tapes, name) in [(&itapes, "image"), (&ftapes, "frame")] {
        for i in [tapes.len() / 2, tapes.len() - 1] {
            rep.sample(json!({"kind": name, "tape": tapes[i]}));
        }
    }
    {
        let mut t = Tape::from_answers(&itapes[itapes.len() / 2]);
        if let Some(c) = image_case(&mut t) {
            let mut w = BitWriter::new();
            c.h.write(&mut w, &c.sel);
            let b = w.finish();
            rep.sample(json!({"kind": "image", "header_hex": hex(&b[..b.len().min(64)]), "fields": project_written(&c.h)}));
        }
    }
    rep.extra.insert("image_cases".into(), json!(itapes.len()));
    rep.extra.insert("frame_cases".into(), json!(ftapes.len()));
    rep.extra.insert("not_expressible".into(), json!(skipped));
    rep.extra.insert("deviation_bound_image".into(), json!(bound));
    rep.extra.insert("deviation_bound_frame".into(), json!(fbound));
    rep.exhaustive = true;
    rep.assumptions = vec![
        "jxlw::headers is the specification oracle for field order, conditions and selector tables".into(),
        "excluded as oracle-uncertain: enum colour encoding with colour space XYB; clamp for mode Mul without extra channels; extra-channel blend source when exactly one of frame/EC mode is Replace".into(),
    ];
    rep.finish();
}

fn replay(path: &str) -> ! {
    let s = std::fs::read_to_string(path).unwrap_or_else(|e| crate::explore::machinery_failure(&format!("{path}: {e}")));
    let v: serde_json::Value = serde_json::from_str(&s).unwrap();
    let tape: Vec<u32> = v["tape"].as_array().unwrap().iter().map(|x| x.as_u64().unwrap() as u32).collect();
    let mut t = Tape::from_answers(&tape);
    let r = if v["kind"] == "image" {
        image_case(&mut t).map(|c| {
            println!("fields written: {:?}", project_written(&c.h));
            run_image_case(&c)
        })
    } else {
        frame_case(&mut t).map(|c| {
            println!("fields written: {:?}", project_frame_written(&c.img, &c.fh));
            run_frame_case(&c)
        })
    };
    match r {
        None | Some(Ok(())) => {
            println!("replay: property holds on this case");
            std::process::exit(0)
        }
        Some(Err((k, w))) => {
            println!("VIOLATION property=C14 replay={path}\n  key={k} :: {w}");
            std::process::exit(1)
        }
    }
}
