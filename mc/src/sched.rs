//! E3 — cooperative scheduler for real threads: exactly one controlled thread runs at a time; the
//! scheduling points are the lock / condvar operations of `jxl_render::verif_sync`.  The schedule is a
//! choice tape, so `explore::explore` enumerates all schedules within a deviation bound.

use crate::explore::Tape;
use jxl_render::verif_sync::SyncHooks;
use std::cell::Cell;
use std::collections::HashMap;
use std::sync::{Arc, Condvar, Mutex};
use std::time::{Duration, Instant};

#[derive(Clone, Debug, PartialEq)]
enum Status {
    NotStarted,
    Runnable,
    WantLock(usize),
    WaitCv(usize, usize),
    WantRelock(usize),
    Finished,
}

struct Inner {
    status: Vec<Status>,
    names: Vec<String>,
    current: Option<usize>,
    owner: HashMap<usize, usize>,
    tape: Tape,
    trace: Vec<String>,
    deadlock: Option<String>,
    abort: bool,
    done: bool,
    progress: u64,
    render_active: HashMap<usize, usize>,
    render_runs: HashMap<usize, usize>,
    protocol_violations: Vec<String>,
    points: usize,
    /// canonical small ids for mutex / condvar addresses
    ids: HashMap<usize, usize>,
    states: Vec<String>,
}

pub struct Sched {
    inner: Mutex<Inner>,
    cv: Condvar,
    observer: Mutex<Option<Box<dyn Fn() -> String + Send + Sync>>>,
}

thread_local! {
    static TID: Cell<Option<usize>> = const { Cell::new(None) };
    static CUR: std::cell::RefCell<Option<Arc<Sched>>> = const { std::cell::RefCell::new(None) };
}

/// Global hook object: routes every callback to the scheduler that owns the calling thread, so that
/// independent explorations can run in parallel in one process.
pub struct Router;

fn cur() -> Option<Arc<Sched>> {
    CUR.with(|c| c.borrow().clone())
}

impl SyncHooks for Router {
    fn controlled(&self) -> bool {
        TID.with(|t| t.get()).is_some()
    }
    fn lock(&self, mutex: usize) {
        if let Some(s) = cur() {
            Hooks(s).lock(mutex)
        }
    }
    fn unlock(&self, mutex: usize) {
        if let Some(s) = cur() {
            Hooks(s).unlock(mutex)
        }
    }
    fn wait(&self, condvar: usize, mutex: usize) {
        if let Some(s) = cur() {
            Hooks(s).wait(condvar, mutex)
        }
    }
    fn notify_all(&self, condvar: usize) {
        if let Some(s) = cur() {
            Hooks(s).notify_all(condvar)
        }
    }
    fn notify_one(&self, condvar: usize) {
        if let Some(s) = cur() {
            Hooks(s).notify_one(condvar)
        }
    }
    fn render_op(&self, frame_idx: usize, enter: bool) {
        if let Some(s) = cur() {
            Hooks(s).render_op(frame_idx, enter)
        }
    }
}

/// A scheduling point for an operation that is atomic in itself (hook H7): the calling controlled thread may be
/// preempted before it.
pub fn atomic_point(id: usize) {
    let r = Router;
    if r.controlled() {
        r.lock(id);
        r.unlock(id);
    }
}

pub fn install_router() {
    jxl_render::verif_sync::set_hooks(Some(Arc::new(Router)));
}

pub struct Outcome {
    pub tape: Tape,
    pub trace: Vec<String>,
    pub deadlock: Option<String>,
    pub protocol_violations: Vec<String>,
    pub render_runs: HashMap<usize, usize>,
    pub points: usize,
    pub states: Vec<String>,
}

const ABORT_MSG: &str = "verif-sched-abort";

impl Sched {
    pub fn new(tape: Tape) -> Arc<Sched> {
        Arc::new(Sched {
            inner: Mutex::new(Inner {
                status: vec![],
                names: vec![],
                current: None,
                owner: HashMap::new(),
                tape,
                trace: vec![],
                deadlock: None,
                abort: false,
                done: false,
                progress: 0,
                render_active: HashMap::new(),
                render_runs: HashMap::new(),
                protocol_violations: vec![],
                points: 0,
                ids: HashMap::new(),
                states: vec![],
            }),
            cv: Condvar::new(),
            observer: Mutex::new(None),
        })
    }

    /// Observer producing an abstract state string of the subject (called at scheduling points).
    pub fn set_observer(&self, f: Box<dyn Fn() -> String + Send + Sync>) {
        *self.observer.lock().unwrap() = Some(f);
    }

    fn small_id(g: &mut Inner, addr: usize) -> usize {
        let n = g.ids.len();
        *g.ids.entry(addr).or_insert(n)
    }

    fn enabled(g: &Inner, me: Option<usize>) -> Vec<usize> {
        let ok = |i: usize| match &g.status[i] {
            Status::NotStarted | Status::Runnable => true,
            Status::WantLock(m) | Status::WantRelock(m) => !g.owner.contains_key(m),
            Status::WaitCv(..) | Status::Finished => false,
        };
        let mut v = vec![];
        if let Some(me) = me {
            if ok(me) {
                v.push(me);
            }
        }
        for i in 0..g.status.len() {
            if Some(i) != me && ok(i) {
                v.push(i);
            }
        }
        v
    }

    /// Called by thread `me` (holding the baton) at a scheduling point, with its new status already set.
    fn reschedule(&self, me: usize) {
        let obs = {
            let o = self.observer.lock().unwrap();
            o.as_ref().map(|f| f())
        };
        let mut g = self.inner.lock().unwrap();
        g.points += 1;
        g.progress += 1;
        if let Some(o) = obs {
            let st = format!("{o} | {}", g.status.iter().map(|s| format!("{:?}", s).split('(').next().unwrap().to_string()).collect::<Vec<_>>().join(","));
            g.states.push(st);
        }
        let en = Self::enabled(&g, Some(me));
        if en.is_empty() {
            if g.status.iter().all(|s| *s == Status::Finished) {
                g.done = true;
                g.current = None;
                self.cv.notify_all();
                return;
            }
            let desc = g.status.iter().enumerate().map(|(i, s)| format!("{}={:?}", g.names[i], s)).collect::<Vec<_>>().join(" ");
            g.deadlock = Some(desc);
            g.abort = true;
            g.current = None;
            self.cv.notify_all();
            let finished = g.status[me] == Status::Finished;
            drop(g);
            if finished {
                return;
            }
            std::panic::panic_any(ABORT_MSG);
        }
        let pick = if en.len() == 1 { 0 } else { g.tape.choose(en.len() as u32) as usize };
        let next = en[pick];
        let line = format!("{} -> {} [{:?}]", g.names[me], g.names[next], g.status[me]);
        g.trace.push(line);
        g.current = Some(next);
        self.cv.notify_all();
        if next == me || g.status[me] == Status::Finished {
            return;
        }
        loop {
            if g.abort {
                drop(g);
                std::panic::panic_any(ABORT_MSG);
            }
            if g.current == Some(me) {
                return;
            }
            g = self.cv.wait(g).unwrap();
        }
    }

    /// Spawns a controlled thread.  It does not run until `run` hands it the baton.
    pub fn spawn<F: FnOnce() + Send + 'static>(self: &Arc<Self>, name: &str, f: F) -> std::thread::JoinHandle<()> {
        let id = {
            let mut g = self.inner.lock().unwrap();
            g.status.push(Status::NotStarted);
            g.names.push(name.to_string());
            g.status.len() - 1
        };
        let s = Arc::clone(self);
        std::thread::Builder::new()
            .name(format!("sched-{name}"))
            .spawn(move || {
                TID.with(|t| t.set(Some(id)));
                CUR.with(|c| *c.borrow_mut() = Some(Arc::clone(&s)));
                {
                    let mut g = s.inner.lock().unwrap();
                    loop {
                        if g.abort {
                            return;
                        }
                        if g.current == Some(id) {
                            break;
                        }
                        g = s.cv.wait(g).unwrap();
                    }
                    g.status[id] = Status::Runnable;
                }
                let r = std::panic::catch_unwind(std::panic::AssertUnwindSafe(f));
                if let Err(e) = r {
                    let is_abort = e.downcast_ref::<&str>().map(|m| *m == ABORT_MSG).unwrap_or(false);
                    let mut g = s.inner.lock().unwrap();
                    if !is_abort {
                        let m = crate::util::panic_message(&e);
                        let nm = g.names[id].clone();
                        g.protocol_violations.push(format!("thread {nm} panicked: {m}"));
                    }
                    g.status[id] = Status::Finished;
                    if g.abort {
                        return;
                    }
                    drop(g);
                    s.reschedule(id);
                    return;
                }
                {
                    let mut g = s.inner.lock().unwrap();
                    g.status[id] = Status::Finished;
                }
                s.reschedule(id);
            })
            .expect("spawn")
    }

    /// Runs all spawned threads to completion (or deadlock) under the schedule of the tape.
    pub fn run(self: &Arc<Self>, handles: Vec<std::thread::JoinHandle<()>>) -> Outcome {
        {
            let mut g = self.inner.lock().unwrap();
            let en = Self::enabled(&g, None);
            if en.is_empty() {
                g.done = true;
            } else {
                let pick = if en.len() == 1 { 0 } else { g.tape.choose(en.len() as u32) as usize };
                g.current = Some(en[pick]);
                let line = format!("start -> {}", g.names[en[pick]]);
                g.trace.push(line);
            }
            self.cv.notify_all();
        }
        // wait for completion with a no-progress watchdog
        let mut last = (0u64, Instant::now());
        loop {
            let g = self.inner.lock().unwrap();
            if g.done || g.abort {
                break;
            }
            let (g, _) = self.cv.wait_timeout(g, Duration::from_millis(200)).unwrap();
            if g.done || g.abort {
                break;
            }
            if g.progress != last.0 {
                last = (g.progress, Instant::now());
            } else if last.1.elapsed() > Duration::from_secs(60) {
                let desc = format!("{:?} trace tail {:?}", g.status, g.trace.iter().rev().take(5).collect::<Vec<_>>());
                drop(g);
                crate::explore::machinery_failure(&format!("scheduler watchdog: no scheduling point reached for 60 s (uncontrolled blocking?) {desc}"));
            }
        }
        for h in handles {
            let _ = h.join();
        }
        let mut g = self.inner.lock().unwrap();
        Outcome {
            tape: std::mem::take(&mut g.tape),
            trace: std::mem::take(&mut g.trace),
            deadlock: g.deadlock.clone(),
            protocol_violations: std::mem::take(&mut g.protocol_violations),
            render_runs: g.render_runs.clone(),
            points: g.points,
            states: std::mem::take(&mut g.states),
        }
    }
}

pub struct Hooks(pub Arc<Sched>);

impl SyncHooks for Hooks {
    fn controlled(&self) -> bool {
        TID.with(|t| t.get()).is_some()
    }

    fn lock(&self, mutex: usize) {
        let me = TID.with(|t| t.get()).unwrap();
        {
            let mut g = self.0.inner.lock().unwrap();
            let m = Sched::small_id(&mut g, mutex);
            g.status[me] = Status::WantLock(m);
        }
        self.0.reschedule(me);
        let mut g = self.0.inner.lock().unwrap();
        let m = Sched::small_id(&mut g, mutex);
        if let Some(o) = g.owner.get(&m) {
            let msg = format!("scheduler granted mutex {m} to {} while owned by {}", me, o);
            drop(g);
            crate::explore::machinery_failure(&msg);
        }
        g.owner.insert(m, me);
        g.status[me] = Status::Runnable;
    }

    fn unlock(&self, mutex: usize) {
        let mut g = self.0.inner.lock().unwrap();
        let m = Sched::small_id(&mut g, mutex);
        g.owner.remove(&m);
    }

    fn wait(&self, condvar: usize, mutex: usize) {
        let me = TID.with(|t| t.get()).unwrap();
        {
            let mut g = self.0.inner.lock().unwrap();
            let m = Sched::small_id(&mut g, mutex);
            let c = Sched::small_id(&mut g, condvar);
            g.owner.remove(&m);
            g.status[me] = Status::WaitCv(c, m);
        }
        self.0.reschedule(me);
        let mut g = self.0.inner.lock().unwrap();
        let m = Sched::small_id(&mut g, mutex);
        g.owner.insert(m, me);
        g.status[me] = Status::Runnable;
    }

    fn notify_all(&self, condvar: usize) {
        let mut g = self.0.inner.lock().unwrap();
        let c = Sched::small_id(&mut g, condvar);
        for s in g.status.iter_mut() {
            if let Status::WaitCv(cc, m) = s {
                if *cc == c {
                    *s = Status::WantRelock(*m);
                }
            }
        }
    }

    fn notify_one(&self, condvar: usize) {
        let mut g = self.0.inner.lock().unwrap();
        let c = Sched::small_id(&mut g, condvar);
        let waiters: Vec<usize> = (0..g.status.len()).filter(|&i| matches!(g.status[i], Status::WaitCv(cc, _) if cc == c)).collect();
        if waiters.is_empty() {
            return;
        }
        let k = if waiters.len() == 1 { 0 } else { g.tape.choose(waiters.len() as u32) as usize };
        let w = waiters[k];
        if let Status::WaitCv(_, m) = g.status[w] {
            g.status[w] = Status::WantRelock(m);
        }
    }

    fn render_op(&self, frame_idx: usize, enter: bool) {
        let mut g = self.0.inner.lock().unwrap();
        if enter {
            *g.render_runs.entry(frame_idx).or_insert(0) += 1;
            let a = g.render_active.entry(frame_idx).or_insert(0);
            *a += 1;
            if *a > 1 {
                g.protocol_violations.push(format!("frame {frame_idx}: two executions of the render operation at the same time"));
            }
        } else if let Some(a) = g.render_active.get_mut(&frame_idx) {
            *a = a.saturating_sub(1);
        }
    }
}
