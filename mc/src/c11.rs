//! C11 — every prefix means "need more data": every cut position of every corpus stream with a
//! render attempt at the cut, pairs of cuts with render attempts at any subset, final result
//! compared with the one-shot decode.

use crate::c09::{compare, real_file};
use crate::corpus::corpus;
use crate::explore::{n_threads, par_map};
use crate::feed::*;
use crate::report::{fnv, hex, unhex, Report};
use serde_json::json;

pub fn judge(whole: &Obs, r: &FeedResult, dims: (u32, u32)) -> Option<(String, String)> {
    // feeding / initialisation never errs on a prefix of a valid stream, final result unchanged
    if let Some((k, w)) = compare(whole, r) {
        return Some((k, w));
    }
    for (i, (_init, lr)) in r.at_cut.iter().enumerate() {
        match lr {
            LoadingRender::OtherError(e) => {
                return Some((format!("loading-render-error:{}", e.split(':').next().unwrap_or("")), format!("render_loading_frame at cut #{i} failed with a non-'need more data' error: {e}")))
            }
            LoadingRender::Image(w, h) => {
                if (*w as u32, *h as u32) != dims {
                    return Some(("loading-render-dims".into(), format!("render_loading_frame at cut #{i} returned {w}x{h}, image is {}x{}", dims.0, dims.1)));
                }
            }
            _ => {}
        }
    }
    None
}

pub fn main(args: &crate::Args) {
    crate::util::install_panic_hook();
    if let Some(p) = &args.replay {
        replay(p);
    }
    let mut rep = Report::new("C11", &args.tier, "model_checking");
    let quick = rep.is_quick();
    let items = corpus();
    let mut jobs: Vec<(usize, Vec<usize>, Vec<bool>)> = Vec::new();
    let mut wholes: Vec<Option<(Obs, (u32, u32))>> = Vec::new();
    for (ii, it) in items.iter().enumerate() {
        let w = read_whole(&it.bytes).ok().filter(|o| o.done);
        let dims = oriented_dims(&it.bytes);
        wholes.push(w.map(|o| (o, dims)));
        if wholes[ii].is_none() {
            continue;
        }
        let n = it.bytes.len();
        let stride = if quick && n > 1200 { (n / 300).max(1) } else { 1 };
        // every cut in the first 200 bytes (image header, first frame header, TOC and its permutation) and around
        // every frame start, whatever the stride used for the bulk of a large stream
        let mut dense: std::collections::BTreeSet<usize> = (1..n.min(200)).collect();
        if let Some((o, _)) = &wholes[ii] {
            for off in o.offsets.iter().flatten() {
                for c in off.saturating_sub(3)..=(off + 40).min(n - 1) {
                    if c >= 1 {
                        dense.insert(c);
                    }
                }
            }
        }
        let mut c = 1;
        while c < n {
            dense.insert(c);
            c += stride;
        }
        for c in dense {
            jobs.push((ii, vec![c], vec![true]));
        }
        // pairs of cuts with render attempts at every subset of the two cut points
        let lim = if quick { 80 } else { 160 };
        if n <= lim {
            for a in 1..n {
                for b in a + 1..n {
                    for mask in 1..4u32 {
                        jobs.push((ii, vec![a, b], vec![mask & 1 != 0, mask & 2 != 0]));
                    }
                }
            }
        } else if n <= 1500 {
            // larger streams: pairs on a coarse grid plus (c, c+1)
            let g = if quick { 12 } else { 40 };
            let grid: Vec<usize> = (1..g).map(|i| n * i / g).filter(|&c| c > 0 && c < n).collect();
            for (i, &a) in grid.iter().enumerate() {
                for &b in &grid[i + 1..] {
                    jobs.push((ii, vec![a, b], vec![true, true]));
                }
            }
            let mut c = 1;
            while c + 1 < n {
                jobs.push((ii, vec![c, c + 1], vec![true, true]));
                c += stride.max(if quick { 3 } else { 1 });
            }
        }
        // byte at a time with a render attempt after every byte (small streams)
        if n <= 400 {
            jobs.push((ii, (1..n).collect(), vec![true; n - 1]));
        }
    }
    let n_synth = jobs.len();
    // the libjxl-encoded file, once as shipped (container) and once as the bare codestream extracted with the
    // reference demuxer (so that frame offsets are file offsets)
    let real_c = real_file();
    let real_b: Option<Vec<u8>> = real_c.as_ref().and_then(|f| {
        if f.starts_with(&jxlw::container::CONTAINER_SIG) {
            match jxlw::container::reference_demux(f) {
                jxlw::container::Demux::Ok { codestream, .. } => Some(codestream),
                _ => None,
            }
        } else {
            Some(f.clone())
        }
    });
    let reals: Vec<Vec<u8>> = [real_c.clone(), real_b].into_iter().flatten().collect();
    let mut real_wholes: Vec<(Obs, (u32, u32))> = Vec::new();
    for (ri, rb) in reals.iter().enumerate() {
        let o = read_whole(rb).unwrap_or_else(|e| crate::explore::machinery_failure(&format!("cmyk_layers.jxl: {e}")));
        let mut cuts: Vec<usize> = Vec::new();
        let delta = if ri == 0 { reals[0].len() - reals[reals.len() - 1].len() } else { 0 };
        for off in o.offsets.iter().flatten() {
            // around every frame start, in file coordinates (container overhead = delta bytes, all before the codestream
            // payload for this file) and in codestream coordinates
            for base in [*off, *off + delta] {
                for d in -3i64..=3 {
                    let c = base as i64 + d;
                    if c > 0 && (c as usize) < rb.len() {
                        cuts.push(c as usize);
                    }
                }
            }
        }
        // every byte of the last 40 bytes before the first frame (end of the embedded ICC stream)
        if let Some(Some(f0)) = o.offsets.first() {
            for base in [*f0, *f0 + delta] {
                for d in 1..40usize {
                    if base > d && base - d < rb.len() {
                        cuts.push(base - d);
                    }
                }
            }
        }
        let k = if quick { 24 } else { 64 };
        for i in 1..k {
            cuts.push(rb.len() * i / k);
        }
        cuts.sort();
        cuts.dedup();
        real_wholes.push((o, oriented_dims(rb)));
        for c in cuts {
            jobs.push((usize::MAX - ri, vec![c], vec![true]));
        }
    }
    let results = par_map(&jobs, n_threads(), |j, (ii, cuts, render_at)| {
        let (bytes, whole): (&[u8], &(Obs, (u32, u32))) = if *ii >= usize::MAX - 1 { (&reals[usize::MAX - *ii], &real_wholes[usize::MAX - *ii]) } else { (&items[*ii].bytes, wholes[*ii].as_ref().unwrap()) };
        let want_trace = (j % 7 == 0 || cuts.len() > 2) && bytes.len() < 100_000;
        let _ = jxl_render::verif_sync::take_requests_in_pool_jobs(true);
        let r = feed(bytes, cuts, render_at, want_trace);
        // the loading-frame path spawns its own background renders: none of them, and no pool body, may request (and
        // wait for) another frame's render (see C07)
        let in_job = jxl_render::verif_sync::take_requests_in_pool_jobs(true);
        let oc: Vec<String> = r
            .at_cut
            .iter()
            .map(|(init, lr)| match lr {
                LoadingRender::NotAttempted => "-".to_string(),
                LoadingRender::Uninit => "uninit".into(),
                LoadingRender::Image(..) => "image".into(),
                LoadingRender::NeedMoreData(_) => "needmore".into(),
                LoadingRender::OtherError(_) => format!("error(init={init})"),
            })
            .collect();
        let mut v = judge(&whole.0, &r, whole.1);
        if v.is_none() && !in_job.is_empty() {
            v = Some(("handle-wait-in-pool-job".into(), format!("the render of frame(s) {in_job:?} was requested (a blocking wait while another thread renders it) from inside a pool job")));
        }
        (v, r.trace, oc)
    });
    for ((ii, cuts, render_at), (viol, trace, oc)) in jobs.iter().zip(&results) {
        rep.eval();
        let name = if *ii == usize::MAX { "cmyk_layers.jxl" } else if *ii == usize::MAX - 1 { "cmyk_layers.codestream" } else { items[*ii].name.as_str() };
        if cuts.len() <= 2 {
            rep.outcome(&oc.join(","));
        }
        let mut sig = name.as_bytes().to_vec();
        for c in cuts {
            sig.extend_from_slice(&c.to_le_bytes());
        }
        sig.extend(render_at.iter().map(|&b| b as u8));
        rep.nontrivial(fnv(&sig));
        for (a, e, b) in trace {
            let ha = rep.state(a);
            let hb = rep.state(b);
            rep.transition(ha, e, hb);
        }
        if let Some((k, w)) = viol {
            let bytes: &[u8] = if *ii >= usize::MAX - 1 { &reals[usize::MAX - *ii] } else { &items[*ii].bytes };
            let mut payload = if bytes.len() < 5000 { json!({"item": name, "stream_hex": hex(bytes)}) } else { json!({"item": name, "stream_file": "/repo/crates/jxl-oxide-tests/tests/cms/cmyk_layers.jxl", "demux": *ii == usize::MAX - 1}) };
            payload["cuts"] = json!(cuts);
            payload["render_at"] = json!(render_at);
            rep.violation(&format!("{k}:{name}"), &format!("{w} [{name}, cuts {:?}]", &cuts[..cuts.len().min(6)]), &payload);
        }
    }
    rep.traces_validated = jobs.len() as u64;
    rep.rule = "for every corpus stream: EVERY cut position with try_init + render_loading_frame at the cut, then the rest fed and the final decode compared with the one-shot decode; for streams up to 80 (quick) / 160 bytes every PAIR of cuts with render attempts at every non-empty subset of the two cut points, for larger ones pairs on a grid and all adjacent pairs; byte-at-a-time with a render after every byte; cmyk_layers.jxl around every frame offset, every byte of the last 24 bytes of the ICC stream, and evenly spaced cuts. Oracle: init is NeedMoreData or Ok, feeding never errs, loading render is an image of the full (oriented) dimensions or an error classified as need-more-data (unexpected EOF / IncompleteFrame / NotReady), final result identical to the one-shot decode; no frame's render is requested from inside a pool job (C07's structural oracle, here on the loading-frame path).".into();
    rep.sample(json!({"item": items[1].name, "stream_hex": hex(&items[1].bytes), "cuts": [9], "render_at": [true]}));
    rep.sample(json!({"item": items[2].name, "cuts": [5, 30], "render_at": [true, false]}));
    rep.extra.insert("synthetic_histories".into(), json!(n_synth));
    rep.extra.insert("real_file_histories".into(), json!(jobs.len() - n_synth));
    rep.exhaustive = !quick;
    rep.assumptions = vec![
        "corpus is Modular-only plus the one libjxl-encoded file; VarDCT partial rendering is not reached".into(),
        "'need more data' = jxl_render::Error with unexpected_eof(), IncompleteFrame or NotReady".into(),
    ];
    rep.finish();
}

pub fn oriented_dims(bytes: &[u8]) -> (u32, u32) {
    match jxl_oxide::JxlImage::builder().pool(jxl_oxide::JxlThreadPool::none()).read(bytes) {
        Ok(i) => (i.width(), i.height()),
        Err(_) => (0, 0),
    }
}

fn replay(path: &str) -> ! {
    let s = std::fs::read_to_string(path).unwrap_or_else(|e| crate::explore::machinery_failure(&format!("{path}: {e}")));
    let v: serde_json::Value = serde_json::from_str(&s).unwrap();
    let bytes = match v.get("stream_hex").and_then(|x| x.as_str()) {
        Some(h) => unhex(h),
        None => {
            let f = std::fs::read(v["stream_file"].as_str().unwrap()).unwrap();
            if v["demux"].as_bool().unwrap_or(false) {
                match jxlw::container::reference_demux(&f) {
                    jxlw::container::Demux::Ok { codestream, .. } => codestream,
                    _ => f,
                }
            } else {
                f
            }
        }
    };
    let cuts: Vec<usize> = v["cuts"].as_array().unwrap().iter().map(|x| x.as_u64().unwrap() as usize).collect();
    let render_at: Vec<bool> = v["render_at"].as_array().unwrap().iter().map(|x| x.as_bool().unwrap()).collect();
    let whole = read_whole(&bytes).unwrap_or_else(|e| crate::explore::machinery_failure(&format!("whole read fails: {e}")));
    let dims = oriented_dims(&bytes);
    let r1 = feed(&bytes, &cuts, &render_at, false);
    let r2 = feed(&bytes, &cuts, &render_at, false);
    let (c1, c2) = (judge(&whole, &r1, dims), judge(&whole, &r2, dims));
    if c1 != c2 {
        crate::explore::machinery_failure("replay not deterministic");
    }
    println!("at cuts: {:?}", r1.at_cut);
    match c1 {
        None => {
            println!("replay: property holds on this case");
            std::process::exit(0)
        }
        Some((k, w)) => {
            println!("VIOLATION property=C11 replay={path}\n  key={k} :: {w}");
            std::process::exit(1)
        }
    }
}
