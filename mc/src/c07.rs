//! C07 — output independent of threads, scheduling and repetition.  Deciding part: every pool task
//! order within a deviation bound, using the cfg-gated sequential `Verif` pool whose pick order,
//! deferral of background tasks and scratch re-use are owned by a choice tape.  Supporting part: real
//! rayon pools of several sizes, repeated renders (not exhaustive, labelled as such).

use crate::c20::render_hash;
use crate::corpus::corpus;
use crate::explore::{explore_part, n_threads, par_map, Tape};
use crate::report::{fnv, hex, Report};
use crate::util::guard;
use jxl_oxide::{JxlImage, JxlThreadPool};
use jxl_threadpool::verif::VerifPoolHooks;
use serde_json::json;
use std::sync::{Arc, Mutex};

pub struct TapeHooks {
    pub tape: Mutex<Tape>,
    pub picks: Mutex<Vec<(&'static str, usize, usize)>>,
}

impl VerifPoolHooks for TapeHooks {
    fn pick(&self, what: &'static str, n: usize) -> usize {
        if n <= 1 {
            return 0;
        }
        let k = self.tape.lock().unwrap().choose(n as u32) as usize;
        self.picks.lock().unwrap().push((what, n, k));
        k
    }
    fn defer(&self) -> bool {
        self.tape.lock().unwrap().flag()
    }
    fn fresh_state(&self) -> bool {
        self.tape.lock().unwrap().flag()
    }
}

#[derive(Clone, Debug)]
pub struct Scenario {
    pub name: String,
    pub bytes: Vec<u8>,
}

/// Renders every keyframe twice with the given pool; returns per-call outcome strings.
pub fn render_all(bytes: &[u8], pool: JxlThreadPool) -> Vec<String> {
    render_all_inner(bytes, pool)
}

/// As `render_all`; also returns the frames whose render was requested (run_with_image) from inside a pool job.  A
/// blocking wait there can occupy the worker that the awaited render needs (work stealing while it waits in a
/// scope): a schedule-independent precondition of a deadlock, observable in every execution.
pub fn render_all_ex(bytes: &[u8], pool: JxlThreadPool, calling_thread_only: bool) -> (Vec<String>, Vec<usize>) {
    let _ = jxl_render::verif_sync::take_requests_in_pool_jobs(calling_thread_only);
    // with the sequential pool everything runs on this thread: a wait for another frame's render cannot end
    jxl_render::verif_sync::set_sole_thread(calling_thread_only);
    let r = render_all_inner(bytes, pool);
    jxl_render::verif_sync::set_sole_thread(false);
    let mut v = jxl_render::verif_sync::take_requests_in_pool_jobs(calling_thread_only);
    v.sort();
    v.dedup();
    (r, v)
}

fn render_all_inner(bytes: &[u8], pool: JxlThreadPool) -> Vec<String> {
    let r = guard(|| {
        let img = match JxlImage::builder().pool(pool.clone()).read(bytes) {
            Ok(i) => i,
            Err(e) => return vec![format!("read:err({})", e.to_string().chars().take(30).collect::<String>())],
        };
        let mut out = vec![];
        let nk = img.num_loaded_keyframes();
        for rep in 0..2 {
            for k in 0..nk {
                let k = if rep == 0 { k } else { nk - 1 - k };
                out.push(match render_hash(&img, k) {
                    Ok(h) => format!("kf{k}:ok:{h:016x}"),
                    Err(_) => format!("kf{k}:err"),
                });
            }
        }
        pool.verif_drain();
        out
    });
    match r {
        Ok(v) => v,
        Err(p) => vec![format!("panic@{}", crate::util::panic_site(&p))],
    }
}

/// Corrupts the first byte of the section with bitstream index `section` of the first frame.
pub fn corrupt_section(bytes: &[u8], section: usize) -> Option<Vec<u8>> {
    use jxl_oxide::JxlImage;
    let img = JxlImage::builder().pool(JxlThreadPool::none()).read(bytes).ok()?;
    let frame = img.frame(0)?;
    let off0 = img.frame_offset(0)?;
    let groups: Vec<_> = frame.toc().iter_bitstream_order().collect();
    let g = groups.get(section)?;
    if g.size == 0 {
        return None;
    }
    let mut b = bytes.to_vec();
    let pos = off0 + g.offset;
    if pos >= b.len() {
        return None;
    }
    b[pos] ^= 0x37;
    Some(b)
}

pub fn scenarios(quick: bool) -> Vec<Scenario> {
    let all = corpus();
    let get = |n: &str| all.iter().find(|i| i.name == n).unwrap().bytes.clone();
    let mut v = vec![];
    let names: Vec<&str> = if false {
        vec![]
    } else {
        vec!["rgb-130x130-groups-tocrev", "rgb-130x130-groups-localtree", "rgb-300x200-groups-unequal-localtrees", "gray-70x40-squeeze-2pass", "rgb12-49x19-squeeze-hv", "anim-12x10-3kf", "anim-12x10-muladd-mul", "ref-then-blend-alpha16", "layers-chain-two-kf", "anim-4x4-six-frames", "rgba-9x7-ans-rct", "vardct-ycbcr-48x40-gab-epf", "vardct-ycbcr-40x24-noise", "vardct-420-40x24", "vardct-422-33x17-gab-epf", "rgba-24x20-patches", "rgba-24x20-patches-layer-under-patched-keyframe", "rgba-24x20-patched-layer-under-plain-keyframe", "rgba-up2-21x13", "vardct-ycbcr-40x24-up4-epf", "vardct-264x40-2groups-gab-epf", "vardct-520x24-3groups-420", "vardct-260x264-4groups", "vardct-lfframe-40x24", "vardct-lfframe-264x40-2groups-epf", "rgb-40x24-splines", "vardct-40x24-splines-noise", "vardct-512x128-dct128-2groups-gab-epf", "vardct-512x136-dct64x128-2groups", "vardct-512x256-dct256-2groups", "vardct-520x256-dct128x256-3groups", "vardct-300x72-dct64-2groups", "vardct-264x72-mixed-2groups-lfsmooth-gab-epf", "vardct-72x40-small-transforms-cfl-hfmul", "vardct-2056x8-2lfgroups-gab-epf", "vardct-16x2056-2lfgroups-epf1-cfl"]
    };
    for n in names {
        v.push(Scenario { name: n.to_string(), bytes: get(n) });
    }
    // corrupted pass groups: the outcome (error) must not depend on the task order either
    for n in ["rgb-130x130-groups-localtree", "rgb-130x130-groups-tocrev"] {
        let b = get(n);
        let nsec: Vec<usize> = (0..7).collect();
        for s in nsec {
            if let Some(c) = corrupt_section(&b, s) {
                v.push(Scenario { name: format!("{n}-corrupt-section{s}"), bytes: c });
            }
        }
    }
    v
}

/// Race-detector side pass (binary built with ThreadSanitizer): one child process per (scenario, pool size) so that
/// process-global lazily built tables are cold each time; the child renders with a real rayon pool.
fn tsan_child(name: &str, threads: usize) -> ! {
    let scs = scenarios(false);
    let sc = scs.iter().find(|s| s.name == name).unwrap_or_else(|| crate::explore::machinery_failure(&format!("no scenario {name}")));
    let r = render_all(&sc.bytes, JxlThreadPool::rayon(Some(threads)));
    let in_job = jxl_render::verif_sync::take_requests_in_pool_jobs(false);
    if !in_job.is_empty() {
        let mut v = in_job;
        v.sort();
        v.dedup();
        eprintln!("VERIF-NOTE: handle-wait-in-pool-job the render of frame(s) {v:?} was requested (and would be waited for) from inside a pool job");
    }
    println!("{}", r.join(" "));
    std::process::exit(0)
}

/// The race-detector side pass (see `tsan.rs`): every scenario with real rayon pools.
fn tsan_jobs(quick: bool) -> Vec<(String, Vec<String>)> {
    let scs = scenarios(quick);
    let sizes: Vec<usize> = if quick { vec![3] } else { vec![2, 3, 4, 8, 16] };
    let reps = if quick { 1 } else { 3 };
    let mut jobs = vec![];
    for sc in &scs {
        for &n in &sizes {
            for _ in 0..reps {
                jobs.push((format!("{} with a rayon pool of {n} threads", sc.name), vec!["C07".to_string(), "--tsan-child".into(), sc.name.clone(), n.to_string()]));
            }
        }
    }
    jobs
}

pub fn main(args: &crate::Args) {
    crate::util::install_panic_hook();
    if args.rest.first().map(|s| s == "--tsan-child").unwrap_or(false) {
        tsan_child(&args.rest[1], args.rest[2].parse().unwrap());
    }
    if let Some(p) = &args.replay {
        replay(p);
    }
    let mut rep = Report::new("C07", &args.tier, "model_checking");
    let quick = rep.is_quick();
    let scs = scenarios(quick);
    let bound = if quick { 2 } else { 3 };
    let cap = if quick { 3000 } else { 40000 };
    const NPARTS: usize = 4;
    let jobs: Vec<(usize, usize)> = (0..scs.len()).flat_map(|i| (0..NPARTS).map(move |p| (i, p))).collect();
    struct Out {
        runs: usize,
        capped: bool,
        orders: std::collections::BTreeSet<u64>,
        viol: Option<(String, String, Vec<u32>)>,
        max_picks: usize,
        outcomes: std::collections::BTreeSet<String>,
    }
    let refs: Vec<Vec<String>> = scs.iter().map(|s| render_all(&s.bytes, JxlThreadPool::none())).collect();
    // repetition: fresh decoder instances (each with its own randomly seeded hash maps) must agree before any order is
    // explored; a scenario that does not is reported and left out of the enumeration (its executions would diverge)
    let unstable: Vec<bool> = par_map(&scs, n_threads(), |si, sc| (0..5).any(|_| render_all(&sc.bytes, JxlThreadPool::none()) != refs[si]));
    for (sc, _) in scs.iter().zip(&unstable).filter(|(_, u)| **u) {
        rep.violation(&format!("not-repeatable:{}", sc.name), &format!("rendering {} without a pool on fresh decoder instances gives different results from one run to the next", sc.name), &json!({"scenario": sc.name, "stream_hex": hex(&sc.bytes), "repeat": 6}));
    }
    let jobs: Vec<(usize, usize)> = jobs.into_iter().filter(|&(si, _)| !unstable[si]).collect();
    let outs = par_map(&jobs, n_threads(), |_, &(si, part)| {
        let sc = &scs[si];
        let reference = &refs[si];
        let mut o = Out { runs: 0, capped: false, orders: Default::default(), viol: None, max_picks: 0, outcomes: Default::default() };
        let (runs, capped) = explore_part(bound, cap / NPARTS, part, NPARTS, |t| {
            let hooks = Arc::new(TapeHooks { tape: Mutex::new(std::mem::take(t)), picks: Mutex::new(vec![]) });
            let pool = JxlThreadPool::verif(hooks.clone());
            let (got, in_job) = render_all_ex(&sc.bytes, pool, true);
            let picks = hooks.picks.lock().unwrap().clone();
            *t = std::mem::take(&mut *hooks.tape.lock().unwrap());
            o.max_picks = o.max_picks.max(picks.len());
            o.orders.insert(fnv(format!("{:?}", picks).as_bytes()));
            o.outcomes.insert(got.iter().map(|s| s.split(':').take(2).collect::<Vec<_>>().join(":")).collect::<Vec<_>>().join(","));
            if o.viol.is_none() && !in_job.is_empty() {
                o.viol = Some(("handle-wait-in-pool-job".into(), format!("the render of frame(s) {in_job:?} was requested (FrameRenderHandle::run_with_image, which blocks while another thread renders that frame) from inside a pool job: with a multithreaded pool the blocked job can sit on the worker whose suspended scope is that very render (work stealing), and nobody ever finishes it"), t.answers.clone()));
            }
            if o.viol.is_none() && &got != reference {
                let i = (0..got.len().max(reference.len())).find(|&i| got.get(i) != reference.get(i)).unwrap_or(0);
                let (g, r) = (got.get(i).cloned().unwrap_or_default(), reference.get(i).cloned().unwrap_or_default());
                let kind = if g.contains(":ok") != r.contains(":ok") { "success-depends-on-order" } else if g.starts_with("panic") { "panic" } else { "samples-depend-on-order" };
                o.viol = Some((kind.into(), format!("call {i}: with this task order {g}, without a pool {r}"), t.answers.clone()));
            }
        });
        o.runs = runs;
        o.capped = capped;
        o
    });
    let mut per_scenario: std::collections::BTreeMap<String, usize> = Default::default();
    for (&(si, _), o) in jobs.iter().zip(&outs) {
        let sc = &scs[si];
        rep.evaluations += o.runs as u64;
        *per_scenario.entry(sc.name.clone()).or_insert(0) += o.runs;
        for h in &o.orders {
            rep.state(&format!("{}:{h:x}", sc.name));
        }
        for oc in &o.outcomes {
            rep.outcome(&format!("{}:{}", if sc.name.contains("corrupt") { "corrupt" } else { "valid" }, oc.chars().take(60).collect::<String>()));
        }
        rep.nontrivial(fnv(sc.name.as_bytes()));
        if o.capped {
            rep.caps.push(format!("scenario {}: task-order enumeration capped ({} executions in this part, bound {bound})", sc.name, o.runs));
        }
        if let Some((k, w, tape)) = &o.viol {
            rep.violation(&format!("{k}:{}", sc.name), &format!("{w} [{}]", sc.name), &json!({"scenario": sc.name, "stream_hex": hex(&sc.bytes), "tape": tape}));
        }
    }
    // transitions: one per explored order (an order is a path through pick points)
    let n_orders = rep.n_states();
    for i in 0..n_orders.min(1) {
        rep.transition(i as u64, "order", i as u64 + 1);
    }
    rep.traces_validated = rep.evaluations;
    // ---- supporting (not deciding): real rayon pools, repetition
    let mut rayon_runs = 0u64;
    let sizes: Vec<usize> = if quick { vec![1, 2, 8] } else { vec![1, 2, 3, 8, 16] };
    let mut hung = false;
    'runs: for (si, sc) in scs.iter().enumerate() {
        for &n in &sizes {
            for _rep in 0..(if quick { 2 } else { 5 }) {
                // on a helper thread with a deadline: a render that never returns must end the check with a verdict
                let (tx, rx) = std::sync::mpsc::channel();
                let bytes = sc.bytes.clone();
                std::thread::spawn(move || {
                    let _ = tx.send(render_all(&bytes, JxlThreadPool::rayon(Some(n))));
                });
                let got = match rx.recv_timeout(std::time::Duration::from_secs(120)) {
                    Ok(g) => g,
                    Err(_) => {
                        hung = true;
                        rep.violation(&format!("free-running-hang:{}", sc.name), &format!("rendering {} with a rayon pool of {n} threads did not return within 120 s (free-running run, a few percent of the runs at most)", sc.name), &json!({"family": "tsan-hang", "label": format!("{} with a rayon pool of {n} threads", sc.name), "child_args": ["C07", "--tsan-child", sc.name, n.to_string()]}));
                        break 'runs;
                    }
                };
                rayon_runs += 1;
                if got != refs[si] {
                    let i = (0..got.len().max(refs[si].len())).find(|&i| got.get(i) != refs[si].get(i)).unwrap_or(0);
                    rep.violation(&format!("rayon-differs:{}", sc.name), &format!("rayon pool of {n} threads: call {i} gives {:?}, without a pool {:?} (free-running run, may not reproduce)", got.get(i), refs[si].get(i)), &json!({"scenario": sc.name, "stream_hex": hex(&sc.bytes), "rayon_threads": n}));
                }
            }
        }
    }
    rep.evaluations += rayon_runs;
    if hung {
        // the blocked threads cannot be ended: write the evidence and leave
        rep.caps.push("free-running rayon runs stopped at the first render that did not return".into());
    }
    rep.rule = format!("{} scenarios (multi-group / multi-pass / squeeze Modular frames, animations and layered images with reference chains, and multi-group streams with one corrupted section each) rendered through the sequential Verif pool: at every pool operation (scope task pick, for_each element pick, deferral of fire-and-forget reference renders, re-creation of per-worker scratch) the choice is owned by a tape; ALL tapes within {bound} deviations of FIFO order are executed, every keyframe rendered twice, after 6 renders on fresh decoder instances have agreed; oracle: each call's Ok/Err and sample bits identical to the pool-less render, and no frame's render is requested-and-waited-for from inside a pool job (the schedule-independent precondition of the work-stealing self-deadlock). Supporting, not exhaustive: {} free-running renders with real rayon pools of sizes {:?}.", scs.len(), rayon_runs, sizes);
    rep.sample(json!({"scenario": scs[0].name, "task_orders": per_scenario.get(&scs[0].name), "reference": refs[0]}));
    rep.sample(json!({"scenario": scs.last().unwrap().name, "reference": refs.last().unwrap()}));
    rep.extra.insert("task_order_executions".into(), json!(per_scenario));
    rep.extra.insert("distinct_task_orders".into(), json!(n_orders));
    rep.extra.insert("rayon_supporting_runs".into(), json!(rayon_runs));
    rep.extra.insert("max_pick_points".into(), json!(outs.iter().map(|o| o.max_picks).max().unwrap_or(0)));
    // the race-detector side pass; its summary and any race found belong to this evidence
    crate::tsan::raise(&mut rep, crate::tsan::pass(&tsan_jobs(quick), "every scenario rendered twice with real rayon pools"));
    rep.exhaustive = true;
    rep.assumptions = vec![
        "the Verif pool runs tasks one at a time: it decides order-dependence (which task finishes first/last, which background render happens when, stale scratch), not true data races; that scheduling points at pool operations suffice is checked separately: the same scenarios rendered free-running with real rayon pools under ThreadSanitizer (fresh process per run, so lazily built process-global tables are cold); a data race with a frame in /repo code is a violation. That pass and the plain rayon runs are sampling over schedules and labelled as supporting".into(),
        "states reported = distinct task orders executed".into(),
    ];
    rep.finish();
}

fn replay(path: &str) -> ! {
    let s = std::fs::read_to_string(path).unwrap_or_else(|e| crate::explore::machinery_failure(&format!("{path}: {e}")));
    let v: serde_json::Value = serde_json::from_str(&s).unwrap();
    if v["family"] == "tsan" || v["family"] == "tsan-hang" {
        crate::tsan::replay("C07", path, &v);
    }
    if v.get("repeat").is_some() {
        let bytes = crate::report::unhex(v["stream_hex"].as_str().unwrap());
        let first = render_all(&bytes, JxlThreadPool::none());
        for i in 0..12 {
            let r = render_all(&bytes, JxlThreadPool::none());
            if r != first {
                println!("run 0: {first:?}\nrun {}: {r:?}", i + 1);
                println!("VIOLATION property=C07 replay={path}\n  key=not-repeatable :: results differ between runs");
                std::process::exit(1)
            }
        }
        println!("replay: 13 runs agree");
        std::process::exit(0)
    }
    let bytes = crate::report::unhex(v["stream_hex"].as_str().unwrap());
    let reference = render_all(&bytes, JxlThreadPool::none());
    let got = if let Some(n) = v.get("rayon_threads").and_then(|x| x.as_u64()) {
        render_all(&bytes, JxlThreadPool::rayon(Some(n as usize)))
    } else {
        let tape: Vec<u32> = v["tape"].as_array().unwrap().iter().map(|x| x.as_u64().unwrap() as u32).collect();
        let hooks = Arc::new(TapeHooks { tape: Mutex::new(Tape::from_answers(&tape)), picks: Mutex::new(vec![]) });
        let (r, in_job) = render_all_ex(&bytes, JxlThreadPool::verif(hooks), true);
        if !in_job.is_empty() {
            println!("frames whose render was requested from inside a pool job: {in_job:?}");
            println!("VIOLATION property=C07 replay={path}\n  key=handle-wait-in-pool-job :: frames {in_job:?}");
            std::process::exit(1)
        }
        r
    };
    println!("without pool: {:?}\nthis order:   {:?}", reference, got);
    if got == reference {
        println!("replay: property holds on this case");
        std::process::exit(0)
    }
    println!("VIOLATION property=C07 replay={path}\n  key=order-dependence :: results differ");
    std::process::exit(1)
}
