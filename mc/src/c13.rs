//! C13 — resource accounting: for every stream, every allocation limit at which the outcome can change
//! (each prefix value of the recorded allocation profile and its neighbours, 0, 1, ample) x call
//! histories ending with dropping everything.

use crate::c20::render_hash;
use crate::corpus::corpus;
use crate::explore::{n_threads, par_map};
use crate::report::{fnv, hex, Report};
use crate::util::guard;
use jxl_oxide::{AllocTracker, CropInfo, JxlImage, JxlThreadPool};
use serde_json::json;

#[derive(Clone, Debug)]
pub struct Job {
    pub item: usize,
    pub limit: usize,
    pub history: u32,
}

pub struct JobResult {
    pub outcome: String,
    pub viol: Option<(String, String)>,
    pub any_error: bool,
}

const N_HIST: u32 = 5;

pub fn run_job(bytes: &[u8], job: &Job, reference: &[u64], dims: (u32, u32)) -> JobResult {
    let limit = job.limit;
    let tracker = AllocTracker::with_limit(limit);
    let mut steps: Vec<String> = vec![];
    let mut viol: Option<(String, String)> = None;
    let t2 = tracker.clone();
    let r = guard(|| {
        let mut img = match JxlImage::builder().pool(JxlThreadPool::none()).alloc_tracker(t2.clone()).read(bytes) {
            Ok(i) => i,
            Err(e) => {
                steps.push(format!("read:err({})", e.to_string().chars().take(24).collect::<String>()));
                return;
            }
        };
        steps.push("read:ok".into());
        let nk = img.num_loaded_keyframes();
        let mut render = |img: &JxlImage, k: usize, full: bool, steps: &mut Vec<String>, viol: &mut Option<(String, String)>| {
            let refused_before = t2.verif_refused();
            match render_hash(img, k) {
                Ok(h) => {
                    if full && h != reference[k] && viol.is_none() {
                        let refused = t2.verif_refused() - refused_before;
                        *viol = Some((
                            if refused > 0 { "oom-swallowed".into() } else { "wrong-samples".into() },
                            format!("render_frame({k}) returned Ok with samples that differ from an unlimited decode; {refused} allocation(s) were refused by the limit during the call"),
                        ));
                    }
                    steps.push(format!("render{k}:ok"));
                }
                Err(e) => steps.push(format!("render{k}:err({})", e.chars().take(24).collect::<String>())),
            }
        };
        match job.history {
            0 => {
                for k in 0..nk {
                    render(&img, k, true, &mut steps, &mut viol);
                }
            }
            1 => {
                for k in (0..nk).rev() {
                    render(&img, k, true, &mut steps, &mut viol);
                    render(&img, k, true, &mut steps, &mut viol);
                }
            }
            2 => {
                img.set_image_region(CropInfo { left: 0, top: 0, width: 1.max(dims.0 / 2), height: 1.max(dims.1 / 2) });
                render(&img, 0, false, &mut steps, &mut viol);
                img.set_image_region(CropInfo { left: 0, top: 0, width: dims.0, height: dims.1 });
                for k in 0..nk {
                    render(&img, k, true, &mut steps, &mut viol);
                }
            }
            3 => {
                render(&img, nk - 1, true, &mut steps, &mut viol);
                t2.expand_limit(1 << 28);
                render(&img, nk - 1, true, &mut steps, &mut viol);
                img.set_image_region(CropInfo { left: 0, top: 0, width: dims.0, height: dims.1 });
                render(&img, nk - 1, true, &mut steps, &mut viol);
                // restore the original limit for the final budget check only if it can be shrunk back
                let _ = t2.shrink_limit(0);
                steps.push("expanded".into());
            }
            _ => {
                match img.render_loading_frame() {
                    Ok(_) => steps.push("loading:ok".into()),
                    Err(_) => steps.push("loading:err".into()),
                }
                render(&img, 0, true, &mut steps, &mut viol);
            }
        }
        // everything (image, renders) is dropped here
    });
    if let Err(p) = r {
        viol = Some((format!("panic@{}", crate::util::panic_site(&p)), format!("panic with limit {limit}: {p}")));
    }
    let expanded = steps.iter().any(|s| s == "expanded");
    let budget = if expanded { limit + (1 << 28) } else { limit };
    if viol.is_none() {
        if tracker.verif_high_water() > budget {
            viol = Some(("limit-exceeded".into(), format!("tracked total reached {} with limit {budget}", tracker.verif_high_water())));
        } else if tracker.verif_outstanding() != 0 {
            viol = Some(("leak".into(), format!("{} tracked bytes still outstanding after dropping the image and all renders", tracker.verif_outstanding())));
        } else if tracker.verif_bytes_left() != budget {
            viol = Some(("budget-not-restored".into(), format!("budget is {} after dropping everything, expected {budget}", tracker.verif_bytes_left())));
        } else if tracker.shrink_limit(budget).is_err() {
            viol = Some(("budget-not-restored".into(), "shrink_limit(full budget) fails after dropping everything".into()));
        }
    }
    let any_error = steps.iter().any(|s| s.contains(":err"));
    JobResult { outcome: steps.iter().map(|s| s.split('(').next().unwrap().to_string()).collect::<Vec<_>>().join(">"), viol, any_error }
}

/// Feeds a prefix of a stream and renders the frame that is still loading; Ok(Some(hash)) for a successful
/// loading render, Ok(None) when it reports an error, Err when the prefix does not even initialise.
fn partial_loading(prefix: &[u8], tracker: &AllocTracker) -> Result<Option<u64>, String> {
    use jxl_oxide::InitializeResult;
    let mut u = JxlImage::builder().pool(JxlThreadPool::none()).alloc_tracker(tracker.clone()).build_uninit();
    let n = u.feed_bytes(prefix).map_err(|e| format!("feed: {e}"))?;
    let mut img = match u.try_init().map_err(|e| format!("init: {e}"))? {
        InitializeResult::Initialized(i) => i,
        InitializeResult::NeedMoreData(_) => return Err("need more data".into()),
    };
    img.feed_bytes(&prefix[n..]).map_err(|e| format!("feed: {e}"))?;
    match img.render_loading_frame() {
        Ok(r) => {
            let fb = r.image_all_channels();
            let b: Vec<u8> = fb.buf().iter().flat_map(|v| v.to_bits().to_le_bytes()).collect();
            Ok(Some(fnv(&b)))
        }
        Err(_) => Ok(None),
    }
}

/// Child-process probe (see `huge_request_probe`): one tracked grid request far beyond the limit.
pub fn huge_request_child() -> ! {
    let t = AllocTracker::with_limit(1 << 20);
    let r = jxl_grid::AlignedGrid::<f32>::with_alloc_tracker(1 << 30, 1 << 12, Some(&t));
    println!("{}", if r.is_err() { "refused" } else { "admitted" });
    std::process::exit(0);
}

#[derive(Clone, Copy, Debug)]
enum TOp {
    Alloc(usize),
    DropLast,
    Expand(usize),
    Shrink(usize),
}

fn tracker_programs() -> Vec<(&'static str, usize, Vec<Vec<TOp>>)> {
    use TOp::*;
    vec![
        ("2x(alloc6,drop)/10", 10, vec![vec![Alloc(6), DropLast], vec![Alloc(6), DropLast]]),
        ("3x(alloc4,drop)/10", 10, vec![vec![Alloc(4), DropLast], vec![Alloc(4), DropLast], vec![Alloc(4), DropLast]]),
        ("(alloc6,drop,alloc6,drop)|(alloc5,drop)/10", 10, vec![vec![Alloc(6), DropLast, Alloc(6), DropLast], vec![Alloc(5), DropLast]]),
        ("(alloc3,alloc3,drop,drop)|(alloc3,alloc3,drop,drop)/8", 8, vec![vec![Alloc(3), Alloc(3), DropLast, DropLast], vec![Alloc(3), Alloc(3), DropLast, DropLast]]),
        ("(alloc7,drop)|(expand4,shrink4)/8", 8, vec![vec![Alloc(7), DropLast], vec![Expand(4), Shrink(4)]]),
        ("(alloc5,drop)|(alloc5,drop)|(shrink3,expand3)/10", 10, vec![vec![Alloc(5), DropLast], vec![Alloc(5), DropLast], vec![Shrink(3), Expand(3)]]),
    ]
}

/// One execution of a program of concurrent tracker users under the schedule of `tape` (scheduling points = the atomic
/// operations of the budget counter); returns (violation, number of admitted allocations, the tape as consumed).
fn run_tracker_program(limit: usize, prog: &[Vec<TOp>], tape: crate::explore::Tape) -> (Option<(String, String)>, usize, crate::explore::Tape) {
    use std::sync::{Arc, Mutex};
    use TOp::*;
    let tracker = AllocTracker::with_limit(limit);
    let sched = crate::sched::Sched::new(tape);
    // events in execution order (one controlled thread runs at a time): (+bytes admitted / -bytes released, limit change)
    let log: Arc<Mutex<Vec<(i64, i64)>>> = Arc::new(Mutex::new(vec![]));
    let mut hs = vec![];
    for (ti, ops) in prog.iter().enumerate() {
        let (tracker, log, ops) = (tracker.clone(), Arc::clone(&log), ops.clone());
        hs.push(sched.spawn(&format!("user{ti}"), move || {
            let mut held: Vec<(jxl_grid::AllocHandle, usize)> = vec![];
            for op in ops {
                match op {
                    Alloc(n) => {
                        if let Ok(h) = tracker.alloc::<u8>(n) {
                            log.lock().unwrap().push((n as i64, 0));
                            held.push((h, n));
                        }
                    }
                    DropLast => {
                        if let Some((h, n)) = held.pop() {
                            // released from the caller's point of view once drop has begun
                            log.lock().unwrap().push((-(n as i64), 0));
                            drop(h);
                        }
                    }
                    Expand(n) => {
                        tracker.expand_limit(n);
                        log.lock().unwrap().push((0, n as i64));
                    }
                    Shrink(n) => {
                        if tracker.shrink_limit(n).is_ok() {
                            log.lock().unwrap().push((0, -(n as i64)));
                        }
                    }
                }
            }
        }));
    }
    let out = sched.run(hs);
    let events = log.lock().unwrap().clone();
    let (mut live, mut lim, mut peak_over) = (0i64, limit as i64, None);
    for (d, dl) in events.iter() {
        live += d;
        lim += dl;
        if *d > 0 && live > lim && peak_over.is_none() {
            peak_over = Some((live, lim));
        }
    }
    let admitted = events.iter().filter(|e| e.0 > 0).count();
    let v = if let Some(d) = &out.deadlock {
        Some(("tracker-deadlock".to_string(), d.to_string()))
    } else if let Some(v) = out.protocol_violations.first() {
        Some(("tracker-panic".to_string(), v.clone()))
    } else if let Some((live, lim)) = peak_over {
        Some(("limit-exceeded-concurrently".to_string(), format!("handles of {live} bytes were live together under a limit of {lim}")))
    } else if tracker.verif_bytes_left() as i64 != lim {
        Some(("budget-lost-concurrently".to_string(), format!("after every handle was dropped the budget is {} instead of {lim}", tracker.verif_bytes_left())))
    } else {
        None
    };
    for l in &out.trace {
        if std::env::var_os("VERIF_REPLAY_MODE").is_some() {
            println!("  {l}");
        }
    }
    (v, admitted, out.tape)
}

pub fn main(args: &crate::Args) {
    crate::util::install_panic_hook();
    if args.rest.first().map(|s| s == "--huge-request-child").unwrap_or(false) {
        huge_request_child();
    }
    if let Some(p) = &args.replay {
        replay(p);
    }
    let mut rep = Report::new("C13", &args.tier, "fault_enumeration");
    let quick = rep.is_quick();
    let all = corpus();
    let mut streams: Vec<(String, Vec<u8>)> = all.iter().filter(|i| quick == false || !i.name.starts_with("container-") || i.name.contains("jxlp3-brob")).map(|i| (i.name.clone(), i.bytes.clone())).collect();
    // hostile inputs as well: the fuzz regressions of the repository (they must fail cleanly under any limit)
    if let Ok(rd) = std::fs::read_dir("/repo/crates/jxl-oxide-tests/tests/fuzz_findings") {
        let mut names: Vec<_> = rd.flatten().filter(|e| e.path().extension().map(|x| x == "fuzz").unwrap_or(false)).map(|e| e.path()).collect();
        names.sort();
        for p in names.into_iter().take(if quick { 12 } else { 60 }) {
            if let Ok(b) = std::fs::read(&p) {
                streams.push((format!("fuzz:{}", p.file_stem().unwrap().to_string_lossy()), b));
            }
        }
    }
    struct Prep {
        limits: Vec<usize>,
        reference: Vec<u64>,
        dims: (u32, u32),
        hostile: bool,
    }
    let preps: Vec<Prep> = par_map(&streams, n_threads(), |_, (name, b)| {
        let tracker = AllocTracker::with_limit(1 << 30);
        tracker.verif_enable_log();
        let mut reference = vec![];
        let mut dims = (0, 0);
        let hostile = name.starts_with("fuzz:");
        let _ = guard(|| {
            if let Ok(img) = JxlImage::builder().pool(JxlThreadPool::none()).alloc_tracker(tracker.clone()).read(&b[..]) {
                dims = (img.width(), img.height());
                for k in 0..img.num_loaded_keyframes() {
                    match render_hash(&img, k) {
                        Ok(h) => reference.push(h),
                        Err(_) => reference.push(0),
                    }
                }
            }
        });
        let log = tracker.verif_take_log();
        let mut limits: Vec<usize> = vec![0, 1, 64 << 20];
        for (before, bytes) in log {
            let need = before + bytes;
            limits.extend([need.saturating_sub(1), need, need + 1]);
        }
        limits.sort();
        limits.dedup();
        limits.retain(|&l| l <= 1 << 30);
        Prep { limits, reference, dims, hostile }
    });
    let mut jobs: Vec<Job> = vec![];
    for (ii, p) in preps.iter().enumerate() {
        let lim: Vec<usize> = if quick && p.limits.len() > 120 { p.limits.iter().step_by(p.limits.len() / 120 + 1).cloned().chain(p.limits.last().cloned()).collect() } else { p.limits.clone() };
        for &l in &lim {
            for h in 0..N_HIST {
                if p.hostile && h > 1 {
                    continue;
                }
                if p.reference.is_empty() && h != 0 {
                    continue;
                }
                jobs.push(Job { item: ii, limit: l, history: h });
            }
        }
    }
    let results = par_map(&jobs, n_threads(), |_, j| {
        let p = &preps[j.item];
        // hostile streams: Ok results are not compared (no trusted reference), only accounting / totality
        let reference: Vec<u64> = if p.hostile { vec![] } else { p.reference.clone() };
        if p.hostile {
            let mut jj = j.clone();
            jj.history = j.history;
            return run_job_hostile(&streams[j.item].1, &jj);
        }
        run_job(&streams[j.item].1, j, &reference, p.dims)
    });
    for (j, r) in jobs.iter().zip(&results) {
        rep.eval();
        rep.outcome(&r.outcome);
        if r.any_error {
            rep.nontrivial(fnv(format!("{}{}{}", j.item, j.limit, j.history).as_bytes()));
        }
        if let Some((k, w)) = &r.viol {
            let name = &streams[j.item].0;
            rep.violation(&format!("{k}:{name}"), &format!("{w} [{name}, limit {}, history {} -> {}]", j.limit, j.history, r.outcome), &json!({"item": name, "stream_hex": hex(&streams[j.item].1[..streams[j.item].1.len().min(20000)]), "limit": j.limit, "history": j.history}));
        }
    }
    // partially received streams: the frame that is still loading, rendered under every outcome-changing limit, must
    // either report an error or give the picture an unlimited loading render gives at the same cut (a refusal must not
    // be swallowed by a cheaper fallback), and the budget must come back
    {
        let wanted = ["vardct-lfframe-40x24", "vardct-lfframe-264x40-2groups-epf", "vardct-264x40-2groups-gab-epf", "rgb-130x130-groups-tocrev", "anim-12x10-3kf", "gray-70x40-squeeze-2pass", "vardct-40x24-alpha8"];
        let mut pjobs: Vec<(usize, usize, usize, u64, usize)> = vec![];
        let mut cuts_ok: std::collections::BTreeMap<String, usize> = Default::default();
        for (si, (name, bytes)) in streams.iter().enumerate() {
            if !wanted.contains(&name.as_str()) {
                continue;
            }
            for num in 2usize..20 {
                let cut = bytes.len() * num / 20;
                let t = AllocTracker::with_limit(1 << 30);
                t.verif_enable_log();
                let Ok(Ok(Some(h))) = guard(|| partial_loading(&bytes[..cut], &t)) else { continue };
                *cuts_ok.entry(name.clone()).or_insert(0usize) += 1;
                // a transient refusal (budget of a shared tracker momentarily held elsewhere): the n-th attempt alone fails
                for n in 0..t.verif_attempts() {
                    pjobs.push((si, cut, 1 << 30, h, n));
                }
                let mut limits: Vec<usize> = vec![0, 1];
                for (before, b) in t.verif_take_log() {
                    let need = before + b;
                    limits.extend([need.saturating_sub(1), need, need + 1]);
                }
                limits.sort();
                limits.dedup();
                let step = if quick && limits.len() > 400 { limits.len() / 400 + 1 } else { 1 };
                for &l in limits.iter().step_by(step) {
                    pjobs.push((si, cut, l, h, usize::MAX));
                }
            }
        }
        let pres = par_map(&pjobs, n_threads(), |_, &(si, cut, limit, want, fail_at)| -> Option<(String, String)> {
            let t = AllocTracker::with_limit(limit);
            if fail_at != usize::MAX {
                t.verif_fail_at(Some(fail_at), false);
            }
            let r = guard(|| partial_loading(&streams[si].1[..cut], &t));
            let refused = t.verif_refused() + t.verif_injected();
            match r {
                Err(p) => Some((format!("panic@{}", crate::util::panic_site(&p)), format!("panic with limit {limit}: {p}"))),
                Ok(Ok(Some(h))) if h != want => Some((if refused > 0 { "oom-swallowed-loading".to_string() } else { "loading-differs".to_string() }, format!("render_loading_frame returned Ok with a picture that differs from the unlimited loading render at the same cut; {refused} allocation(s) were refused"))),
                _ => {
                    if t.verif_outstanding() != 0 {
                        Some(("leak".into(), format!("{} tracked bytes outstanding after dropping a partially loaded image", t.verif_outstanding())))
                    } else if t.verif_bytes_left() != limit {
                        Some(("budget-not-restored".into(), format!("budget {} after dropping everything, expected {limit}", t.verif_bytes_left())))
                    } else {
                        None
                    }
                }
            }
        });
        for (j, r) in pjobs.iter().zip(pres) {
            rep.eval();
            match r {
                None => rep.outcome("partial-ok"),
                Some((k, w)) => {
                    rep.outcome("partial-bad");
                    let name = &streams[j.0].0;
                    rep.violation(&format!("{k}:{name}"), &format!("{w} [{name} cut at {} of {}, limit {}{}]", j.1, streams[j.0].1.len(), j.2, if j.4 == usize::MAX { String::new() } else { format!(", tracked attempt {} alone refused", j.4) }), &json!({"item": name, "stream_hex": hex(&streams[j.0].1), "cut": j.1, "limit": j.2, "fail_at": if j.4 == usize::MAX { -1i64 } else { j.4 as i64 }, "family": "partial"}));
                }
            }
        }
        rep.extra.insert("partial_stream_jobs".into(), json!(pjobs.len()));
        rep.extra.insert("partial_stream_cuts_with_a_loading_render".into(), json!(cuts_ok));
    }
    // a single request far beyond the limit (4 TiB under a 1 MiB budget) must be refused by the tracker before any real
    // allocation is attempted; run in a child process because the failure mode is an abort
    {
        rep.eval();
        let exe = std::env::current_exe().unwrap();
        match std::process::Command::new(exe).args(["C13", "--huge-request-child"]).output() {
            Ok(o) if o.status.success() && String::from_utf8_lossy(&o.stdout).contains("refused") => rep.outcome("huge-request-refused"),
            Ok(o) => rep.violation("huge-request", &format!("a 2^30 x 2^12 f32 grid under a 1 MiB limit: child ended with {:?}, stdout {:?}, stderr {:?}", o.status, String::from_utf8_lossy(&o.stdout).trim(), String::from_utf8_lossy(&o.stderr).lines().last().unwrap_or("")), &json!({"family": "huge-request"})),
            Err(e) => crate::explore::machinery_failure(&format!("cannot start the probe child: {e}")),
        }
    }
    // concurrent users of one tracker: every interleaving of 2-3 threads at the granularity of the counter's atomic
    // operations (hook H7 + the cooperative scheduler); oracle: handles that are live together never exceed the limit,
    // and once every handle is dropped the whole budget is back
    {
        crate::sched::install_router();
        jxl_grid::verif_atomic::set_hook(Some(std::sync::Arc::new(|addr| crate::sched::atomic_point(addr))));
        let mut schedules = 0u64;
        let mut outcomes: std::collections::BTreeSet<String> = Default::default();
        for (pname, limit, prog) in &tracker_programs() {
            let mut viol: Option<(String, String, Vec<u32>)> = None;
            let (runs, capped) = crate::explore::explore(64, 200_000, |tape| {
                let (v, admitted, t2) = run_tracker_program(*limit, prog, std::mem::take(tape));
                outcomes.insert(format!("{pname}:{admitted}"));
                if viol.is_none() {
                    if let Some((k, w)) = v {
                        viol = Some((k, w, t2.answers.clone()));
                    }
                }
                *tape = t2;
            });
            schedules += runs as u64;
            rep.evaluations += runs as u64;
            if capped {
                rep.caps.push(format!("concurrent tracker program {pname}: schedule enumeration capped at {runs}"));
            }
            if let Some((k, w, tape)) = viol {
                rep.violation(&format!("{k}:{pname}"), &format!("{w} [program {pname}]"), &json!({"family": "concurrent-tracker", "program": pname, "schedule_tape": tape}));
            }
        }
        jxl_grid::verif_atomic::set_hook(None);
        rep.extra.insert("concurrent_tracker_schedules".into(), json!(schedules));
        rep.extra.insert("concurrent_tracker_outcomes".into(), json!(outcomes.len()));
    }
    // accounting arithmetic of the tracker itself, against sizes computed here: for element types whose size, alignment
    // and padding differ, every count around a limit must be admitted / refused by exactly size_of::<T>() * count bytes
    {
        fn probe<T>(name: &str, rep: &mut Report) {
            let sz = std::mem::size_of::<T>();
            for count in [0usize, 1, 2, 3, 7, 64, 1000, 65537] {
                let need = sz * count;
                for (limit, must_fit) in [(need, true), (need.saturating_sub(1), need == 0), (need + 1, true), (need / 2, need / 2 >= need)] {
                    rep.eval();
                    let t = jxl_grid::AllocTracker::with_limit(limit);
                    let r = t.alloc::<T>(count);
                    let ok = r.is_ok();
                    let left_during = t.verif_bytes_left();
                    drop(r);
                    let left_after = t.verif_bytes_left();
                    if ok != must_fit {
                        rep.violation(&format!("tracker-arithmetic:{name}"), &format!("alloc::<{name}>({count}) needs {need} bytes (size_of = {sz}); with a budget of {limit} it {}", if ok { "was admitted" } else { "was refused" }), &serde_json::json!({"type": name, "count": count, "limit": limit}));
                    } else if ok && left_during != limit - need {
                        rep.violation(&format!("tracker-charge:{name}"), &format!("alloc::<{name}>({count}) charged {} bytes instead of {need}", limit - left_during), &serde_json::json!({"type": name, "count": count, "limit": limit}));
                    } else if left_after != limit {
                        rep.violation(&format!("tracker-release:{name}"), &format!("after dropping alloc::<{name}>({count}) the budget is {left_after}, not {limit}"), &serde_json::json!({"type": name, "count": count, "limit": limit}));
                    } else {
                        rep.outcome("tracker-arithmetic-ok");
                    }
                }
            }
        }
        probe::<u8>("u8", &mut rep);
        probe::<i16>("i16", &mut rep);
        probe::<f32>("f32", &mut rep);
        probe::<u64>("u64", &mut rep);
        probe::<[u8; 3]>("[u8;3]", &mut rep);
        probe::<[u16; 5]>("[u16;5]", &mut rep);
        probe::<[f32; 4]>("[f32;4]", &mut rep);
        probe::<(u32, u8)>("(u32,u8)", &mut rep);
        probe::<[u64; 3]>("[u64;3]", &mut rep);
    }
    rep.rule = format!("{} streams (jxlw corpus incl. multi-group with local trees, animations, layers; {} hostile fuzz regressions): the allocation profile of an unlimited decode+render is recorded (cfg-gated log of every tracked attempt) and the limit L takes EVERY value at which an outcome can change (outstanding+request of every attempt, -1 and +1; 0; 1; ample){} x 5 call histories (render every keyframe; render each twice in reverse; small region then full; fail, expand the limit, re-request the region, render; loading frame then render), all ending with dropping every object; oracle: no panic, tracked high-water <= L, an Ok render equals the unlimited render (a refused allocation must not be swallowed), after dropping everything outstanding = 0 and the full budget can be shrunk away. Plus ALL interleavings (at the counter's atomic operations) of 6 small programs of 2-3 threads that allocate, drop, expand and shrink on one shared tracker (live handles never exceed the limit, full budget back at the end); partially received streams (7 streams x 18 cut points (10 %..95 % of the bytes) x (every outcome-changing limit + every single tracked attempt refused alone, modelling budget of a shared tracker momentarily held elsewhere): the loading render errs or equals the unlimited loading render; budget restored), one 4 TiB request under a 1 MiB budget in a child process (must be refused, not attempted), and the tracker's own arithmetic: alloc::<T>(count) for 9 element types (size != alignment, padded tuples) x 8 counts x limits (exact, -1, +1, half) must be admitted / refused, charged and released by exactly size_of::<T>() * count bytes. Non-trivial = at least one call returned an error; distinct by (stream, limit, history).", streams.len(), streams.iter().filter(|s| s.0.starts_with("fuzz:")).count(), if quick { " (quick: at most ~120 limits per stream, evenly spaced over the sorted set)" } else { "" });
    rep.sample(json!({"item": streams[1].0, "limits": preps[1].limits.iter().take(12).collect::<Vec<_>>(), "histories": N_HIST}));
    rep.sample(json!({"item": streams.last().unwrap().0, "limits": preps.last().unwrap().limits.len()}));
    rep.extra.insert("limits_per_stream".into(), json!(streams.iter().zip(&preps).map(|(s, p)| (s.0.clone(), p.limits.len())).collect::<std::collections::BTreeMap<_, _>>()));
    rep.exhaustive = !quick;
    rep.assumptions = vec!["only AllocTracker-tracked memory is governed by the limit; plain heap allocations are outside the property as stated".into(), "pool = none".into()];
    rep.finish();
}

fn run_job_hostile(bytes: &[u8], job: &Job) -> JobResult {
    let limit = job.limit;
    let tracker = AllocTracker::with_limit(limit);
    let t2 = tracker.clone();
    let mut steps = vec![];
    let r = guard(|| {
        match JxlImage::builder().pool(JxlThreadPool::none()).alloc_tracker(t2.clone()).read(bytes) {
            Ok(img) => {
                steps.push("read:ok".to_string());
                for k in 0..img.num_loaded_keyframes().min(3) {
                    for _ in 0..=job.history {
                        match img.render_frame(k) {
                            Ok(_) => steps.push(format!("render{k}:ok")),
                            Err(_) => steps.push(format!("render{k}:err")),
                        }
                    }
                }
            }
            Err(_) => steps.push("read:err".into()),
        }
    });
    let mut viol = None;
    if let Err(p) = r {
        viol = Some((format!("panic@{}", crate::util::panic_site(&p)), format!("panic with limit {limit}: {p}")));
    } else if tracker.verif_high_water() > limit {
        viol = Some(("limit-exceeded".into(), format!("tracked total reached {} with limit {limit}", tracker.verif_high_water())));
    } else if tracker.verif_outstanding() != 0 || tracker.verif_bytes_left() != limit {
        viol = Some(("leak".into(), format!("outstanding {} / budget {} of {limit} after dropping everything", tracker.verif_outstanding(), tracker.verif_bytes_left())));
    }
    let any_error = steps.iter().any(|s| s.contains(":err"));
    JobResult { outcome: steps.join(">"), viol, any_error }
}

fn replay(path: &str) -> ! {
    let s = std::fs::read_to_string(path).unwrap_or_else(|e| crate::explore::machinery_failure(&format!("{path}: {e}")));
    let v: serde_json::Value = serde_json::from_str(&s).unwrap();
    if v["family"] == "huge-request" {
        let exe = std::env::current_exe().unwrap();
        let o = std::process::Command::new(exe).args(["C13", "--huge-request-child"]).output().unwrap();
        let ok = o.status.success() && String::from_utf8_lossy(&o.stdout).contains("refused");
        println!("child: {:?} {}", o.status, String::from_utf8_lossy(&o.stdout).trim());
        if ok {
            println!("replay: property holds on this case");
            std::process::exit(0)
        }
        println!("VIOLATION property=C13 replay={path}\n  key=huge-request");
        std::process::exit(1)
    }
    if v["family"] == "concurrent-tracker" {
        crate::sched::install_router();
        jxl_grid::verif_atomic::set_hook(Some(std::sync::Arc::new(|addr| crate::sched::atomic_point(addr))));
        let name = v["program"].as_str().unwrap();
        let tape: Vec<u32> = v["schedule_tape"].as_array().unwrap().iter().map(|x| x.as_u64().unwrap() as u32).collect();
        let (_, limit, prog) = tracker_programs().into_iter().find(|p| p.0 == name).unwrap_or_else(|| crate::explore::machinery_failure("unknown tracker program"));
        let (r, _, _) = run_tracker_program(limit, &prog, crate::explore::Tape::from_answers(&tape));
        match r {
            None => {
                println!("replay: property holds on this schedule");
                std::process::exit(0)
            }
            Some((k, w)) => {
                println!("VIOLATION property=C13 replay={path}\n  key={k} :: {w}");
                std::process::exit(1)
            }
        }
    }
    if v["family"] == "partial" {
        let bytes = crate::report::unhex(v["stream_hex"].as_str().unwrap());
        let cut = v["cut"].as_u64().unwrap() as usize;
        let limit = v["limit"].as_u64().unwrap() as usize;
        let fail_at = v["fail_at"].as_i64().unwrap();
        let t0 = AllocTracker::with_limit(1 << 30);
        let want = partial_loading(&bytes[..cut], &t0);
        let t = AllocTracker::with_limit(limit);
        if fail_at >= 0 {
            t.verif_fail_at(Some(fail_at as usize), false);
        }
        let got = partial_loading(&bytes[..cut], &t);
        println!("unlimited: {want:?}\nwith the fault: {got:?} (refused {}, injected {}, outstanding after drop {}, budget {})", t.verif_refused(), t.verif_injected(), t.verif_outstanding(), t.verif_bytes_left());
        let bad = matches!((&want, &got), (Ok(Some(a)), Ok(Some(b))) if a != b) || t.verif_outstanding() != 0 || t.verif_bytes_left() != limit;
        if !bad {
            println!("replay: property holds on this case");
            std::process::exit(0)
        }
        println!("VIOLATION property=C13 replay={path}\n  key={}", v["key"].as_str().unwrap_or("partial"));
        std::process::exit(1)
    }
    let name = v["item"].as_str().unwrap();
    let job = Job { item: 0, limit: v["limit"].as_u64().unwrap() as usize, history: v["history"].as_u64().unwrap() as u32 };
    let bytes = if let Some(n) = name.strip_prefix("fuzz:") { std::fs::read(format!("/repo/crates/jxl-oxide-tests/tests/fuzz_findings/{n}.fuzz")).unwrap() } else { crate::report::unhex(v["stream_hex"].as_str().unwrap()) };
    let r = if name.starts_with("fuzz:") {
        run_job_hostile(&bytes, &job)
    } else {
        let img = JxlImage::builder().pool(JxlThreadPool::none()).read(&bytes[..]).unwrap();
        let reference: Vec<u64> = (0..img.num_loaded_keyframes()).map(|k| render_hash(&img, k).unwrap()).collect();
        let dims = (img.width(), img.height());
        drop(img);
        run_job(&bytes, &job, &reference, dims)
    };
    println!("outcome: {}", r.outcome);
    match r.viol {
        None => {
            println!("replay: property holds on this case");
            std::process::exit(0)
        }
        Some((k, w)) => {
            println!("VIOLATION property=C13 replay={path}\n  key={k} :: {w}");
            std::process::exit(1)
        }
    }
}
