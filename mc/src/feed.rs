//! Shared driver for feed histories (C09, C11): feeds a stream in chunks following the documented
//! protocol, optionally attempts renders at cut points, and records observations.

use crate::report::{fnv, hex};
use crate::util::{bucket_numbers, guard};
use jxl_oxide::{AuxBoxData, InitializeResult, JxlImage, JxlThreadPool, UninitializedJxlImage};

#[derive(Clone, Debug, PartialEq, Eq)]
pub struct Obs {
    pub header: u64,
    pub frames: usize,
    pub keyframes: usize,
    pub offsets: Vec<Option<usize>>,
    pub done: bool,
    pub exif: String,
    pub xml: String,
    pub jpeg: String,
    pub icc: u64,
    pub pixels: Vec<String>,
}

pub fn pixel_hash(img: &JxlImage, k: usize) -> String {
    match img.render_frame(k) {
        Ok(r) => {
            let fb = r.image_all_channels();
            let mut b = Vec::with_capacity(fb.buf().len() * 4 + 16);
            b.extend_from_slice(&(fb.width() as u32).to_le_bytes());
            b.extend_from_slice(&(fb.height() as u32).to_le_bytes());
            b.extend_from_slice(&(fb.channels() as u32).to_le_bytes());
            for v in fb.buf() {
                b.extend_from_slice(&v.to_bits().to_le_bytes());
            }
            format!("{:016x}", fnv(&b))
        }
        Err(e) => format!("err:{e}"),
    }
}

pub fn observe(img: &JxlImage) -> Obs {
    let frames = img.num_loaded_frames();
    let keyframes = img.num_loaded_keyframes();
    Obs {
        header: fnv(format!("{:?}", img.image_header()).as_bytes()),
        frames,
        keyframes,
        offsets: (0..frames + 1).map(|i| img.frame_offset(i)).collect(),
        done: img.is_loading_done(),
        exif: match img.aux_boxes().first_exif() {
            Ok(AuxBoxData::Data(e)) => format!("data:{}:{}", e.tiff_header_offset(), hex(e.payload())),
            Ok(AuxBoxData::Decoding) => "decoding".into(),
            Ok(AuxBoxData::NotFound) => "notfound".into(),
            Err(e) => format!("err:{e}"),
        },
        xml: match img.aux_boxes().first_xml() {
            AuxBoxData::Data(e) => format!("data:{}", hex(e)),
            AuxBoxData::Decoding => "decoding".into(),
            AuxBoxData::NotFound => "notfound".into(),
        },
        jpeg: format!("{:?}", img.jpeg_reconstruction_status()),
        icc: img.original_icc().map(fnv).unwrap_or(0),
        pixels: (0..keyframes).map(|k| pixel_hash(img, k)).collect(),
    }
}

pub fn read_whole(bytes: &[u8]) -> Result<Obs, String> {
    match guard(|| JxlImage::builder().pool(JxlThreadPool::none()).read(bytes).map(|i| observe(&i))) {
        Ok(Ok(o)) => Ok(o),
        Ok(Err(e)) => Err(format!("read: {e}")),
        Err(p) => Err(format!("panic@{p}")),
    }
}

/// A reader that hands out the stream in the pieces given by `cuts` (short reads are the environment's choice).
pub struct CutReader<'a> {
    pub bytes: &'a [u8],
    pub pos: usize,
    pub cuts: Vec<usize>,
}

impl std::io::Read for CutReader<'_> {
    fn read(&mut self, buf: &mut [u8]) -> std::io::Result<usize> {
        let next = self.cuts.iter().copied().find(|&c| c > self.pos).unwrap_or(self.bytes.len()).min(self.bytes.len());
        let n = (next - self.pos).min(buf.len());
        buf[..n].copy_from_slice(&self.bytes[self.pos..self.pos + n]);
        self.pos += n;
        Ok(n)
    }
}

/// `JxlImageBuilder::read` (the library's own buffering loop) on a reader that returns short reads at `cuts`.
pub fn read_with_cuts(bytes: &[u8], cuts: &[usize]) -> Result<Obs, String> {
    match guard(|| JxlImage::builder().pool(JxlThreadPool::none()).read(CutReader { bytes, pos: 0, cuts: cuts.to_vec() }).map(|i| observe(&i))) {
        Ok(Ok(o)) => Ok(o),
        Ok(Err(e)) => Err(format!("read: {e}")),
        Err(p) => Err(format!("panic@{p}")),
    }
}

#[derive(Clone, Debug, PartialEq, Eq)]
pub enum LoadingRender {
    NotAttempted,
    Uninit,
    /// rendered: (width, height) of the interleaved buffer
    Image(usize, usize),
    NeedMoreData(String),
    OtherError(String),
}

pub struct FeedResult {
    pub obs: Option<Obs>,
    /// per cut: (init state after this chunk, loading render outcome)
    pub at_cut: Vec<(bool, LoadingRender)>,
    pub error: Option<String>,
    /// (state, event, state') triples for state accounting
    pub trace: Vec<(String, String, String)>,
}

fn pbucket(pending: usize) -> &'static str {
    match pending {
        0 => "0",
        1 => "1",
        _ => "N",
    }
}

fn state_img(i: &JxlImage, pending: usize) -> String {
    format!(
        "init {} frames={} kf={} done={} pending={}",
        bucket_numbers(&format!("{:?}", i.reader())),
        i.num_loaded_frames().min(3),
        i.num_loaded_keyframes().min(3),
        i.is_loading_done(),
        pbucket(pending)
    )
}

fn state_str(uninit: &Option<UninitializedJxlImage>, image: &Option<JxlImage>, pending: usize) -> String {
    match (uninit, image) {
        (Some(u), _) => format!("uninit {} pending={}", bucket_numbers(&format!("{:?}", u.reader())), pbucket(pending)),
        (_, Some(i)) => state_img(i, pending),
        _ => "none".into(),
    }
}

fn classify_render_error(e: &(dyn std::error::Error + Send + Sync + 'static)) -> LoadingRender {
    if let Some(re) = e.downcast_ref::<jxl_render::Error>() {
        if re.unexpected_eof() || matches!(re, jxl_render::Error::IncompleteFrame | jxl_render::Error::NotReady) {
            return LoadingRender::NeedMoreData(format!("{re}"));
        }
    }
    if let Some(fe) = e.downcast_ref::<jxl_frame::Error>() {
        if fe.unexpected_eof() {
            return LoadingRender::NeedMoreData(format!("{fe}"));
        }
    }
    LoadingRender::OtherError(format!("{e}"))
}

/// Feeds `bytes` cut at `cuts`; after the chunk ending at cuts[i], if `render_at[i]`, attempts
/// `render_loading_frame`. Every call into the decoder is guarded.
pub fn feed(bytes: &[u8], cuts: &[usize], render_at: &[bool], want_trace: bool) -> FeedResult {
    let mut res = FeedResult { obs: None, at_cut: vec![], error: None, trace: vec![] };
    let r = guard(|| {
        let mut uninit = Some(JxlImage::builder().pool(JxlThreadPool::none()).build_uninit());
        let mut image: Option<JxlImage> = None;
        let mut pending: Vec<u8> = Vec::new();
        let mut bounds = vec![0usize];
        bounds.extend_from_slice(cuts);
        bounds.push(bytes.len());
        for (ci, w) in bounds.windows(2).enumerate() {
            pending.extend_from_slice(&bytes[w[0]..w[1]]);
            let st0 = if want_trace { state_str(&uninit, &image, pending.len()) } else { String::new() };
            let mut ev = "feed";
            if let Some(img) = image.as_mut() {
                match img.feed_bytes(&pending) {
                    Ok(c) => {
                        pending.drain(..c);
                    }
                    Err(e) => {
                        res.error = Some(format!("feed: {e}"));
                        return;
                    }
                }
            } else {
                let mut u = uninit.take().unwrap();
                match u.feed_bytes(&pending) {
                    Ok(c) => {
                        pending.drain(..c);
                    }
                    Err(e) => {
                        res.error = Some(format!("feed(uninit): {e}"));
                        return;
                    }
                }
                match u.try_init() {
                    Ok(InitializeResult::NeedMoreData(u)) => uninit = Some(u),
                    Ok(InitializeResult::Initialized(i)) => {
                        ev = "feed+init";
                        image = Some(i)
                    }
                    Err(e) => {
                        res.error = Some(format!("try_init: {e}"));
                        return;
                    }
                }
            }
            if want_trace {
                let st1 = state_str(&uninit, &image, pending.len());
                res.trace.push((st0, ev.into(), st1));
            }
            if ci < cuts.len() {
                let lr = if !render_at.get(ci).copied().unwrap_or(false) {
                    LoadingRender::NotAttempted
                } else if let Some(img) = image.as_mut() {
                    let st0 = if want_trace { state_img(img, pending.len()) } else { String::new() };
                    let out = match img.render_loading_frame() {
                        Ok(r) => {
                            let fb = r.image_all_channels();
                            LoadingRender::Image(fb.width(), fb.height())
                        }
                        Err(e) => classify_render_error(&*e),
                    };
                    if want_trace {
                        res.trace.push((st0.clone(), "render_loading".into(), st0));
                    }
                    out
                } else {
                    LoadingRender::Uninit
                };
                res.at_cut.push((image.is_some(), lr));
            }
        }
        if let Some(mut img) = image {
            if let Err(e) = img.finalize() {
                res.error = Some(format!("finalize: {e}"));
                return;
            }
            res.obs = Some(observe(&img));
        }
    });
    if let Err(p) = r {
        res.error = Some(format!("panic@{p}"));
    }
    res
}

