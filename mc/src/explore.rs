//! E2: choice-tape explorer.
//!
//! A check body is a deterministic function of the answers it gets from `Tape::choose(n)`.
//! `explore` enumerates tapes depth-first.  In *deviation mode* answer 0 is the default at every
//! choice point and every non-default answer costs 1; all tapes of cost <= bound are run.  With
//! `bound = usize::MAX` the full product is enumerated.  Replaying a recorded prefix that meets a
//! choice point with a different arity is a hard machinery error (nondeterministic body).

#[derive(Debug, Clone, Default)]
pub struct Tape {
    /// forced prefix (answers)
    prefix: Vec<u32>,
    /// arities recorded when the prefix was first produced (for divergence detection)
    prefix_arity: Vec<u32>,
    /// answers given during this execution
    pub answers: Vec<u32>,
    /// arities seen during this execution
    pub arities: Vec<u32>,
}

impl Tape {
    pub fn from_answers(a: &[u32]) -> Self {
        Tape {
            prefix: a.to_vec(),
            prefix_arity: Vec::new(),
            answers: Vec::new(),
            arities: Vec::new(),
        }
    }

    /// Picks one of `n` alternatives (n >= 1). Beyond the forced prefix the default 0 is taken.
    pub fn choose(&mut self, n: u32) -> u32 {
        assert!(n >= 1, "choose(0)");
        let i = self.answers.len();
        let a = if i < self.prefix.len() {
            if let Some(&ar) = self.prefix_arity.get(i) {
                if ar != n {
                    machinery_failure(&format!(
                        "tape divergence at choice {i}: arity {n} now, {ar} when recorded"
                    ));
                }
            }
            let a = self.prefix[i];
            if a >= n {
                machinery_failure(&format!("tape answer {a} out of range {n} at choice {i}"));
            }
            a
        } else {
            0
        };
        self.answers.push(a);
        self.arities.push(n);
        a
    }

    pub fn choose_from<'a, T>(&mut self, xs: &'a [T]) -> &'a T {
        &xs[self.choose(xs.len() as u32) as usize]
    }

    pub fn flag(&mut self) -> bool {
        self.choose(2) == 1
    }

    pub fn cost(&self) -> usize {
        self.answers.iter().filter(|&&a| a != 0).count()
    }
}

pub fn machinery_failure(msg: &str) -> ! {
    eprintln!("MACHINERY-FAILURE: {msg}");
    std::process::exit(2);
}

/// Enumerates all tapes with at most `bound` non-default answers (depth-first, defaults first).
/// `body` gets a fresh tape for each execution.  Returns number of executions.
/// `limit` caps the number of executions (0 = no cap); returns (executions, capped).
pub fn explore<F: FnMut(&mut Tape)>(bound: usize, limit: usize, body: F) -> (usize, bool) {
    explore_part(bound, limit, 0, 1, body)
}

/// Like `explore`, but only descends into the first-level alternatives whose ordinal is congruent to
/// `part` modulo `nparts` (the all-default execution is run by part 0 only).  The union over all
/// parts is exactly `explore`'s set of executions.
pub fn explore_part<F: FnMut(&mut Tape)>(bound: usize, limit: usize, part: usize, nparts: usize, mut body: F) -> (usize, bool) {
    // stack of (prefix answers, prefix arities)
    let mut stack: Vec<(Vec<u32>, Vec<u32>)> = vec![(vec![], vec![])];
    let mut runs = 0usize;
    let mut root = true;
    while let Some((prefix, prefix_arity)) = stack.pop() {
        if limit != 0 && runs >= limit {
            return (runs, true);
        }
        let plen = prefix.len();
        let mut tape = Tape {
            prefix,
            prefix_arity,
            answers: Vec::new(),
            arities: Vec::new(),
        };
        body(&mut tape);
        let is_root = root;
        root = false;
        if !(is_root && part != 0) {
            runs += 1;
        }
        if tape.answers.len() < plen {
            machinery_failure("tape divergence: execution shorter than its prefix");
        }
        // children: for each position i >= plen, each alternative answer
        let base_cost: usize = tape.answers[..plen].iter().filter(|&&a| a != 0).count();
        if base_cost >= bound {
            continue;
        }
        // push in reverse so that earliest position / smallest alternative is explored first
        let mut ordinal = 0usize;
        for i in (plen..tape.answers.len()).rev() {
            let n = tape.arities[i];
            for alt in (1..n).rev() {
                ordinal += 1;
                if is_root && ordinal % nparts != part {
                    continue;
                }
                let mut p = tape.answers[..i].to_vec();
                p.push(alt);
                let ar = tape.arities[..=i].to_vec();
                stack.push((p, ar));
            }
        }
    }
    (runs, false)
}

/// Collects all tapes (as answer vectors) with cost <= bound; used to fan executions out to threads.
pub fn collect_tapes<F: FnMut(&mut Tape)>(bound: usize, limit: usize, mut body: F) -> (Vec<Vec<u32>>, bool) {
    let mut v = Vec::new();
    let (_, capped) = explore(bound, limit, |t| {
        body(t);
        v.push(t.answers.clone());
    });
    (v, capped)
}

/// Runs `f` over `items` on `threads` OS threads, preserving nothing about order; returns results.
pub fn par_map<T: Sync, R: Send, F: Fn(usize, &T) -> R + Sync>(items: &[T], threads: usize, f: F) -> Vec<R> {
    use std::sync::atomic::{AtomicUsize, Ordering};
    let next = AtomicUsize::new(0);
    let mut out: Vec<Option<R>> = Vec::with_capacity(items.len());
    out.resize_with(items.len(), || None);
    let out_ptr = std::sync::Mutex::new(&mut out);
    std::thread::scope(|s| {
        for _ in 0..threads.max(1) {
            s.spawn(|| {
                let mut local: Vec<(usize, R)> = Vec::new();
                loop {
                    let i = next.fetch_add(1, Ordering::Relaxed);
                    if i >= items.len() {
                        break;
                    }
                    local.push((i, f(i, &items[i])));
                    if local.len() >= 256 {
                        let mut g = out_ptr.lock().unwrap();
                        for (i, r) in local.drain(..) {
                            g[i] = Some(r);
                        }
                    }
                }
                let mut g = out_ptr.lock().unwrap();
                for (i, r) in local.drain(..) {
                    g[i] = Some(r);
                }
            });
        }
    });
    out.into_iter().map(|x| x.expect("par_map slot")).collect()
}

/// Deviation bound of a check: `default` unless VERIF_BOUND overrides it (for experiments; the bound
/// actually used is always written into the evidence).
pub fn bound_or(default: usize) -> usize {
    std::env::var("VERIF_BOUND").ok().and_then(|s| s.parse().ok()).unwrap_or(default)
}

pub fn n_threads() -> usize {
    std::env::var("VERIF_THREADS")
        .ok()
        .and_then(|s| s.parse().ok())
        .unwrap_or_else(|| std::thread::available_parallelism().map(|n| n.get()).unwrap_or(4))
}

#[cfg(test)]
mod tests {
    use super::*;
    #[test]
    fn full_product() {
        let mut seen = std::collections::BTreeSet::new();
        let (n, _) = explore(usize::MAX, 0, |t| {
            let a = t.choose(3);
            let b = if a == 1 { t.choose(2) } else { 0 };
            seen.insert((a, b));
        });
        assert_eq!(n, 4);
        assert_eq!(seen.len(), 4);
    }
    #[test]
    fn deviation_bound() {
        let (n, _) = explore(1, 0, |t| {
            for _ in 0..4 {
                t.choose(3);
            }
        });
        assert_eq!(n, 1 + 4 * 2);
        let (n, _) = explore(2, 0, |t| {
            for _ in 0..4 {
                t.choose(3);
            }
        });
        assert_eq!(n, 1 + 8 + 6 * 4);
    }
}
