//! C12 — 16-bit vs 32-bit Modular buffers: full shape sweep x transforms x patterns on streams that
//! truthfully declare modular_16bit_buffers, default (narrow, SIMD) vs force_wide_buffers (scalar).

use crate::c03::{build, Config};
use crate::dec::*;
use crate::explore::{n_threads, par_map, Tape};
use crate::report::{fnv, hex, Report};
use serde_json::json;

fn base(w: usize, h: usize) -> Config {
    Config { w, h, layout: 1, depth: 12, float: 0, pattern: 0, tree: 0, leaf_variant: 0, wp: 0, transform: 0, coder: 0, lz77: 0, global_tree: true, group_shift: 1, passes: 0, toc_perm: 0, wide: false, ec_dim_shift: 0, force16: true, lz77_copies: 0 }
}

pub fn run(c: &Config, seed: u64) -> Option<Result<(), (String, String)>> {
    let b = build(c, seed)?;
    if !b.m16 {
        return None;
    }
    let narrow = decode_planes(&b.bytes, &DecOpts { wide: false, pool: None });
    let wide = decode_planes(&b.bytes, &DecOpts { wide: true, pool: None });
    let cls = match c.transform {
        0 => "none",
        1..=12 => "rct",
        13..=15 => "squeeze",
        16..=24 => "palette",
        _ => "pair",
    };
    Some(match (narrow, wide) {
        (Ok(n), Ok(w)) => {
            if n == w {
                // bonus: both equal the encoded samples (reported under C12 only as a narrow/wide difference would be)
                Ok(())
            } else {
                let mut where_ = String::new();
                'o: for (k, (a, b)) in n.iter().zip(&w).enumerate() {
                    for (ci, (pa, pb)) in a.iter().zip(b).enumerate() {
                        if let (Plane::Int { data: da, w: pw, .. }, Plane::Int { data: db, .. }) = (pa, pb) {
                            if let Some(p) = (0..da.len()).find(|&p| da[p] != db[p]) {
                                where_ = format!("keyframe {k} channel {ci} at ({},{}): narrow {} wide {}", p % pw, p / pw, da[p], db[p]);
                                break 'o;
                            }
                        } else if pa != pb {
                            where_ = format!("keyframe {k} channel {ci}: plane kinds {} vs {}", pa.kind(), pb.kind());
                            break 'o;
                        }
                    }
                }
                Err((format!("narrow-wide-differ:{cls}"), where_))
            }
        }
        (Err(e), Ok(_)) => Err((format!("narrow-fails:{cls}"), format!("narrow decode fails, wide succeeds: {e}"))),
        (Ok(_), Err(e)) => Err((format!("wide-fails:{cls}"), format!("wide decode fails, narrow succeeds: {e}"))),
        (Err(a), Err(b)) => Err((format!("both-fail:{cls}"), format!("valid stream rejected: {a} / {b}"))),
    })
}

pub fn main(args: &crate::Args) {
    crate::util::install_panic_hook();
    let mut rep = Report::new("C12", &args.tier, "exploration");
    let quick = rep.is_quick();
    let seed = rep.seed;
    if let Some(p) = &args.replay {
        replay(p, seed);
    }
    let mut dims: Vec<usize> = (1..=70).collect();
    if !quick {
        dims.extend([127, 128, 129, 255, 256, 257]);
    }
    // transforms: none, RCT 6 / 13 / 34, squeeze default / explicit h / explicit v+h, palette 0/2/5, pairs
    let transforms: Vec<u32> = vec![0, 1, 8, 11, 13, 14, 15, 16, 18, 21, 25, 27, 28];
    let patterns: Vec<u32> = vec![0, 5, 7];
    let mut cfgs: Vec<Config> = Vec::new();
    for &w in &dims {
        for &h in &dims {
            if !quick && w > 70 && h > 70 && w != h {
                continue;
            }
            for &t in &transforms {
                for &p in &patterns {
                    if quick && p == 5 {
                        continue;
                    }
                    if w * h > 10000 && p != 7 {
                        continue;
                    }
                    let mut c = base(w, h);
                    c.transform = t;
                    c.pattern = p;
                    c.layout = if t == 14 || t == 15 { (w % 2) as u32 } else { 1 };
                    cfgs.push(c);
                }
            }
        }
    }
    // every RCT kind (rct_type % 7 = 0..6) and every permutation class through the 16-bit row kernels, on widths around the lane counts
    for &w in &[1usize, 2, 7, 8, 9, 15, 16, 17, 31, 33, 64, 70] {
        for &h in &[1usize, 3, 8] {
            for t in 1..=12u32 {
                for &p in &[0u32, 7] {
                    let mut c = base(w, h);
                    c.transform = t;
                    c.pattern = p;
                    c.layout = 1;
                    cfgs.push(c);
                }
            }
        }
    }
    // neighbourhood of the C03 default restricted to depths <= 12: trees, coders, depths, layouts with alpha
    for tree in 0..crate::c03::N_TREES {
        for depth in [1u32, 8, 12] {
            for layout in [0u32, 3, 4] {
                let mut c = base(17, 9);
                c.tree = tree;
                c.depth = depth;
                c.layout = layout;
                c.pattern = 7;
                cfgs.push(c.clone());
                c.transform = 13;
                c.w = 49;
                c.h = 19;
                cfgs.push(c);
            }
        }
    }
    // leaf offset / multiplier variants (incl. both at once) x predictors x coders through the 16-bit sample arithmetic
    for tree in 0..14u32 {
        for lv in 1..7u32 {
            for coder in 0..2u32 {
                for depth in [8u32, 12] {
                    let mut c = base(9, 5);
                    c.tree = tree;
                    c.leaf_variant = lv;
                    c.coder = coder;
                    c.depth = depth;
                    c.pattern = 7;
                    cfgs.push(c);
                }
            }
        }
    }
    let results = par_map(&cfgs, n_threads(), |_, c| run(c, seed));
    let mut skipped = 0u64;
    for (c, r) in cfgs.iter().zip(&results) {
        rep.eval();
        match r {
            None => {
                skipped += 1;
                rep.outcome("not-16bit-truthful-or-inexpressible");
            }
            Some(Ok(())) => {
                rep.outcome("identical");
                rep.nontrivial(fnv(format!("{:?}", c).as_bytes()));
            }
            Some(Err((k, w))) => {
                rep.outcome("differs");
                let b = build(c, seed);
                rep.violation(k, &format!("{w} [{:?}]", c), &json!({"config": config_json(c), "seed": seed, "stream_hex": b.map(|b| hex(&b.bytes[..b.bytes.len().min(3000)])).unwrap_or_default()}));
            }
        }
    }
    // VarDCT colour + Modular-coded alpha (the other kind of stream the statement names): shapes x alpha depth x filters
    {
        let sizes: Vec<(usize, usize)> = if quick { (1..=40).step_by(3).flat_map(|w| [(w, 9usize), (w, 17)]).collect() } else { (1..=70).flat_map(|w| [(w, 1usize), (w, 9), (w, 17), (w, 33)]).collect() };
        let jobs: Vec<((usize, usize), u32, bool)> = sizes.iter().flat_map(|&s| [(s, 8u32, false), (s, 12, false), (s, 12, true)]).collect();
        let res = par_map(&jobs, n_threads(), |_, &(size, bits, filters)| {
            let mut t = Tape::default();
            let mut c = crate::c17::cfg_from(&mut t);
            c.size = size;
            c.pattern = 5;
            let spec = crate::c17::spec_of(&c, seed ^ 0xa1);
            let bytes = spec.write_codestream_with(&jxlw::jpeg::StreamOpts { filters, alpha_bits: bits, ..Default::default() });
            let narrow = decode_planes(&bytes, &DecOpts { wide: false, pool: None });
            let wide = decode_planes(&bytes, &DecOpts { wide: true, pool: None });
            match (narrow, wide) {
                (Ok(n), Ok(w)) if n == w => Ok(()),
                (Ok(_), Ok(_)) => Err(("narrow-wide-differ:vardct-alpha".to_string(), format!("VarDCT {}x{} with {bits}-bit alpha (filters {filters}): narrow and wide decodes differ", size.0, size.1), bytes)),
                (a, b) => Err(("vardct-alpha-decode".to_string(), format!("VarDCT {}x{} with {bits}-bit alpha: narrow {:?} wide {:?}", size.0, size.1, a.err(), b.err()), bytes)),
            }
        });
        for (j, r) in jobs.iter().zip(res) {
            rep.eval();
            match r {
                Ok(()) => {
                    rep.outcome("identical");
                    rep.nontrivial(fnv(format!("vardct-alpha{:?}", j).as_bytes()));
                }
                Err((k, w, bytes)) => {
                    rep.outcome("differs");
                    rep.violation(&k, &w, &json!({"family": "vardct-alpha", "size": [j.0 .0, j.0 .1], "alpha_bits": j.1, "filters": j.2, "stream_hex": hex(&bytes[..bytes.len().min(6000)])}));
                }
            }
        }
        rep.extra.insert("vardct_alpha_streams".into(), json!(jobs.len()));
    }
    // Modular frames of an XYB-encoded image (the integer -> XYB float conversion has a 16-bit and a 32-bit arm)
    {
        use jxlw::frame::*;
        use jxlw::headers::*;
        use jxlw::modular::*;
        let sizes: Vec<(usize, usize)> = if quick { vec![(1, 1), (5, 3), (8, 8), (17, 9), (33, 2)] } else { (1..=40).flat_map(|w| [(w, 1usize), (w, 7), (w, 16)]).collect() };
        for (w, h) in sizes {
            for pat in 0..2usize {
                rep.eval();
                let mut img = ImageHeader::simple(w as u32, h as u32, false, 8);
                img.xyb_encoded = true;
                img.modular_16bit_buffers = true;
                let fh = FrameHeader::modular_lossless(&img);
                let chans: Vec<Channel> = (0..3).map(|c| Channel::from_fn(w, h, |x, y| ((x * 7 + y * 13 + c * 29 + pat * 5) % 201) as i32 - 100 + if c == 0 { 150 } else { 0 })).collect();
                let mut spec = ModularFrameSpec::new(fh, chans);
                spec.tree = Node::leaf(if pat == 0 { 5 } else { 1 });
                let bytes = write_codestream(&img, &Sel::default(), &[write_modular_frame(&img, &spec).bytes]);
                let narrow = decode_planes(&bytes, &DecOpts { wide: false, pool: None });
                let wide = decode_planes(&bytes, &DecOpts { wide: true, pool: None });
                match (narrow, wide) {
                    (Ok(n), Ok(wd)) if n == wd => {
                        rep.outcome("identical");
                        rep.nontrivial(fnv(format!("xyb-modular{w}x{h}p{pat}").as_bytes()));
                    }
                    (Ok(_), Ok(_)) => {
                        rep.outcome("differs");
                        rep.violation("narrow-wide-differ:xyb-modular", &format!("Modular frame {w}x{h} of an XYB-encoded image: narrow and wide decodes differ"), &json!({"family": "xyb-modular", "size": [w, h], "stream_hex": hex(&bytes)}));
                    }
                    (a, b) => {
                        rep.outcome("differs");
                        rep.violation("xyb-modular-decode", &format!("Modular frame {w}x{h} of an XYB-encoded image: narrow {:?} wide {:?}", a.err(), b.err()), &json!({"family": "xyb-modular", "size": [w, h], "stream_hex": hex(&bytes)}));
                    }
                }
            }
        }
    }
    rep.rule = format!("all shapes W x H over {{1..70}}{} x 13 transform stacks (none, RCT 6/13/34, squeeze default/explicit-h/explicit-vh, palette explicit/delta/implicit-delta, RCT+squeeze, 3-step squeeze, palette+squeeze) x 2 (quick) / 3 sample patterns on 12-bit images, plus all 36 tree shapes x depths 1/8/12 x layouts with extra channels; every stream declares modular_16bit_buffers only when jxlw's forward pass proves every intermediate fits i16; plus leaf offset / multiplier variants x 14 predictors, Modular frames of an XYB-encoded image, and VarDCT frames (DCT8, widths 1..40 / 1..70, several heights) carrying an 8- or 12-bit Modular alpha channel, with and without Gabor + EPF; oracle: default decode == force_wide_buffers decode on every integer / float bit pattern of every channel. Non-trivial = stream is 16-bit truthful and decodes; distinct by configuration.", if quick { "" } else { " u {127,128,129,255,256,257}" });
    for i in [cfgs.len() / 2, cfgs.len() - 1] {
        rep.sample(config_json(&cfgs[i]));
    }
    rep.extra.insert("skipped_not_truthful".into(), json!(skipped));
    rep.exhaustive = true;
    rep.assumptions = vec![
        "differential: narrow and wide paths wrong in the same way are C03's subject".into(),
        "this host selects the AVX2 kernels; SSE4.1-only kernels are not reached by whole-image decodes".into(),
    ];
    rep.finish();
}

fn config_json(c: &Config) -> serde_json::Value {
    json!({"w": c.w, "h": c.h, "layout": c.layout, "depth": c.depth, "pattern": c.pattern, "tree": c.tree, "transform": c.transform, "coder": c.coder})
}

fn replay(path: &str, seed: u64) -> ! {
    let s = std::fs::read_to_string(path).unwrap_or_else(|e| crate::explore::machinery_failure(&format!("{path}: {e}")));
    let v: serde_json::Value = serde_json::from_str(&s).unwrap();
    let j = &v["config"];
    let g = |k: &str| j[k].as_u64().unwrap_or(0);
    let mut c = base(g("w") as usize, g("h") as usize);
    c.layout = g("layout") as u32;
    c.depth = g("depth") as u32;
    c.pattern = g("pattern") as u32;
    c.tree = g("tree") as u32;
    c.transform = g("transform") as u32;
    c.coder = g("coder") as u32;
    let seed = v["seed"].as_u64().unwrap_or(seed);
    match run(&c, seed) {
        None | Some(Ok(())) => {
            println!("replay: property holds on this case");
            std::process::exit(0)
        }
        Some(Err((k, w))) => {
            println!("VIOLATION property=C12 replay={path}\n  key={k} :: {w}");
            std::process::exit(1)
        }
    }
}
