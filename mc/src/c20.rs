//! C20 — concurrent renders of shared frames: all schedules of 2-3 caller threads within a deviation
//! bound at the scheduling points of the render-handle protocol (E3), with and without an injected
//! allocation failure.

use crate::corpus::corpus;
use crate::explore::{n_threads, par_map, Tape};
use crate::report::{fnv, hex, Report};
use crate::sched::{install_router, Sched};
use jxl_oxide::{AllocTracker, JxlImage, JxlThreadPool};
use serde_json::json;
use std::sync::{Arc, Mutex};

#[derive(Clone, Debug)]
pub struct Scenario {
    pub name: String,
    pub item: String,
    /// keyframe requested by each caller
    pub callers: Vec<usize>,
    /// fail the k-th tracked allocation counted from the start of rendering (None = no fault)
    pub fault: Option<usize>,
    /// number of schedule deviations this scenario is explored with below the tier's bound (all-k fault families)
    pub dev_less: usize,
}

pub fn render_hash(img: &JxlImage, k: usize) -> Result<u64, String> {
    match img.render_frame(k) {
        Ok(r) => {
            let fb = r.image_all_channels();
            let mut b = Vec::with_capacity(fb.buf().len() * 4);
            for v in fb.buf() {
                b.extend_from_slice(&v.to_bits().to_le_bytes());
            }
            Ok(fnv(&b))
        }
        Err(e) => Err(format!("{e}")),
    }
}

pub fn open_tracked(bytes: &[u8]) -> Result<(JxlImage, AllocTracker), String> {
    let tracker = AllocTracker::with_limit(1 << 30);
    let img = JxlImage::builder().pool(JxlThreadPool::none()).alloc_tracker(tracker.clone()).read(bytes).map_err(|e| format!("{e}"))?;
    Ok((img, tracker))
}

pub struct RunResult {
    pub results: Vec<Result<u64, String>>,
    pub outcome: crate::sched::Outcome,
}

/// One execution of a scenario under the schedule of `tape`.
pub fn run_once(bytes: &[u8], sc: &Scenario, tape: Tape) -> RunResult {
    let (img, tracker) = open_tracked(bytes).expect("scenario stream decodes");
    if let Some(k) = sc.fault {
        let base = tracker.verif_attempts();
        tracker.verif_fail_at(Some(base + k), false);
    }
    let img = Arc::new(img);
    let sched = Sched::new(tape);
    {
        let i2 = Arc::clone(&img);
        sched.set_observer(Box::new(move || i2.verif_handle_states().join(",")));
    }
    let results: Arc<Mutex<Vec<Option<Result<u64, String>>>>> = Arc::new(Mutex::new(vec![None; sc.callers.len()]));
    let mut handles = vec![];
    for (ci, &k) in sc.callers.iter().enumerate() {
        let img = Arc::clone(&img);
        let results = Arc::clone(&results);
        handles.push(sched.spawn(&format!("caller{ci}"), move || {
            let r = render_hash(&img, k);
            results.lock().unwrap()[ci] = Some(r);
        }));
    }
    let outcome = sched.run(handles);
    let results = results.lock().unwrap().iter().map(|r| r.clone().unwrap_or_else(|| Err("caller did not return".into()))).collect();
    RunResult { results, outcome }
}

pub fn judge(sc: &Scenario, reference: &[Result<u64, String>], rr: &RunResult) -> Option<(String, String)> {
    if let Some(d) = &rr.outcome.deadlock {
        return Some(("deadlock".into(), format!("no enabled thread while callers are still waiting: {d}")));
    }
    if let Some(v) = rr.outcome.protocol_violations.first() {
        let k = if v.contains("two executions") { "concurrent-render-op" } else { "caller-panic" };
        return Some((k.into(), v.clone()));
    }
    for (ci, r) in rr.results.iter().enumerate() {
        match (r, &reference[sc.callers[ci]]) {
            (Ok(h), Ok(want)) => {
                if h != want {
                    return Some(("picture-differs".into(), format!("caller {ci} (keyframe {}) got a different picture than the sequential render", sc.callers[ci])));
                }
            }
            (Ok(_), Err(_)) => {}
            (Err(e), _) => {
                if sc.fault.is_none() {
                    return Some(("spurious-error".into(), format!("caller {ci} got an error without any injected fault: {e}")));
                }
            }
        }
    }
    if sc.fault.is_none() {
        for (f, n) in &rr.outcome.render_runs {
            if *n > 1 {
                return Some(("render-op-repeated".into(), format!("frame {f}: render operation executed {n} times for one image region")));
            }
        }
    }
    None
}

/// Number of tracked allocation attempts of a sequential, unfaulted render of the given keyframes.
pub fn alloc_points(bytes: &[u8], callers: &[usize]) -> usize {
    let (img, tracker) = open_tracked(bytes).expect("scenario stream decodes");
    let base = tracker.verif_attempts();
    let mut ks: Vec<usize> = callers.to_vec();
    ks.sort();
    ks.dedup();
    for k in ks {
        let _ = render_hash(&img, k);
    }
    tracker.verif_attempts() - base
}

pub fn scenarios(quick: bool) -> Vec<Scenario> {
    let mut v = vec![];
    let mut add = |name: &str, item: &str, callers: Vec<usize>, fault: Option<usize>| v.push(Scenario { name: name.into(), item: item.into(), callers, fault, dev_less: 0 });
    add("single-2same", "gray-5x3", vec![0, 0], None);
    add("single-3same", "gray-5x3", vec![0, 0, 0], None);
    add("ref+blend-2same", "ref-then-blend-alpha16", vec![0, 0], None);
    add("ref+blend-3same", "ref-then-blend-alpha16", vec![0, 0, 0], None);
    add("anim-2diff", "anim-12x10-3kf", vec![0, 2], None);
    add("anim-3diff", "anim-12x10-3kf", vec![2, 1, 0], None);
    add("anim-2same-last", "anim-12x10-3kf", vec![2, 2], None);
    add("chain-2diff", "layers-chain-two-kf", vec![0, 1], None);
    add("chain-3mixed", "layers-chain-two-kf", vec![1, 0, 1], None);
    // a VarDCT frame that fetches its LF from an LF frame, and a frame that fetches patches from a reference frame:
    // further users of the handle protocol (run_with_image from inside another frame's render)
    add("lfframe-2same", "vardct-lfframe-40x24", vec![0, 0], None);
    add("patches-2same", "rgba-24x20-patches", vec![0, 0], None);
    add("patched-layers-2same", "rgba-24x20-patches-layer-under-patched-keyframe", vec![0, 0], None);
    add("patched-layer-plain-kf-2same", "rgba-24x20-patched-layer-under-plain-keyframe", vec![0, 0], None);
    if !quick {
        add("lfframe-3same", "vardct-lfframe-40x24", vec![0, 0, 0], None);
        add("patches-3same", "rgba-24x20-patches", vec![0, 0, 0], None);
    }
    for k in if quick { vec![0usize, 3, 7] } else { (0..14).collect() } {
        add(&format!("anim-2same-fault{k}"), "anim-12x10-3kf", vec![1, 1], Some(k));
        add(&format!("chain-2diff-fault{k}"), "layers-chain-two-kf", vec![1, 0], Some(k));
        if !quick || k == 3 {
            add(&format!("ref+blend-3same-fault{k}"), "ref-then-blend-alpha16", vec![0, 0, 0], Some(k));
            add(&format!("lfframe-2same-fault{k}"), "vardct-lfframe-40x24", vec![0, 0], Some(k));
            add(&format!("patches-2same-fault{k}"), "rgba-24x20-patches", vec![0, 0], Some(k));
        }
    }
    // EVERY tracked allocation of the render as the fault point (the sampled indices above miss faults that land in a
    // particular stage, e.g. the int-to-float conversion before compositing): the number of allocation attempts N of a
    // sequential render of the callers' keyframes is measured on the real code, then k = 0..N.
    let all = corpus();
    let fams: Vec<(&str, &str, Vec<usize>)> = if quick {
        vec![("ref+blend-2same", "ref-then-blend-alpha16", vec![0, 0]), ("anim-2same-first", "anim-12x10-3kf", vec![0, 0])]
    } else {
        vec![
            ("ref+blend-2same", "ref-then-blend-alpha16", vec![0, 0]),
            ("chain-2diff", "layers-chain-two-kf", vec![1, 0]),
            ("anim-2same-first", "anim-12x10-3kf", vec![0, 0]),
            ("anim-2same", "anim-12x10-3kf", vec![1, 1]),
            ("anim-2diff", "anim-12x10-3kf", vec![2, 1]),
            ("lfframe-2same", "vardct-lfframe-40x24", vec![0, 0]),
            ("patches-2same", "rgba-24x20-patches", vec![0, 0]),
        ]
    };
    for (name, item, callers) in fams {
        let bytes = &all.iter().find(|i| i.name == item).expect("corpus item").bytes;
        let n = alloc_points(bytes, &callers);
        for k in 0..n {
            let nm = format!("{name}-fault{k}");
            if v.iter().any(|s: &Scenario| s.name == nm) {
                continue;
            }
            v.push(Scenario { name: nm, item: item.into(), callers: callers.clone(), fault: Some(k), dev_less: 1 });
        }
    }
    v
}

/// Free-running body of a scenario for the race-detector side pass: real threads, no scheduler, pool none or rayon.
fn tsan_child(rest: &[String]) -> ! {
    let (item, callers, fault, pool) = (&rest[1], &rest[2], &rest[3], &rest[4]);
    let callers: Vec<usize> = callers.split(',').map(|x| x.parse().unwrap()).collect();
    let items = corpus();
    let bytes = &items.iter().find(|i| &i.name == item).unwrap_or_else(|| crate::explore::machinery_failure(&format!("no corpus item {item}"))).bytes;
    let tracker = AllocTracker::with_limit(1 << 30);
    let pool = match pool.parse::<usize>().unwrap() {
        0 => JxlThreadPool::none(),
        n => JxlThreadPool::rayon(Some(n)),
    };
    let img = JxlImage::builder().pool(pool).alloc_tracker(tracker.clone()).read(&bytes[..]).expect("scenario stream decodes");
    if let Ok(k) = fault.parse::<usize>() {
        let base = tracker.verif_attempts();
        tracker.verif_fail_at(Some(base + k), false);
    }
    let img = Arc::new(img);
    let hs: Vec<_> = callers
        .iter()
        .map(|&k| {
            let img = Arc::clone(&img);
            std::thread::spawn(move || render_hash(&img, k).is_ok())
        })
        .collect();
    let r: Vec<bool> = hs.into_iter().map(|h| h.join().unwrap_or(false)).collect();
    let in_job = jxl_render::verif_sync::take_requests_in_pool_jobs(false);
    if !in_job.is_empty() {
        let mut v = in_job;
        v.sort();
        v.dedup();
        eprintln!("VERIF-NOTE: handle-wait-in-pool-job the render of frame(s) {v:?} was requested (and would be waited for) from inside a pool job");
    }
    println!("{r:?}");
    std::process::exit(0)
}

pub fn main(args: &crate::Args) {
    crate::util::install_panic_hook();
    if args.rest.first().map(|s| s == "--tsan-child").unwrap_or(false) {
        tsan_child(&args.rest);
    }
    install_router();
    if let Some(p) = &args.replay {
        replay(p);
    }
    let mut rep = Report::new("C20", &args.tier, "model_checking");
    let quick = rep.is_quick();
    let items = corpus();
    let scs = scenarios(quick);
    let bound = if quick { 2 } else { 3 };
    let cap = if quick { 4000 } else { 60000 };
    struct ScOut {
        runs: usize,
        capped: bool,
        states: Vec<String>,
        outcomes: Vec<String>,
        viol: Option<(String, String, Vec<u32>, Vec<String>)>,
        max_points: usize,
    }
    const NPARTS: usize = 6;
    let jobs: Vec<(usize, usize)> = (0..scs.len()).flat_map(|i| (0..NPARTS).map(move |p| (i, p))).collect();
    let part_outs = par_map(&jobs, n_threads(), |_, &(si, part)| {
        let sc = &scs[si];
        let bytes = &items.iter().find(|i| i.name == sc.item).expect("corpus item").bytes;
        // sequential reference (no fault)
        let (img, _) = open_tracked(bytes).expect("decodes");
        let reference: Vec<Result<u64, String>> = (0..img.num_loaded_keyframes()).map(|k| render_hash(&img, k)).collect();
        drop(img);
        let mut out = ScOut { runs: 0, capped: false, states: vec![], outcomes: vec![], viol: None, max_points: 0 };
        let (runs, capped) = crate::explore::explore_part(bound - sc.dev_less, cap / NPARTS, part, NPARTS, |t| {
            let rr = run_once(bytes, sc, std::mem::take(t));
            let v = judge(sc, &reference, &rr);
            out.max_points = out.max_points.max(rr.outcome.points);
            out.outcomes.push(format!("{:?}", rr.results.iter().map(|r| r.is_ok()).collect::<Vec<_>>()));
            for s in &rr.outcome.states {
                out.states.push(s.clone());
            }
            if out.viol.is_none() {
                if let Some((k, w)) = v {
                    out.viol = Some((k, w, rr.outcome.tape.answers.clone(), rr.outcome.trace.clone()));
                }
            }
            *t = rr.outcome.tape;
        });
        out.runs = runs;
        out.capped = capped;
        out.states.sort();
        out.states.dedup();
        out
    });
    // merge the parts of every scenario
    let mut outs: Vec<ScOut> = Vec::new();
    for si in 0..scs.len() {
        let mut m = ScOut { runs: 0, capped: false, states: vec![], outcomes: vec![], viol: None, max_points: 0 };
        for (j, o) in jobs.iter().zip(&part_outs) {
            if j.0 != si {
                continue;
            }
            m.runs += o.runs;
            m.capped |= o.capped;
            m.states.extend(o.states.iter().cloned());
            m.outcomes.extend(o.outcomes.iter().cloned());
            m.max_points = m.max_points.max(o.max_points);
            if m.viol.is_none() {
                m.viol = o.viol.clone();
            }
        }
        m.states.sort();
        m.states.dedup();
        outs.push(m);
    }
    for (sc, o) in scs.iter().zip(&outs) {
        rep.evaluations += o.runs as u64;
        for s in &o.states {
            let h = rep.state(s);
            rep.transition(h, "sched", h ^ 1);
        }
        for oc in &o.outcomes {
            rep.outcome(oc);
        }
        rep.nontrivial(fnv(sc.name.as_bytes()));
        if o.capped {
            rep.caps.push(format!("scenario {}: schedule enumeration capped at {} executions (bound {})", sc.name, o.runs, bound));
        }
        if let Some((k, w, tape, trace)) = &o.viol {
            let bytes = &items.iter().find(|i| i.name == sc.item).unwrap().bytes;
            rep.violation(
                &format!("{k}:{}", if sc.fault.is_some() { "fault" } else { "nofault" }),
                &format!("{w} [scenario {}]", sc.name),
                &json!({"scenario": {"name": sc.name, "item": sc.item, "callers": sc.callers, "fault": sc.fault}, "schedule_tape": tape, "trace": trace, "stream_hex": hex(bytes)}),
            );
        }
    }
    rep.traces_validated = rep.evaluations;
    // race-detector side pass: the same scenarios free-running (real threads, no scheduler), without a pool and with a
    // 2-thread rayon pool
    {
        let mut jobs = vec![];
        for sc in &scs {
            for pool in [0usize, 2] {
                for _ in 0..(if quick { 1 } else { 3 }) {
                    jobs.push((
                        format!("scenario {} with {}", sc.name, if pool == 0 { "no pool".to_string() } else { format!("a rayon pool of {pool} threads") }),
                        vec!["C20".to_string(), "--tsan-child".into(), sc.item.clone(), sc.callers.iter().map(|c| c.to_string()).collect::<Vec<_>>().join(","), sc.fault.map(|f| f.to_string()).unwrap_or("-".into()), pool.to_string()],
                    ));
                }
            }
        }
        crate::tsan::raise(&mut rep, crate::tsan::pass(&jobs, "every scenario's caller threads on one shared image, without a pool and with a 2-thread rayon pool"));
    }
    rep.rule = format!("{} scenarios (images: single frame, ReferenceOnly+blended keyframe, 3-keyframe animation sharing reference slots, layered chain with two keyframes; 2 or 3 caller threads on the same or different keyframes; with and without one injected allocation failure at the k-th tracked allocation: sampled k for all families, and EVERY k below the measured number of allocation attempts of a sequential render for the all-k families, which are explored with one deviation less than the others) x ALL schedules within {bound} deviations from the default schedule (continue the running thread, else lowest id) at every lock / condvar-wait scheduling point of the render-handle protocol; executions run to completion on the real code under the cooperative scheduler; oracle: no deadlock, every caller returns, every Ok equals the sequential render bit for bit, errors only with an injected fault, no two concurrent executions and no repeated execution of a frame's render operation.", scs.len());
    rep.sample(json!({"scenario": scs[3].name, "callers": scs[3].callers, "max_scheduling_points": outs[3].max_points, "schedules": outs[3].runs}));
    rep.sample(json!({"scenario": scs[scs.len() - 1].name, "callers": scs[scs.len() - 1].callers, "fault": scs[scs.len() - 1].fault, "schedules": outs[scs.len() - 1].runs}));
    rep.extra.insert("deviation_bound".into(), json!(bound));
    rep.extra.insert("schedules_per_scenario".into(), json!(scs.iter().zip(&outs).map(|(s, o)| (s.name.clone(), o.runs)).collect::<std::collections::BTreeMap<_, _>>()));
    rep.exhaustive = true;
    rep.assumptions = vec![
        "scheduling points are the Mutex/Condvar operations of the render-handle protocol (state.rs, image.rs, cached colour transform); data races not crossing such a point are looked for by the separate free-running ThreadSanitizer pass over the same scenarios (sampling over schedules, supporting); weak-memory effects are outside this check".into(),
        "pool = none: background reference renders run inline; pool task orders are explored by C07".into(),
        "states = (vector of handle protocol states, per-thread scheduler status) sampled at every scheduling point".into(),
    ];
    rep.finish();
}

fn replay(path: &str) -> ! {
    let s = std::fs::read_to_string(path).unwrap_or_else(|e| crate::explore::machinery_failure(&format!("{path}: {e}")));
    let v: serde_json::Value = serde_json::from_str(&s).unwrap();
    if v["family"] == "tsan" || v["family"] == "tsan-hang" {
        crate::tsan::replay("C20", path, &v);
    }
    let sj = &v["scenario"];
    let sc = Scenario {
        name: sj["name"].as_str().unwrap().into(),
        item: sj["item"].as_str().unwrap().into(),
        callers: sj["callers"].as_array().unwrap().iter().map(|x| x.as_u64().unwrap() as usize).collect(),
        fault: sj["fault"].as_u64().map(|x| x as usize),
        dev_less: 0,
    };
    let bytes = crate::report::unhex(v["stream_hex"].as_str().unwrap());
    let tape: Vec<u32> = v["schedule_tape"].as_array().unwrap().iter().map(|x| x.as_u64().unwrap() as u32).collect();
    let (img, _) = open_tracked(&bytes).unwrap();
    let reference: Vec<Result<u64, String>> = (0..img.num_loaded_keyframes()).map(|k| render_hash(&img, k)).collect();
    drop(img);
    let r1 = run_once(&bytes, &sc, Tape::from_answers(&tape));
    let r2 = run_once(&bytes, &sc, Tape::from_answers(&tape));
    if r1.outcome.trace != r2.outcome.trace {
        crate::explore::machinery_failure("replay: the same schedule produced different traces (uncontrolled nondeterminism)");
    }
    for l in &r1.outcome.trace {
        println!("  {l}");
    }
    match judge(&sc, &reference, &r1) {
        None => {
            println!("replay: property holds on this schedule");
            std::process::exit(0)
        }
        Some((k, w)) => {
            println!("VIOLATION property=C20 replay={path}\n  key={k} :: {w}");
            std::process::exit(1)
        }
    }
}
