//! Scratch bring-up probes (not a registered check).
use crate::dec::*;
use jxlw::frame::*;
use jxlw::headers::*;
use jxlw::modular::*;

pub fn main(_args: &crate::Args) {
    crate::util::install_panic_hook();
    for pred in 0..14u32 {
        for (w, h) in [(1usize, 1usize), (2, 2), (5, 3), (9, 7), (17, 4)] {
            for use_prefix in [true, false] {
                let img = ImageHeader::simple(w as u32, h as u32, true, 8);
                let ch = Channel::from_fn(w, h, |x, y| ((x * 37 + y * 91 + x * y * 13) % 256) as i32);
                let mut spec = ModularFrameSpec::new(FrameHeader::modular_lossless(&img), vec![ch]);
                spec.tree = Node::leaf(pred);
                spec.code.use_prefix = use_prefix;
                let f = write_modular_frame(&img, &spec);
                let bytes = write_codestream(&img, &Sel::default(), &[f.bytes.clone()]);
                match decode_planes(&bytes, &DecOpts::default()) {
                    Ok(kf) => {
                        let ok = matches!(&kf[0][0], Plane::Int { data, .. } if *data == f.channels[0].data);
                        if !ok {
                            println!("MISMATCH pred={pred} {w}x{h} prefix={use_prefix}: got {:?} want {:?}", kf[0][0], f.channels[0].data);
                        }
                    }
                    Err(e) => println!("ERR pred={pred} {w}x{h} prefix={use_prefix}: {e}  bytes={}", crate::report::hex(&bytes)),
                }
            }
        }
    }
    println!("bringup done");
}
