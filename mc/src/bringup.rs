//! Scratch bring-up probes (not a registered check).
use jxl_color::*;
pub fn main(_args: &crate::Args) {
    let e = |tf| ColorEncodingWithProfile::new(EnumColourEncoding { colour_space: ColourSpace::Rgb, white_point: WhitePoint::D65, primaries: Primaries::Srgb, tf, rendering_intent: RenderingIntent::Relative });
    use jxl_oxide_common::Bundle;
    let mut w = jxlw::bits::BitWriter::new();
    let mut h = jxlw::headers::ImageHeader::simple(8, 8, false, 8);
    h.size.div8 = true;
    h.all_default = true;
    h.write(&mut w, &jxlw::headers::Sel::default());
    let b = w.finish();
    let mut bs = jxl_bitstream::Bitstream::new(&b);
    let hdr = jxl_image::ImageHeader::parse(&mut bs, ()).unwrap();
    let m = &hdr.metadata;
    let fwd = ColorTransform::new(&e(TransferFunction::Linear), &e(TransferFunction::Srgb), &m.opsin_inverse_matrix, &m.tone_mapping, &NullCms).unwrap();
    let bwd = ColorTransform::new(&e(TransferFunction::Srgb), &e(TransferFunction::Linear), &m.opsin_inverse_matrix, &m.tone_mapping, &NullCms).unwrap();
    let n = 200001usize;
    let xs: Vec<f32> = (0..n).map(|i| i as f32 / 200000.0).collect();
    let (mut a, mut b, mut c) = (xs.clone(), xs.clone(), xs.clone());
    fwd.run(&mut [&mut a[..], &mut b[..], &mut c[..]]).unwrap();
    let enc = a.clone();
    bwd.run(&mut [&mut a[..], &mut b[..], &mut c[..]]).unwrap();
    for d in 0..20 {
        let (lo, hi) = (d * 10000, (d + 1) * 10000 + if d == 19 { 1 } else { 0 });
        let mut me = 0f64; let mut mr = 0f64;
        for i in lo..hi {
            let x = xs[i] as f64;
            let t = if x <= 0.0031308 { 12.92 * x } else { 1.055 * x.powf(1.0 / 2.4) - 0.055 };
            me = me.max((enc[i] as f64 - t).abs());
            mr = mr.max((a[i] as f64 - x).abs());
        }
        println!("x in [{:.2},{:.2}]: max encode err {:.2e}, max roundtrip err {:.2e}", lo as f64 / 2e5, hi as f64 / 2e5, me, mr);
    }
    for n in [1usize] {
        let xs: Vec<f32> = (0..n).map(|i| 1.0 - i as f32 * 1e-4).collect();
        let (mut a, mut b, mut c) = (xs.clone(), xs.clone(), xs.clone());
        fwd.run(&mut [&mut a[..], &mut b[..], &mut c[..]]).unwrap();
        let enc = a.clone();
        bwd.run(&mut [&mut a[..], &mut b[..], &mut c[..]]).unwrap();
        println!("n={n} x={:?}\n   enc={:?}\n   dec={:?}", &xs[..n.min(4)], &enc[..n.min(4)], &a[..n.min(4)]);
    }
}
