//! Scratch bring-up probes (not a registered check).
use crate::dec::*;
use jxlw::frame::*;
use jxlw::headers::*;
use jxlw::modular::*;

pub fn main(_args: &crate::Args) {
    crate::util::install_panic_hook();
    for gs in 0..3u32 {
    for (w, h) in [(17usize, 17usize), (130, 5), (5, 130), (130, 130), (257,129), (300,70), (200,200), (129,1)] {
        let img = ImageHeader::simple(w as u32, h as u32, true, 8);
        let ch = Channel::from_fn(w, h, |x, y| ((x * 37 + y * 91 + x * y * 13) % 256) as i32);
        let mut fh = FrameHeader::modular_lossless(&img);
        fh.group_size_shift = gs;
        let mut spec = ModularFrameSpec::new(fh, vec![ch]);
        spec.tree = Node::leaf(5);
        spec.code.use_prefix = false;
        let f = write_modular_frame(&img, &spec);
        let bytes = write_codestream(&img, &Sel::default(), &[f.bytes.clone()]);
        match decode_planes(&bytes, &DecOpts::default()) {
            Ok(kf) => {
                let ok = matches!(&kf[0][0], Plane::Int { data, .. } if *data == f.channels[0].data);
                println!("gs{gs} {w}x{h} sections={}: {}", f.num_sections, if ok { "ok" } else { "MISMATCH" });
            }
            Err(e) => println!("gs{gs} {w}x{h} sections={}: ERR {}", f.num_sections, &e[e.len().saturating_sub(40)..]),
        }
    }
    }
}
