//! Scratch bring-up probes (not a registered check).
use crate::c07::*;
use crate::explore::Tape;
use jxl_oxide::{JxlImage, JxlThreadPool};
use std::sync::{Arc, Mutex};

pub fn main(_args: &crate::Args) {
    crate::util::install_panic_hook();
    let scs = scenarios(false);
    let sc = scs.iter().find(|s| s.name == "rgb-130x130-groups-localtree-corrupt-section3").unwrap();
    let img = JxlImage::builder().pool(JxlThreadPool::none()).read(&sc.bytes[..]).unwrap();
    println!("none first: {:?}", img.render_frame(0).map(|_| ()).map_err(|e| e.to_string()));
    println!("render_all none: {:?}", render_all(&sc.bytes, JxlThreadPool::none()));
    println!("render_all none: {:?}", render_all(&sc.bytes, JxlThreadPool::none()));
    for tape in [vec![], vec![3u32, 0, 1, 0, 1, 0, 0, 0], vec![1, 0, 0, 0, 0, 0, 0, 0], vec![3, 0, 0, 0, 0, 0], vec![2, 0, 0, 0, 0, 0, 0]] {
        let hooks = Arc::new(TapeHooks { tape: Mutex::new(Tape::from_answers(&tape)), picks: Mutex::new(vec![]) });
        let pool = JxlThreadPool::verif(hooks.clone());
        let img = JxlImage::builder().pool(pool).read(&sc.bytes[..]).unwrap();
        let r = img.render_frame(0);
        println!("tape {:?}: {} picks {:?}", tape, match &r { Ok(_) => "ok".to_string(), Err(e) => format!("ERR {e}") }, hooks.picks.lock().unwrap());
    }
    let img = JxlImage::builder().pool(JxlThreadPool::none()).read(&sc.bytes[..]).unwrap();
    println!("none: {:?}", img.render_frame(0).map(|_| ()).map_err(|e| e.to_string()));
}
