//! C15 — output buffers agree with each other and honour orientation: full product of tiny images x
//! layouts x depths x 8 orientations x every crop rectangle x output types, against the EXIF
//! coordinate maps and the rounding rule.

use crate::explore::{n_threads, par_map};
use crate::report::{fnv, hex, Report};
use crate::util::guard;
use jxl_oxide::{CropInfo, JxlImage, JxlThreadPool};
use jxlw::frame::*;
use jxlw::headers::*;
use jxlw::modular::*;
use serde_json::json;

#[derive(Clone, Debug)]
pub struct Case {
    pub w: usize,
    pub h: usize,
    pub layout: u32, // 0 Gray, 1 GrayA, 2 RGB, 3 RGBA, 4 RGB+depth+alpha, 5 RGB + alpha + alpha2
    pub depth: u32,  // 5, 8, 12, 16, 32 (= f32)
    pub orientation: u32,
    /// 0: samples within the nominal range; 2: some samples outside it (negative and above the maximum),
    /// which integer outputs must clamp (16-bit buffers are declared for depths <= 12 either way)
    pub range: u32,
}

pub struct Built {
    pub bytes: Vec<u8>,
    /// truth per channel as f64 values in nominal range
    pub truth: Vec<Vec<f64>>,
    pub ints: Vec<Vec<i32>>,
    pub n_colour: usize,
    pub alpha_idx: Option<usize>,
    pub bits: Vec<u32>,
}

pub fn build(c: &Case) -> Built {
    let grey = c.layout <= 1;
    let n_colour = if grey { 1 } else { 3 };
    let ecs: Vec<u32> = match c.layout {
        0 | 2 => vec![],
        1 | 3 => vec![EC_ALPHA],
        4 => vec![EC_DEPTH, EC_ALPHA],
        _ => vec![EC_ALPHA, EC_ALPHA],
    };
    // depth 32 = f32 samples, 17 = f16 samples (16 bits, 5 exponent bits); both with negative values
    let float = c.depth == 32 || c.depth == 17;
    let mut img = ImageHeader::simple(c.w as u32, c.h as u32, grey, if float { 8 } else { c.depth });
    if c.depth == 32 {
        img.bit_depth = BitDepth::float(32, 8);
    } else if c.depth == 17 {
        img.bit_depth = BitDepth::float(16, 5);
    }
    img.modular_16bit_buffers = !float && c.depth <= 12;
    img.extra_fields = true;
    img.orientation = c.orientation;
    let mut bits = vec![c.depth; n_colour];
    for (i, &ty) in ecs.iter().enumerate() {
        let b = if float { 8 } else if i == 0 { c.depth } else { 8 };
        img.ec_info.push(ExtraChannelInfo::new(ty, BitDepth::int(b)));
        bits.push(b);
    }
    let nch = n_colour + ecs.len();
    let mut ints: Vec<Vec<i32>> = vec![];
    let mut truth: Vec<Vec<f64>> = vec![];
    let mut chans = vec![];
    for ci in 0..nch {
        let b = bits[ci];
        let ch = if b == 32 {
            // distinct finite floats in (-1, 1): bit patterns of k / 64, every third one negative
            Channel::from_fn(c.w, c.h, |x, y| {
                let k = (ci * 17 + y * c.w + x) % 61;
                (if k % 3 == 1 { -(k as f32) / 64.0 } else { k as f32 / 64.0 }).to_bits() as i32
            })
        } else if b == 17 {
            // f16 bit patterns of k / 64 (exact in binary16), every third one negative
            Channel::from_fn(c.w, c.h, |x, y| {
                let k = (ci * 17 + y * c.w + x) % 61;
                f16_bits(if k % 3 == 1 { -(k as f32) / 64.0 } else { k as f32 / 64.0 }) as i32
            })
        } else {
            let maxv = (1i64 << b) - 1;
            Channel::from_fn(c.w, c.h, |x, y| {
                let k = (y * c.w + x) as i64;
                let v = ((ci as i64 * 7 + k * 5 + 1) * 9973) % (maxv + 1);
                (if c.range == 2 && b <= 12 {
                    // every third sample leaves the nominal range: just above, far above, just below
                    match (k + ci as i64) % 6 {
                        0 => maxv + 1 + k % 5,
                        2 => 2 * maxv - k,
                        4 => -1 - k % 7,
                        _ => v,
                    }
                } else {
                    v
                }) as i32
            })
        };
        truth.push(if b == 32 {
            ch.data.iter().map(|&v| f32::from_bits(v as u32) as f64).collect()
        } else if b == 17 {
            ch.data.iter().map(|&v| f16_value(v as u16)).collect()
        } else { ch.data.iter().map(|&v| v as f64 / ((1i64 << b) - 1) as f64).collect() });
        ints.push(ch.data.clone());
        chans.push(ch);
    }
    let mut fh0 = FrameHeader::modular_lossless(&img);
    // range 3: a second, cropped layer replaces part of the first one, so the output is a composited canvas (the clip of
    // the layer to the canvas works in stored coordinates whatever the orientation)
    let layered = c.range == 3 && (c.w > 1 || c.h > 1);
    if layered {
        fh0.is_last = false;
    }
    let mut spec = ModularFrameSpec::new(fh0, chans);
    // (bit patterns of negative floats are huge integers: no prediction, so that residuals stay in range)
    spec.tree = Node::leaf(if float { 0 } else { 5 });
    let f = write_modular_frame(&img, &spec);
    let mut frames = vec![f.bytes];
    if layered {
        let (x0, y0) = (if c.w > 1 { 1 } else { 0 }, if c.h > 1 && c.w == 1 { 1 } else { 0 });
        let (lw, lh) = (c.w - x0, c.h - y0);
        let mut fh1 = FrameHeader::modular_lossless(&img);
        fh1.have_crop = true;
        fh1.x0 = x0 as i32;
        fh1.y0 = y0 as i32;
        fh1.width = lw as u32;
        fh1.height = lh as u32;
        let mut chans1 = vec![];
        for ci in 0..nch {
            let maxv = (1i64 << bits[ci]) - 1;
            let ch = Channel::from_fn(lw, lh, |x, y| (((ci as i64 * 11 + (y * lw + x) as i64 * 3 + 2) * 7919) % (maxv + 1)) as i32);
            for y in 0..lh {
                for x in 0..lw {
                    let v = ch.data[y * lw + x];
                    ints[ci][(y0 + y) * c.w + x0 + x] = v;
                    truth[ci][(y0 + y) * c.w + x0 + x] = v as f64 / maxv as f64;
                }
            }
            chans1.push(ch);
        }
        let mut spec1 = ModularFrameSpec::new(fh1, chans1);
        spec1.tree = Node::leaf(5);
        frames.push(write_modular_frame(&img, &spec1).bytes);
    }
    let bytes = write_codestream(&img, &Sel::default(), &frames);
    let alpha_idx = ecs.iter().position(|&t| t == EC_ALPHA).map(|i| n_colour + i);
    Built { bytes, truth, ints, n_colour, alpha_idx, bits }
}

/// binary16 bit pattern of a value that is exactly representable as a normal binary16 number (or zero).
fn f16_bits(v: f32) -> u16 {
    if v == 0.0 {
        return if v.is_sign_negative() { 0x8000 } else { 0 };
    }
    let b = v.to_bits();
    let sign = ((b >> 31) as u16) << 15;
    let e = ((b >> 23) & 0xff) as i32 - 127 + 15;
    assert!(e > 0 && e < 31 && b & 0x1fff == 0, "not a normal binary16 value");
    sign | ((e as u16) << 10) | ((b >> 13) & 0x3ff) as u16
}

fn f16_value(h: u16) -> f64 {
    let sign = if h & 0x8000 != 0 { -1.0 } else { 1.0 };
    let (e, m) = (((h >> 10) & 0x1f) as i32, (h & 0x3ff) as f64);
    sign * if e == 0 { m / 1024.0 * 2f64.powi(-14) } else { (1.0 + m / 1024.0) * 2f64.powi(e - 15) }
}

/// stored coordinates for oriented output coordinate (x, y); (sw, sh) = stored dims
pub fn to_stored(o: u32, x: usize, y: usize, sw: usize, sh: usize) -> (usize, usize) {
    match o {
        1 => (x, y),
        2 => (sw - 1 - x, y),
        3 => (sw - 1 - x, sh - 1 - y),
        4 => (x, sh - 1 - y),
        5 => (y, x),
        6 => (y, sh - 1 - x),
        7 => (sw - 1 - y, sh - 1 - x),
        8 => (sw - 1 - y, x),
        _ => unreachable!(),
    }
}

fn round_to(v: f32, max: f32) -> u32 {
    (v * max + 0.5).clamp(0.0, max) as u32
}

pub fn run(c: &Case) -> Result<u64, (String, String)> {
    let b = build(c);
    let (sw, sh) = (c.w, c.h);
    let (ow, oh) = if c.orientation >= 5 { (sh, sw) } else { (sw, sh) };
    let r = guard(|| -> Result<u64, (String, String)> {
        let mut img = JxlImage::builder().pool(JxlThreadPool::none()).read(&b.bytes[..]).map_err(|e| ("decode-error".to_string(), format!("{e}")))?;
        if (img.width() as usize, img.height() as usize) != (ow, oh) {
            return Err(("reported-dims".into(), format!("width()/height() = {}x{}, expected {}x{}", img.width(), img.height(), ow, oh)));
        }
        let mut checks = 0u64;
        // every crop rectangle in oriented coordinates, plus "no region set"
        let mut rects: Vec<Option<(usize, usize, usize, usize)>> = vec![None];
        for l in 0..ow {
            for t in 0..oh {
                for w in 1..=ow - l {
                    for h in 1..=oh - t {
                        rects.push(Some((l, t, w, h)));
                    }
                }
            }
        }
        for rect in rects {
            let (l, t, rw, rh) = rect.unwrap_or((0, 0, ow, oh));
            if let Some((l, t, w, h)) = rect {
                img.set_image_region(CropInfo { left: l as u32, top: t as u32, width: w as u32, height: h as u32 });
            }
            let render = img.render_frame(0).map_err(|e| ("render-error".to_string(), format!("{e}")))?;
            let tag = format!("o{} crop{:?}", c.orientation, rect);
            let expect = |ch: usize, x: usize, y: usize| -> f64 {
                let (sx, sy) = to_stored(c.orientation, l + x, t + y, sw, sh);
                b.truth[ch][sy * sw + sx]
            };
            let nch = b.truth.len();
            // interleaved
            let fb = render.image_all_channels();
            if (fb.width(), fb.height(), fb.channels()) != (rw, rh, nch) {
                return Err(("interleaved-dims".into(), format!("{tag}: image_all_channels is {}x{}x{}, expected {}x{}x{}", fb.width(), fb.height(), fb.channels(), rw, rh, nch)));
            }
            for y in 0..rh {
                for x in 0..rw {
                    for ch in 0..nch {
                        let got = fb.buf()[(y * rw + x) * nch + ch] as f64;
                        let want = expect(ch, x, y);
                        if (got - want).abs() > 1e-6 {
                            return Err((format!("interleaved-sample:o{}", c.orientation), format!("{tag}: interleaved ({x},{y}) ch{ch} = {got}, expected {want}")));
                        }
                        checks += 1;
                    }
                }
            }
            // planar
            let planar = render.image_planar();
            if planar.len() != nch {
                return Err(("planar-count".into(), format!("{tag}: {} planar buffers, expected {nch}", planar.len())));
            }
            for (ch, p) in planar.iter().enumerate() {
                if (p.width(), p.height(), p.channels()) != (rw, rh, 1) {
                    return Err(("planar-dims".into(), format!("{tag}: planar {ch} is {}x{}x{}", p.width(), p.height(), p.channels())));
                }
                for i in 0..rw * rh {
                    if p.buf()[i].to_bits() != fb.buf()[i * nch + ch].to_bits() {
                        return Err(("planar-vs-interleaved".into(), format!("{tag}: planar ch{ch} sample {i} = {} but interleaved has {}", p.buf()[i], fb.buf()[i * nch + ch])));
                    }
                    checks += 1;
                }
            }
            // streams
            for no_alpha in [false, true] {
                let chans: Vec<usize> = (0..b.n_colour).chain(if no_alpha { None } else { b.alpha_idx }).collect();
                let sc = chans.len();
                let total = rw * rh * sc;
                let mk = || if no_alpha { render.stream_no_alpha() } else { render.stream() };
                let s0 = mk();
                if (s0.width() as usize, s0.height() as usize, s0.channels() as usize) != (rw, rh, sc) {
                    return Err(("stream-dims".into(), format!("{tag}: stream(no_alpha={no_alpha}) is {}x{}x{}, expected {}x{}x{}", s0.width(), s0.height(), s0.channels(), rw, rh, sc)));
                }
                for bufsize in [1usize, 3, total, total + 5] {
                    // f32
                    let mut s = mk();
                    let mut out: Vec<f32> = Vec::new();
                    loop {
                        let mut buf = vec![-7.0f32; bufsize];
                        let n = s.write_to_buffer(&mut buf);
                        if n > bufsize {
                            return Err(("stream-count".into(), format!("{tag}: write_to_buffer returned {n} for a buffer of {bufsize}")));
                        }
                        out.extend_from_slice(&buf[..n]);
                        if n == 0 || out.len() > total + 10 {
                            break;
                        }
                    }
                    if out.len() != total {
                        return Err(("stream-length".into(), format!("{tag}: f32 stream (buf {bufsize}, no_alpha={no_alpha}) produced {} samples, expected {total}", out.len())));
                    }
                    for i in 0..total {
                        let (px, k) = (i / sc, i % sc);
                        let want = fb.buf()[px * nch + chans[k]];
                        if out[i].to_bits() != want.to_bits() {
                            return Err((format!("stream-f32:o{}", c.orientation), format!("{tag}: f32 stream sample {i} = {} but interleaved channel {} has {}", out[i], chans[k], want)));
                        }
                        checks += 1;
                    }
                    if bufsize != 3 && bufsize != total {
                        continue;
                    }
                    // u16 / u8
                    let mut s = mk();
                    let mut o16: Vec<u16> = Vec::new();
                    loop {
                        let mut buf = vec![0u16; bufsize];
                        let n = s.write_to_buffer(&mut buf);
                        o16.extend_from_slice(&buf[..n]);
                        if n == 0 {
                            break;
                        }
                    }
                    let mut s = mk();
                    let mut o8: Vec<u8> = Vec::new();
                    loop {
                        let mut buf = vec![0u8; bufsize];
                        let n = s.write_to_buffer(&mut buf);
                        o8.extend_from_slice(&buf[..n]);
                        if n == 0 {
                            break;
                        }
                    }
                    if o16.len() != total || o8.len() != total {
                        return Err(("stream-length".into(), format!("{tag}: integer streams produced {} / {} samples, expected {total}", o16.len(), o8.len())));
                    }
                    for i in 0..total {
                        let (px, k) = (i / sc, i % sc);
                        let ch = chans[k];
                        let f = fb.buf()[px * nch + ch];
                        let (w16, w8) = (round_to(f, 65535.0), round_to(f, 255.0));
                        if o16[i] as u32 != w16 || o8[i] as u32 != w8 {
                            return Err(("stream-rounding".into(), format!("{tag}: sample {i} float {f}: u16 {} (expected {w16}), u8 {} (expected {w8})", o16[i], o8[i])));
                        }
                        // exact integers when the stored depth equals the output depth
                        let (x, y) = (px % rw, px / rw);
                        let (sx, sy) = to_stored(c.orientation, l + x, t + y, sw, sh);
                        let iv = b.ints[ch][sy * sw + sx];
                        let iv8 = iv.clamp(0, 255);
                        let iv = iv.clamp(0, 65535);
                        if b.bits[ch] == 8 && o8[i] as i32 != iv8 {
                            return Err(("stream-u8-exact".into(), format!("{tag}: 8-bit sample {iv} came out as {}", o8[i])));
                        }
                        if b.bits[ch] == 16 && o16[i] as i32 != iv {
                            return Err(("stream-u16-exact".into(), format!("{tag}: 16-bit sample {iv} came out as {}", o16[i])));
                        }
                        checks += 2;
                    }
                }
            }
        }
        Ok(checks)
    });
    match r {
        Ok(x) => x,
        Err(p) => Err((format!("panic@{}", crate::util::panic_site(&p)), format!("panic: {p}"))),
    }
}

pub fn cases(quick: bool) -> Vec<Case> {
    let mut sizes: Vec<(usize, usize)> = vec![];
    for w in 1..=4 {
        for h in 1..=3 {
            sizes.push((w, h));
        }
    }
    sizes.push((5, 2));
    if !quick {
        sizes.extend([(2, 5), (6, 4), (9, 2)]);
    }
    let mut out = vec![];
    for &(w, h) in &sizes {
        for layout in 0..6u32 {
            for depth in [5u32, 8, 12, 16, 32, 17] {
                for o in 1..=8u32 {
                    if quick && w * h > 6 && !(depth == 8 || depth == 16) && layout != 4 {
                        continue;
                    }
                    out.push(Case { w, h, layout, depth, orientation: o, range: 0 });
                }
            }
        }
    }
    // 16-bit buffers, and out-of-range samples that every integer output has to clamp
    for &(w, h) in &[(2usize, 2usize), (4, 3)] {
        for layout in 0..6u32 {
            for depth in [5u32, 8, 12] {
                for o in [1u32, 6] {
                    for range in [2u32] {
                        out.push(Case { w, h, layout, depth, orientation: o, range });
                    }
                }
                // two layers (the second cropped) under every orientation
                for o in 1..=8u32 {
                    if depth == 8 || layout == 3 {
                        out.push(Case { w, h, layout, depth, orientation: o, range: 3 });
                    }
                }
            }
        }
    }
    out
}

pub fn main(args: &crate::Args) {
    crate::util::install_panic_hook();
    if let Some(p) = &args.replay {
        replay(p);
    }
    let mut rep = Report::new("C15", &args.tier, "exploration");
    let quick = rep.is_quick();
    let cs = cases(quick);
    let results = par_map(&cs, n_threads(), |_, c| run(c));
    let mut sample_checks = 0u64;
    for (c, r) in cs.iter().zip(&results) {
        rep.eval();
        match r {
            Ok(n) => {
                sample_checks += n;
                rep.outcome("ok");
                rep.nontrivial(fnv(format!("{:?}", c).as_bytes()));
            }
            Err((k, w)) => {
                rep.outcome("bad");
                rep.violation(k, &format!("{w} [{:?}]", c), &json!({"w": c.w, "h": c.h, "layout": c.layout, "depth": c.depth, "orientation": c.orientation, "range": c.range, "stream_hex": hex(&build(c).bytes)}));
            }
        }
    }
    // the real CMYK + alpha file: channel order colour, black, alpha
    if let Ok(bytes) = std::fs::read("/repo/crates/jxl-oxide-tests/tests/cms/cmyk_layers.jxl") {
        rep.eval();
        let r = guard(|| -> Result<(), String> {
            let img = JxlImage::builder().pool(JxlThreadPool::none()).read(&bytes[..]).map_err(|e| format!("{e}"))?;
            let render = img.render_frame(0).map_err(|e| format!("{e}"))?;
            let fb = render.image_all_channels();
            let (ecs, _) = render.extra_channels();
            let kidx = ecs.iter().position(|e| e.is_black()).ok_or("no black channel")?;
            let aidx = ecs.iter().position(|e| e.is_alpha()).ok_or("no alpha channel")?;
            let mut s = render.stream();
            if s.channels() != 5 {
                return Err(format!("stream has {} channels, expected C,M,Y,K,A", s.channels()));
            }
            let total = (s.width() * s.height() * 5) as usize;
            let mut buf = vec![0f32; total];
            let n = s.write_to_buffer(&mut buf);
            if n != total {
                return Err(format!("stream wrote {n} of {total}"));
            }
            let nch = fb.channels();
            for px in (0..total / 5).step_by(97) {
                let want = [fb.buf()[px * nch], fb.buf()[px * nch + 1], fb.buf()[px * nch + 2], fb.buf()[px * nch + 3 + kidx], fb.buf()[px * nch + 3 + aidx]];
                for k in 0..5 {
                    if buf[px * 5 + k].to_bits() != want[k].to_bits() {
                        return Err(format!("pixel {px} stream channel {k}: {} vs expected {}", buf[px * 5 + k], want[k]));
                    }
                }
            }
            Ok(())
        });
        match r {
            Ok(Ok(())) => rep.outcome("ok"),
            Ok(Err(e)) => rep.violation("cmyk-channel-order", &e, &json!({"file": "cmyk_layers.jxl"})),
            Err(p) => rep.violation("cmyk-panic", &p, &json!({"file": "cmyk_layers.jxl"})),
        }
    }
    rep.rule = "FULL PRODUCT of image sizes (w 1..4 x h 1..3, 5x2; thorough adds 2x5, 6x4, 9x2) x 6 channel layouts (Gray, GrayA, RGB, RGBA, RGB+depth+alpha, RGB+2 alphas) x sample depths {5, 8, 12, 16, f32, f16; the float ones with negative samples} x orientations 1..8 x EVERY crop rectangle in oriented coordinates (plus no region) x outputs {image_all_channels, image_planar, stream, stream_no_alpha} x sample types {f32, u16, u8} x write-buffer sizes {1, 3, exact, oversized}; every image has a distinct value in every sample; oracle: EXIF coordinate maps, v/(2^bits-1), clamp(floor(f*max+0.5)), exact integers when depths match; plus two-layer images (a cropped Replace layer over a full one) under every orientation, and channel order C,M,Y,K,A on cmyk_layers.jxl. Each case = one image; sample comparisons are counted separately.".into();
    rep.extra.insert("sample_comparisons".into(), json!(sample_checks));
    rep.sample(json!({"case": format!("{:?}", cs[cs.len() / 2]), "stream_hex": hex(&build(&cs[cs.len() / 2]).bytes)}));
    rep.sample(json!({"case": format!("{:?}", cs[cs.len() - 1])}));
    rep.exhaustive = true;
    rep.assumptions = vec!["jxlw streams (lossless Modular, gradient predictor) carry the known samples; reference maps written from the EXIF orientation definitions".into(), "spot-colour rendering is not in the alphabet (it changes colour samples by design)".into()];
    rep.finish();
}

fn replay(path: &str) -> ! {
    let s = std::fs::read_to_string(path).unwrap_or_else(|e| crate::explore::machinery_failure(&format!("{path}: {e}")));
    let v: serde_json::Value = serde_json::from_str(&s).unwrap();
    let g = |k: &str| v[k].as_u64().unwrap_or(1);
    let c = Case { w: g("w") as usize, h: g("h") as usize, layout: g("layout") as u32, depth: g("depth") as u32, orientation: g("orientation") as u32, range: v["range"].as_u64().unwrap_or(0) as u32 };
    match run(&c) {
        Ok(_) => {
            println!("replay: property holds on this case");
            std::process::exit(0)
        }
        Err((k, w)) => {
            println!("VIOLATION property=C15 replay={path}\n  key={k} :: {w}");
            std::process::exit(1)
        }
    }
}
