//! C01 — totality on untrusted bytes: byte strings within a deviation bound of seeds (valid corpus,
//! the repository's hostile regressions), all tiny byte strings, structured extreme headers, each
//! driven through the public API in several call orders / chunkings inside worker subprocesses
//! (built with overflow checks and debug assertions) under a watchdog.

use crate::corpus::corpus;
use crate::report::{fnv, hex, Report};
use crate::util::{guard, panic_site};
use jxl_oxide::{AllocTracker, CropInfo, EnumColourEncoding, InitializeResult, JxlImage, JxlThreadPool, RenderingIntent};
use serde_json::json;
use std::time::Duration;

const LIMIT: usize = 64 << 20;

fn builder() -> jxl_oxide::JxlImageBuilder {
    JxlImage::builder().pool(JxlThreadPool::none()).alloc_tracker(AllocTracker::with_limit(LIMIT))
}

fn metadata_calls(img: &mut JxlImage) {
    let _ = img.image_header();
    let _ = (img.width(), img.height());
    let _ = img.original_icc().map(|x| x.len());
    let _ = img.rendered_icc();
    let _ = img.rendered_cicp();
    let _ = img.pixel_format();
    let _ = img.hdr_type();
    let _ = img.aux_boxes().first_exif().map(|_| ());
    let _ = img.aux_boxes().first_xml();
    let _ = (img.num_loaded_frames(), img.num_loaded_keyframes(), img.is_loading_done());
    for i in 0..img.num_loaded_frames().min(4) + 1 {
        let _ = img.frame_offset(i);
        let _ = img.frame(i).map(|f| f.toc().total_byte_size());
    }
    let _ = img.frame_header(0).map(|h| h.is_keyframe());
}

fn too_big(img: &JxlImage) -> bool {
    let h = img.image_header();
    h.size.width.max(h.size.height) > 65536
}

fn render_calls(img: &mut JxlImage) {
    if too_big(img) {
        return;
    }
    for k in 0..img.num_loaded_keyframes().min(4) {
        if let Ok(r) = img.render_frame(k) {
            let fb = r.image_all_channels();
            let _ = fb.buf().len();
            let mut s = r.stream();
            let mut buf = vec![0u8; 64];
            let _ = s.write_to_buffer(&mut buf);
        }
    }
    let _ = img.render_loading_frame().map(|_| ());
    let (w, h) = (img.width(), img.height());
    img.set_image_region(CropInfo { left: w / 3, top: h / 3, width: (w / 2).max(1), height: (h / 2).max(1) });
    let _ = img.render_frame(0).map(|_| ());
    img.set_image_region(CropInfo { left: 0, top: 0, width: w, height: h });
}

fn colour_calls(img: &mut JxlImage) {
    img.request_color_encoding(EnumColourEncoding::srgb(RenderingIntent::Relative));
    let _ = img.rendered_icc();
    if !too_big(img) {
        let _ = img.render_frame(0).map(|_| ());
    }
    img.request_color_encoding(EnumColourEncoding::display_p3_pq(RenderingIntent::Perceptual));
    let _ = img.rendered_cicp();
    img.request_color_encoding(EnumColourEncoding::gray_srgb(RenderingIntent::Relative));
    let icc = jxl_color::icc::colour_encoding_to_icc(&EnumColourEncoding::srgb_gamma22(RenderingIntent::Relative));
    let _ = img.request_icc(&icc);
    let _ = img.request_icc(&[1, 2, 3]);
    let _ = img.pixel_format();
}

fn recon_calls(img: &mut JxlImage) {
    let _ = img.jpeg_reconstruction_status();
    let mut out = Vec::new();
    let _ = img.reconstruct_jpeg(&mut out);
}

/// Runs one case: `order` selects the order of the call groups, `chunk` the feeding mode.
/// Returns an outcome string; panics are caught and reported as "panic@site".
pub fn run_case(bytes: &[u8], order: u32, chunk: u32) -> String {
    let r = guard(|| -> String {
        let mut img: JxlImage = if chunk == 0 {
            match builder().read(bytes) {
                Ok(i) => i,
                Err(_) => return "read:err".into(),
            }
        } else {
            let size = match chunk {
                1 => 1,
                2 => 2,
                3 => 7,
                _ => (bytes.len() / 2).max(1),
            };
            let mut uninit = Some(builder().build_uninit());
            let mut image: Option<JxlImage> = None;
            let mut pending: Vec<u8> = Vec::new();
            for c in bytes.chunks(size) {
                pending.extend_from_slice(c);
                if let Some(img) = image.as_mut() {
                    match img.feed_bytes(&pending) {
                        Ok(n) => {
                            pending.drain(..n.min(pending.len()));
                        }
                        Err(_) => return "feed:err".into(),
                    }
                } else {
                    let mut u = uninit.take().unwrap();
                    match u.feed_bytes(&pending) {
                        Ok(n) => {
                            pending.drain(..n.min(pending.len()));
                        }
                        Err(_) => return "feed:err".into(),
                    }
                    match u.try_init() {
                        Ok(InitializeResult::NeedMoreData(u)) => uninit = Some(u),
                        Ok(InitializeResult::Initialized(i)) => image = Some(i),
                        Err(_) => return "init:err".into(),
                    }
                }
            }
            match image {
                Some(mut i) => {
                    let _ = i.finalize();
                    i
                }
                None => return "uninit".into(),
            }
        };
        let groups: [[u8; 4]; 6] = [[0, 1, 2, 3], [1, 0, 3, 2], [3, 2, 1, 0], [2, 0, 1, 3], [1, 3, 0, 2], [0, 2, 3, 1]];
        for g in groups[(order % 6) as usize] {
            match g {
                0 => metadata_calls(&mut img),
                1 => render_calls(&mut img),
                2 => recon_calls(&mut img),
                _ => colour_calls(&mut img),
            }
        }
        "ok".into()
    });
    match r {
        Ok(s) => s,
        Err(p) => format!("panic@{}", panic_site(&p)),
    }
}

// ---------------------------------------------------------------------------------------------
// case generation

pub struct CaseSet {
    pub cases: Vec<(Vec<u8>, u32, u32, String)>,
}

fn mutants(seed: &[u8], name: &str, max_pos: usize, out: &mut Vec<(Vec<u8>, u32, u32, String)>) {
    let n = seed.len();
    let positions: Vec<usize> = if n <= max_pos { (0..n).collect() } else { (0..max_pos).map(|i| if i < max_pos * 3 / 4 { i } else { (i - max_pos * 3 / 4) * (n - max_pos * 3 / 4) / (max_pos / 4).max(1) + max_pos * 3 / 4 }).filter(|&p| p < n).collect() };
    for &p in &positions {
        let b = seed[p];
        let mut vals = vec![0x00, 0xff, b ^ 0x01, b ^ 0x80, b.wrapping_add(1), b.wrapping_sub(1)];
        for k in 1..7 {
            vals.push(b ^ (1 << k));
        }
        vals.sort();
        vals.dedup();
        for v in vals {
            if v == b {
                continue;
            }
            let mut m = seed.to_vec();
            m[p] = v;
            let h = fnv(&m);
            out.push((m, (h % 6) as u32, if n <= 256 { ((h >> 8) % 5) as u32 } else { 0 }, format!("{name}:byte{p}={v:02x}")));
        }
        // truncation at p
        let m = seed[..p].to_vec();
        let h = fnv(&m) ^ p as u64;
        out.push((m, (h % 6) as u32, 0, format!("{name}:trunc{p}")));
    }
}

fn structured(out: &mut Vec<(Vec<u8>, u32, u32, String)>) {
    use crate::explore::{collect_tapes, Tape};
    use jxlw::bits::BitWriter;
    use jxlw::frame::*;
    use jxlw::headers::*;
    use jxlw::modular::*;
    // extreme-but-valid image headers (C14's alphabet) followed by a small valid frame
    let (tapes, _) = collect_tapes(1, 0, |t| {
        let _ = crate::c14::image_case(t);
    });
    let small = ImageHeader::simple(5, 3, false, 8);
    let frame = {
        let spec = ModularFrameSpec::new(FrameHeader::modular_lossless(&small), (0..3).map(|c| Channel::from_fn(5, 3, |x, y| ((x * 7 + y * 3 + c) % 200) as i32)).collect());
        write_modular_frame(&small, &spec).bytes
    };
    for (i, tp) in tapes.iter().enumerate() {
        let mut t = Tape::from_answers(tp);
        if let Some(c) = crate::c14::image_case(&mut t) {
            let mut w = BitWriter::new();
            c.h.write(&mut w, &c.sel);
            let mut b = w.finish();
            b.extend_from_slice(&frame);
            for order in 0..2 {
                out.push((b.clone(), order, 0, format!("structured-header{i}")));
            }
        }
    }
    // frame headers + TOCs of C14's alphabet INCLUDING the combinations the format forbids: every 1-deviation header
    // and the full product frame type x flags x lf_level x encoding x image context (the fields that select which
    // tables and slots the frame touches), each followed by zero bytes and by patterned bytes
    {
        let (mut ftapes, _) = collect_tapes(1, 0, |t| {
            let _ = crate::c14::frame_case_ex(t, true);
        });
        let len = ftapes[0].len();
        for ctx in [0u32, 1, 3, 5] {
            for ft in 0..4u32 {
                for enc in 0..2u32 {
                    for flags in 0..6u32 {
                        for lf in 0..4u32 {
                            let mut t = vec![0u32; len];
                            t[0] = ctx;
                            t[2] = ft;
                            t[3] = enc;
                            t[4] = flags;
                            t[14] = lf;
                            ftapes.push(t);
                        }
                    }
                }
            }
        }
        ftapes.sort();
        ftapes.dedup();
        for (i, tp) in ftapes.iter().enumerate() {
            let mut t = Tape::from_answers(tp);
            if let Some(c) = crate::c14::frame_case_ex(&mut t, true) {
                let total: usize = c.toc_sizes.iter().map(|&s| s as usize).sum::<usize>().min(600);
                let zeros = vec![0u8; total + 8];
                let pattern: Vec<u8> = (0..total + 8).map(|k| (k * 37 + 11) as u8).collect();
                out.push((crate::c14::frame_case_stream(&c, &zeros), (i % 6) as u32, 0, format!("structured-frame{i}-zeros")));
                out.push((crate::c14::frame_case_stream(&c, &pattern), ((i + 3) % 6) as u32, 0, format!("structured-frame{i}-pattern")));
            }
        }
    }
    // VarDCT frames whose first varblock names every transform type value, valid or not (0..=28, 255, negative, large),
    // on a one-block and on a 4x3-block frame (most types do not fit and must be rejected, none may be trusted)
    for size in [(8usize, 8usize), (32, 24)] {
        for v in (1..=28).chain([63, 255, 256, -1, 1 << 20]) {
            let mut t = Tape::default();
            let mut c = crate::c17::cfg_from(&mut t);
            c.size = size;
            c.pattern = 0;
            let spec = crate::c17::spec_of(&c, 3);
            let b = spec.write_codestream_with(&jxlw::jpeg::StreamOpts { hostile_dct_select: Some(v), ..Default::default() });
            out.push((b, (v.unsigned_abs() % 6) as u32, 0, format!("structured-dctselect{v}-{}x{}", size.0, size.1)));
        }
    }
    // Modular frames with one LZ77 copy whose distance value takes every value around the special-code table (0..=130) and
    // the window limits, for three distance multipliers (channel widths) and two positions
    {
        use jxlw::entropy::{CodeOpts, HybridCfg, Lz77};
        let mut k = 0u32;
        for (w, h) in [(1usize, 9usize), (5, 3), (33, 2)] {
            for pos in [1usize, 7] {
                for dv in (0..=130u32).chain([255, 1023, (1 << 20) - 2, (1 << 20) - 1, 1 << 20, (1 << 20) + 119, (1 << 20) + 120, 1 << 24]) {
                    let img = ImageHeader::simple(w as u32, h as u32, true, 8);
                    let fh = FrameHeader::modular_lossless(&img);
                    let ch = vec![jxlw::modular::Channel::from_fn(w, h, |x, y| ((x * 7 + y * 3) % 11) as i32)];
                    let mut spec = jxlw::frame::ModularFrameSpec::new(fh, ch);
                    spec.code = CodeOpts { use_prefix: true, cfg: Some(HybridCfg::new(4, 1, 0)), lz77: Some(Lz77 { min_symbol: 224, min_length: 3, len_cfg: HybridCfg::new(0, 0, 0) }), ..Default::default() };
                    spec.lz77_force = Some((pos, 3, dv));
                    let r = std::panic::catch_unwind(std::panic::AssertUnwindSafe(|| jxlw::frame::write_codestream(&img, &Sel::default(), &[jxlw::frame::write_modular_frame(&img, &spec).bytes])));
                    if let Ok(b) = r {
                        out.push((b, k % 6, 0, format!("structured-lz77-{w}x{h}-pos{pos}-dist{dv}")));
                        k += 1;
                    }
                }
            }
        }
    }
    // container layouts of C10's box alphabet (every single box and every ordered pair, grammatical or not) through the
    // whole decoder: box-size arithmetic is checked here with overflow checks on
    {
        let all: Vec<u8> = (0..(crate::c10::N_REGULAR + crate::c10::N_LAST) as u8).chain(31..=33).collect();
        let mut k = 0u32;
        for &a in &all {
            out.push((crate::c10::build(&[0, a]), k % 6, (k % 2) as u32, format!("structured-boxes-{a}")));
            k += 1;
            for &b in &all {
                out.push((crate::c10::build(&[a, b]), k % 6, (k % 3) as u32, format!("structured-boxes-{a}-{b}")));
                k += 1;
            }
        }
    }
    // colour encodings that describe no real colour space, hostile gamma, with every metadata / colour call
    let bad: Vec<ColourEncoding> = vec![
        ColourEncoding { all_default: false, colour_space: CS_UNKNOWN, ..ColourEncoding::srgb() },
        ColourEncoding { all_default: false, transfer_function: TF_UNKNOWN, ..ColourEncoding::srgb() },
        ColourEncoding { all_default: false, have_gamma: true, gamma: 0, ..ColourEncoding::srgb() },
        ColourEncoding { all_default: false, have_gamma: true, gamma: 1, ..ColourEncoding::srgb() },
        ColourEncoding { all_default: false, colour_space: CS_XYB, ..ColourEncoding::srgb() },
        ColourEncoding { all_default: false, white_point: WP_CUSTOM, white: (0, 0), ..ColourEncoding::srgb() },
        ColourEncoding { all_default: false, white_point: WP_CUSTOM, white: (1_000_000, 0), ..ColourEncoding::srgb() },
        ColourEncoding { all_default: false, primaries: PR_CUSTOM, red: (0, 0), green: (0, 0), blue: (0, 0), ..ColourEncoding::srgb() },
        ColourEncoding { all_default: false, primaries: PR_CUSTOM, red: (333_333, 333_333), green: (333_333, 333_333), blue: (333_333, 333_333), ..ColourEncoding::srgb() },
        ColourEncoding { all_default: false, colour_space: CS_GREY, white_point: WP_CUSTOM, white: (-2_097_151, 2_097_151), transfer_function: TF_UNKNOWN, ..ColourEncoding::srgb() },
    ];
    for (i, ce) in bad.iter().enumerate() {
        for xyb in [false, true] {
            let mut img = ImageHeader::simple(5, 3, false, 8);
            img.colour_encoding = ce.clone();
            img.xyb_encoded = xyb;
            let mut w = BitWriter::new();
            img.write(&mut w, &Sel::default());
            let mut b = w.finish();
            b.extend_from_slice(&frame);
            for order in 0..6 {
                out.push((b.clone(), order, 0, format!("structured-colour{i}-xyb{xyb}")));
            }
        }
    }
}

pub fn generate(quick: bool) -> Vec<(Vec<u8>, u32, u32, String)> {
    let mut out: Vec<(Vec<u8>, u32, u32, String)> = vec![];
    // (a) tiny strings
    out.push((vec![], 0, 0, "empty".into()));
    for a in 0..=255u8 {
        out.push((vec![a], 0, 0, format!("len1:{a:02x}")));
    }
    for a in 0..=255u8 {
        for b in 0..=255u8 {
            if quick && !(a == 0xff || a == 0 || b == 0x0a || b == 0 || (a as u32 * 256 + b as u32) % 17 == 0) {
                continue;
            }
            out.push((vec![a, b], 0, ((a ^ b) % 2) as u32, format!("len2:{a:02x}{b:02x}")));
        }
    }
    for c in 0..=255u8 {
        out.push((vec![0xff, 0x0a, c], 0, 0, format!("ff0a{c:02x}")));
        out.push((vec![0, 0, c], 0, 1, format!("0000{c:02x}")));
        for d in [0u8, 0x10, 0x88, 0xff] {
            out.push((vec![0xff, 0x0a, c, d], 0, 0, format!("ff0a{c:02x}{d:02x}")));
        }
    }
    // (b) seeds
    let mut seeds: Vec<(String, Vec<u8>)> = corpus().into_iter().map(|i| (i.name, i.bytes)).collect();
    if let Ok(rd) = std::fs::read_dir("/repo/crates/jxl-oxide-tests/tests/fuzz_findings") {
        let mut names: Vec<_> = rd.flatten().filter(|e| e.path().extension().map(|x| x == "fuzz").unwrap_or(false)).map(|e| e.path()).collect();
        names.sort();
        for p in names {
            if let Ok(b) = std::fs::read(&p) {
                seeds.push((format!("fuzz:{}", p.file_stem().unwrap().to_string_lossy()), b));
            }
        }
    }
    if let Ok(b) = std::fs::read("/repo/crates/jxl-oxide-tests/tests/cms/cmyk_layers.jxl") {
        seeds.push(("cmyk_layers".into(), b));
    }
    for (name, s) in &seeds {
        // the seed itself in all orders and chunkings
        for order in 0..6 {
            out.push((s.clone(), order, 0, format!("{name}:seed")));
        }
        if s.len() <= 4096 {
            for chunk in 1..5 {
                out.push((s.clone(), chunk % 6, chunk, format!("{name}:seed-chunk{chunk}")));
            }
        }
        let big = s.len() > 20_000;
        // quick: streams over 5000 bytes (large images, costly renders) get the small cap as well
        let max_pos = if quick { if big || s.len() > 5000 { 24 } else { 96 } } else if big { 400 } else { 2048 };
        mutants(s, name, max_pos, &mut out);
    }
    // (c) structured
    structured(&mut out);
    out
}

pub fn main(args: &crate::Args) {
    if args.rest.first().map(|s| s == "--worker").unwrap_or(false) {
        crate::workers::worker_main(&args.rest[1], args.rest[2].parse().unwrap_or(0), run_case);
    }
    crate::util::install_panic_hook();
    let mut rep = Report::new("C01", &args.tier, "exploration");
    let quick = rep.is_quick();
    if let Some(p) = &args.replay {
        replay(p);
    }
    let cases = generate(quick);
    let deadline = Duration::from_secs(if quick { 10 } else { 60 });
    let triples: Vec<(&[u8], u32, u32)> = cases.iter().map(|c| (&c.0[..], c.1, c.2)).collect();
    let outcomes = crate::workers::run_cases("C01", &triples, deadline);
    let mut done = 0u64;
    for (gi, outcome) in outcomes.iter().enumerate() {
        let (bytes, order, chunk, name) = &cases[gi];
        let Some(outcome) = outcome else { continue };
        done += 1;
        rep.eval();
        let class = outcome.split('(').next().unwrap_or("").to_string();
        rep.outcome(if outcome.starts_with("panic@") { "panic" } else { &class });
        if outcome != "read:err" && outcome != "uninit" {
            rep.nontrivial(fnv(bytes) ^ (*order as u64) << 3 ^ *chunk as u64);
        }
        if outcome.starts_with("panic@") || outcome.starts_with("hang") || outcome.starts_with("abort") {
            let key = if outcome.starts_with("panic@") { outcome.clone() } else { format!("{}:{}", class, name.split(':').next().unwrap_or("")) };
            rep.violation(&key, &format!("{outcome} on input {name} (order {order}, chunking {chunk}, {} bytes)", bytes.len()), &json!({"input_hex": hex(&bytes[..bytes.len().min(20000)]), "input_len": bytes.len(), "name": name, "order": order, "chunk": chunk}));
        }
    }
    if let Some(h) = crate::workers::stopped_early() {
        rep.caps.push(format!("stopped after {h} calls that did not return within the deadline: {} of {} cases were not run", cases.len() - done as usize, cases.len()));
    } else if done as usize != cases.len() {
        crate::explore::machinery_failure(&format!("only {done} of {} cases reported an outcome", cases.len()));
    }
    let seeds_n = cases.iter().filter(|c| c.3.ends_with(":seed")).map(|c| c.3.clone()).collect::<std::collections::BTreeSet<_>>().len();
    rep.rule = format!("(a) {} byte strings of length <= 2 and all 3/4-byte strings behind the signatures ff0a / 0000; (b) ALL 1-deviation mutants (every byte position up to a per-seed cap x {{00, ff, b^01, b^80, b+1, b-1, 6 further single-bit flips}}, and truncation at every such position) of {} seeds (jxlw corpus, the 60 hostile regressions of the repository, cmyk_layers.jxl), each seed also in all 6 call orders and 4 chunkings; (c) structured inputs: every 1-deviation extreme-but-valid image header of C14's alphabet and 20 degenerate colour encodings (unknown colour space / transfer function, gamma 0, degenerate chromaticities, XYB) followed by a valid frame; every input runs read() or chunked feed + try_init, then the four call groups (metadata incl. rendered_icc/cicp/pixel_format/aux boxes; render keyframes + loading frame + region; JPEG reconstruction status/reconstruct; request_color_encoding/request_icc) in an order fixed by the input's hash; in worker subprocesses built with overflow checks + debug assertions, 64 MiB tracker, {} s per-case watchdog. Oracle: every call returns; no panic, abort or hang. Non-trivial = input gets past initialisation.", if quick { "sampled" } else { "ALL 65793" }, &seeds_n.to_string(), deadline.as_secs());
    rep.sample(json!({"input_hex": hex(&cases[cases.len() / 2].0[..cases[cases.len() / 2].0.len().min(64)]), "name": cases[cases.len() / 2].3}));
    rep.sample(json!({"name": cases.last().unwrap().3, "bytes": cases.last().unwrap().0.len()}));
    rep.exhaustive = !quick && crate::workers::stopped_early().is_none();
    rep.assumptions = vec![
        "inputs more than one deviation away from a seed are outside the explored space".into(),
        "feeding again after feed_bytes returned Err is not in the alphabet (the API reports no consumed count on error)".into(),
        "images with a dimension above 65536 are not rendered (as in the project's own fuzz harness)".into(),
    ];
    rep.finish();
}

fn replay(path: &str) -> ! {
    let s = std::fs::read_to_string(path).unwrap_or_else(|e| crate::explore::machinery_failure(&format!("{path}: {e}")));
    let v: serde_json::Value = serde_json::from_str(&s).unwrap();
    let bytes = crate::report::unhex(v["input_hex"].as_str().unwrap());
    let r = run_case(&bytes, v["order"].as_u64().unwrap_or(0) as u32, v["chunk"].as_u64().unwrap_or(0) as u32);
    println!("outcome: {r}");
    if r.starts_with("panic@") {
        println!("VIOLATION property=C01 replay={path}\n  key={r}");
        std::process::exit(1)
    }
    println!("replay: property holds on this case (hangs/aborts are only observable through the worker)");
    std::process::exit(0)
}
