//! Helpers that drive the real decoder and expose what it produced.

use crate::util::guard;
use jxl_oxide::{JxlImage, JxlThreadPool};
use jxl_render::ImageBuffer;

#[derive(Clone, Debug, PartialEq)]
pub enum Plane {
    Int { w: usize, h: usize, data: Vec<i32> },
    Float { w: usize, h: usize, data: Vec<f32> },
}

impl Plane {
    pub fn dims(&self) -> (usize, usize) {
        match self {
            Plane::Int { w, h, .. } | Plane::Float { w, h, .. } => (*w, *h),
        }
    }
    pub fn kind(&self) -> &'static str {
        match self {
            Plane::Int { .. } => "int",
            Plane::Float { .. } => "float",
        }
    }
}

pub fn plane_of(b: &ImageBuffer) -> Plane {
    match b {
        ImageBuffer::I16(g) => {
            let (w, h) = (g.width(), g.height());
            let mut data = Vec::with_capacity(w * h);
            for y in 0..h {
                data.extend(g.get_row(y).iter().map(|&v| v as i32));
            }
            Plane::Int { w, h, data }
        }
        ImageBuffer::I32(g) => {
            let (w, h) = (g.width(), g.height());
            let mut data = Vec::with_capacity(w * h);
            for y in 0..h {
                data.extend_from_slice(g.get_row(y));
            }
            Plane::Int { w, h, data }
        }
        ImageBuffer::F32(g) => {
            let (w, h) = (g.width(), g.height());
            let mut data = Vec::with_capacity(w * h);
            for y in 0..h {
                data.extend_from_slice(g.get_row(y));
            }
            Plane::Float { w, h, data }
        }
    }
}

#[derive(Clone, Debug, Default)]
pub struct DecOpts {
    pub wide: bool,
    pub pool: Option<usize>,
}

pub fn open(bytes: &[u8], o: &DecOpts) -> Result<JxlImage, String> {
    let pool = match o.pool {
        None => JxlThreadPool::none(),
        Some(n) => JxlThreadPool::rayon(Some(n)),
    };
    match guard(|| JxlImage::builder().pool(pool).force_wide_buffers(o.wide).read(bytes)) {
        Ok(Ok(i)) => Ok(i),
        Ok(Err(e)) => Err(format!("read: {e}")),
        Err(p) => Err(format!("panic@{p}")),
    }
}

/// All planes (colour then extra) of keyframe `k`, unoriented, as the renderer left them.
pub fn render_planes(img: &JxlImage, k: usize) -> Result<Vec<Plane>, String> {
    match guard(|| {
        img.render_frame(k).map(|r| {
            let mut v: Vec<Plane> = r.color_channels().iter().map(plane_of).collect();
            v.extend(r.extra_channels().1.iter().map(plane_of));
            v
        })
    }) {
        Ok(Ok(v)) => Ok(v),
        Ok(Err(e)) => Err(format!("render: {e}")),
        Err(p) => Err(format!("panic@{p}")),
    }
}

pub fn decode_planes(bytes: &[u8], o: &DecOpts) -> Result<Vec<Vec<Plane>>, String> {
    let img = open(bytes, o)?;
    let mut out = Vec::new();
    for k in 0..img.num_loaded_keyframes() {
        out.push(render_planes(&img, k)?);
    }
    Ok(out)
}
