//! C18 — embedded ICC profile returned byte-exactly: profiles x encoding plans (tag-list forms, command
//! sequences up to length 3, split points on a critical set) through `decode_icc`, entropy-coder
//! configurations through the whole image path, and inconsistent encodings that must be rejected.

use crate::explore::{n_threads, par_map};
use crate::report::{fnv, hex, Report};
use crate::util::{guard, panic_site, Lcg};
use jxlw::entropy::{ClusterCoding, CodeOpts, HybridCfg, Lz77};
use jxlw::frame::*;
use jxlw::headers::*;
use jxlw::icc::*;
use jxlw::modular::*;
use serde_json::json;

fn be32(v: u32) -> [u8; 4] {
    v.to_be_bytes()
}

/// Hand-built profile: header fields partly matching the predictions, tag table with the given
/// (keyword, offset, size) entries, payload area filled by `fill`.
fn make_profile(cmm: &[u8; 4], platform: &[u8; 4], tags: &[(&[u8; 4], u32, u32)], total: usize, fill: impl Fn(usize) -> u8, patches: &[(usize, &[u8])]) -> Vec<u8> {
    let mut p = vec![0u8; total];
    p[0..4].copy_from_slice(&be32(total as u32));
    p[4..8].copy_from_slice(cmm);
    p[8] = 4;
    p[9] = 0x30;
    p[12..16].copy_from_slice(b"mntr");
    p[16..20].copy_from_slice(b"RGB ");
    p[20..24].copy_from_slice(b"XYZ ");
    p[24..36].copy_from_slice(&[7, 0xe8, 0, 1, 0, 1, 0, 0, 0, 0, 0, 0]);
    p[36..40].copy_from_slice(b"acsp");
    p[40..44].copy_from_slice(platform);
    p[68..80].copy_from_slice(&[0, 0, 0xf6, 0xd6, 0, 1, 0, 0, 0, 0, 0xd3, 0x2d]);
    p[80..84].copy_from_slice(cmm);
    if total >= 132 {
        p[128..132].copy_from_slice(&be32(tags.len() as u32));
        for (i, (k, o, s)) in tags.iter().enumerate() {
            let b = 132 + i * 12;
            if b + 12 <= total {
                p[b..b + 4].copy_from_slice(*k);
                p[b + 4..b + 8].copy_from_slice(&be32(*o));
                p[b + 8..b + 12].copy_from_slice(&be32(*s));
            }
        }
        let start = 132 + tags.len() * 12;
        for i in start..total {
            p[i] = fill(i);
        }
    }
    for (o, b) in patches {
        if o + b.len() <= total {
            p[*o..*o + b.len()].copy_from_slice(b);
        }
    }
    p
}

pub fn profiles(seed: u64, quick: bool) -> Vec<(String, Vec<u8>)> {
    let mut v: Vec<(String, Vec<u8>)> = vec![];
    let mut rng = Lcg(seed ^ 0x1cc);
    for n in [0usize, 1, 2, 3, 40, 41, 44, 84, 127, 128, 129, 131, 132, 133] {
        v.push((format!("lcg{n}"), (0..n).map(|_| rng.below(256) as u8).collect()));
        // header-like prefix of a real-looking profile
        let full = make_profile(b"lcms", b"APPL", &[], 200, |i| (i * 7) as u8, &[]);
        let mut pre = full[..n.min(200)].to_vec();
        if pre.len() >= 4 {
            let l = pre.len() as u32;
            pre[0..4].copy_from_slice(&be32(l));
        }
        v.push((format!("hdr{n}"), pre));
    }
    // tag tables hitting every shortcut
    let t1: Vec<(&[u8; 4], u32, u32)> = vec![
        (b"desc", 264, 40), (b"cprt", 304, 40), (b"wtpt", 344, 20), (b"rXYZ", 364, 20), (b"gXYZ", 384, 20), (b"bXYZ", 404, 20), (b"rTRC", 424, 16), (b"gTRC", 424, 16), (b"bTRC", 424, 16), (b"chad", 440, 44), (b"abcd", 484, 12),
    ];
    let total = 496;
    let patches: Vec<(usize, &[u8])> = vec![
        (264, b"desc\0\0\0\0\0\0\0\x10jxlw test profil"), (304, b"text\0\0\0\0no copyright, use freely\0"), (344, b"XYZ \0\0\0\0\0\0\xf6\xd6\0\x01\0\0\0\0\xd3\x2d"),
        (364, b"XYZ \0\0\0\0\0\0\x6f\xa2\0\0\x38\xf5\0\0\x03\x90"), (384, b"XYZ \0\0\0\0\0\0\x62\x99\0\0\xb7\x85\0\0\x18\xda"), (404, b"XYZ \0\0\0\0\0\0\x24\xa0\0\0\x0f\x84\0\0\xb6\xcf"),
        (424, b"para\0\0\0\0\0\0\0\0\0\x02\x33\x33"), (440, b"sf32\0\0\0\0\0\x01\x0c\x42\0\0\x05\xde\xff\xff\xf3\x25\0\0\x07\x93\0\0\xfd\x90\xff\xff\xfb\xa1\xff\xff\xfd\xa2\0\0\x03\xdc\0\0\xc0\x6e"),
    ];
    v.push(("built-appl".into(), make_profile(b"lcms", b"APPL", &t1, total, |i| (i * 13 + 5) as u8, &patches)));
    v.push(("built-msft".into(), make_profile(b"ADBE", b"MSFT", &t1, total, |i| (i / 3) as u8, &patches)));
    v.push(("built-sgi".into(), make_profile(b"\0\0\0\0", b"SGI ", &t1[..4], 400, |i| ((i * i) >> 3) as u8, &patches[..3])));
    v.push(("built-sunw".into(), make_profile(b"argl", b"SUNW", &t1[3..9], 470, |i| (255 - i % 256) as u8, &patches[3..7])));
    v.push(("built-noplatform".into(), make_profile(b"jxlw", b"\0\0\0\0", &[(b"kXYZ", 156, 20), (b"kTRC", 176, 14)], 190, |i| if i % 2 == 0 { 0 } else { (i / 2) as u8 }, &[(156, b"XYZ \0\0\0\0abcdefghijkl"), (176, b"curv\0\0\0\0\0\0\0\x01\x02\x33")])));
    // smooth 16-bit ramp tables: where the predictors shine
    v.push(("built-ramp16".into(), make_profile(b"lcms", b"XXXX", &[(b"A2B0", 144, 400)], 544, |i| { let k = ((i - 144) / 2) as u32 * 257; if i % 2 == 0 { (k >> 8) as u8 } else { k as u8 } }, &[])));
    v.push(("built-ramp32".into(), make_profile(b"lcms", b"AAAA", &[(b"bkpt", 144, 20), (b"lumi", 164, 20), (b"dmnd", 184, 300)], 484, |i| { let k = ((i - 144) / 4) as u32 * 0x01020305; k.to_be_bytes()[i % 4] }, &[])));
    // profiles the decoder itself synthesises
    for (name, bytes) in synthesized() {
        v.push((name, bytes));
    }
    if !quick {
        if let Ok(b) = std::fs::read("/repo/crates/jxl-oxide-tests/tests/cms/cmyk_layers.jxl") {
            if let Ok(img) = jxl_oxide::JxlImage::builder().read(&b[..]) {
                if let Some(icc) = img.original_icc() {
                    v.push(("cmyk_layers-557k".into(), icc.to_vec()));
                }
            }
        }
    }
    v
}

fn synthesized() -> Vec<(String, Vec<u8>)> {
    use jxl_oxide::{EnumColourEncoding, RenderingIntent};
    let mut v = vec![];
    for (n, e) in [("syn-srgb", EnumColourEncoding::srgb(RenderingIntent::Relative)), ("syn-gray22", EnumColourEncoding::gray_gamma22(RenderingIntent::Perceptual)), ("syn-p3pq", EnumColourEncoding::display_p3_pq(RenderingIntent::Relative)), ("syn-2100hlg", EnumColourEncoding::bt2100_hlg(RenderingIntent::Absolute))] {
        if let Ok(b) = guard(|| jxl_color::icc::colour_encoding_to_icc(&e)) {
            v.push((n.to_string(), b));
        }
    }
    v
}

/// "Smart" plan: Xyz / Type commands wherever the content matches, Raw elsewhere.
fn smart_plan(profile: &[u8], tags: TagMode) -> Plan {
    let n = profile.len();
    let mut segs = vec![];
    if n > 128 {
        let mut pos = match tags {
            TagMode::None => 128,
            _ => 132 + 12 * u32::from_be_bytes(profile[128..132].try_into().unwrap()) as usize,
        };
        let mut raw = 0usize;
        while pos < n {
            let xyz = pos + 20 <= n && &profile[pos..pos + 4] == b"XYZ " && profile[pos + 4..pos + 8] == [0; 4];
            let ty = (0..8).find(|&k| pos + 8 <= n && &profile[pos..pos + 4] == TYPE_STRINGS[k] && profile[pos + 4..pos + 8] == [0; 4]);
            if xyz || ty.is_some() {
                if raw > 0 {
                    segs.push(Seg::Raw(raw));
                    raw = 0;
                }
                if xyz {
                    segs.push(Seg::Xyz);
                    pos += 20;
                } else {
                    segs.push(Seg::Type(ty.unwrap()));
                    pos += 8;
                }
            } else {
                raw += 1;
                pos += 1;
            }
        }
        if raw > 0 {
            segs.push(Seg::Raw(raw));
        }
    }
    Plan { tags, segs }
}

fn kinds() -> Vec<(String, Box<dyn Fn(usize) -> Seg + Send + Sync>)> {
    let mut v: Vec<(String, Box<dyn Fn(usize) -> Seg + Send + Sync>)> = vec![];
    v.push(("raw".into(), Box::new(Seg::Raw)));
    v.push(("shuf2".into(), Box::new(|l| Seg::Shuffle(2, l))));
    v.push(("shuf4".into(), Box::new(|l| Seg::Shuffle(4, l))));
    for w in [1usize, 2, 4] {
        for o in 0..3usize {
            for (sn, st) in [("w", None), ("w+1", Some(w + 1)), ("8", Some(8))] {
                v.push((format!("pred-w{w}-o{o}-s{sn}"), Box::new(move |l| Seg::Predict(w, o, st, l))));
            }
        }
    }
    v
}

pub struct Case {
    pub name: String,
    pub profile_idx: usize,
    pub plan: Plan,
}

fn tag_rest(profile: &[u8], tags: &TagMode) -> Option<usize> {
    let n = profile.len();
    if n <= 128 {
        return Some(0);
    }
    match tags {
        TagMode::None => Some(n - 128),
        _ => {
            if n < 132 {
                return None;
            }
            let nt = u32::from_be_bytes(profile[128..132].try_into().unwrap()) as usize;
            if nt > 100 || 132 + nt * 12 > n {
                return None;
            }
            Some(n - 132 - nt * 12)
        }
    }
}

pub fn cases(profs: &[(String, Vec<u8>)], quick: bool) -> Vec<Case> {
    let ks = kinds();
    let mut out = vec![];
    for (pi, (pname, p)) in profs.iter().enumerate() {
        for tags in [TagMode::None, TagMode::Explicit, TagMode::Shortcuts] {
            let Some(rest) = tag_rest(p, &tags) else { continue };
            let tn = format!("{:?}", tags);
            out.push(Case { name: format!("{pname}/{tn}/smart"), profile_idx: pi, plan: smart_plan(p, tags.clone()) });
            if rest == 0 || p.len() > 5000 {
                continue;
            }
            // one command
            for (kn, k) in &ks {
                out.push(Case { name: format!("{pname}/{tn}/{kn}"), profile_idx: pi, plan: Plan { tags: tags.clone(), segs: vec![k(rest)] } });
            }
            // two commands: every ordered pair of kinds x split points on the critical set
            let mut cuts: Vec<usize> = vec![1, 2, 3, 4, 5, 8, 16, 17, rest / 2, rest.saturating_sub(1)];
            cuts.retain(|&c| c > 0 && c < rest);
            cuts.sort();
            cuts.dedup();
            for &c in &cuts {
                for (an, a) in &ks {
                    for (bn, b) in &ks {
                        if quick && !(an == "raw" || bn == "raw") && (c % 3 != 0) {
                            continue;
                        }
                        out.push(Case { name: format!("{pname}/{tn}/{an}@{c}+{bn}"), profile_idx: pi, plan: Plan { tags: tags.clone(), segs: vec![a(c), b(rest - c)] } });
                    }
                }
            }
            // three commands: raw, X, raw and X, raw, Y with two split points
            if tags == TagMode::Shortcuts || !quick {
                for (i, &c1) in cuts.iter().enumerate() {
                    for &c2 in &cuts[i + 1..] {
                        for (mn, m) in &ks {
                            out.push(Case { name: format!("{pname}/{tn}/raw@{c1}+{mn}@{c2}+raw"), profile_idx: pi, plan: Plan { tags: tags.clone(), segs: vec![Seg::Raw(c1), m(c2 - c1), Seg::Raw(rest - c2)] } });
                            if !quick {
                                for (yn, y) in ks.iter().step_by(3) {
                                    out.push(Case { name: format!("{pname}/{tn}/{mn}@{c1}+raw@{c2}+{yn}"), profile_idx: pi, plan: Plan { tags: tags.clone(), segs: vec![m(c1), Seg::Raw(c2 - c1), y(rest - c2)] } });
                                }
                            }
                        }
                    }
                }
            }
        }
    }
    out
}

fn decode(encoded: &[u8]) -> Result<Vec<u8>, String> {
    match guard(|| jxl_color::icc::decode_icc(encoded)) {
        Ok(Ok(v)) => Ok(v),
        Ok(Err(e)) => Err(format!("{e}")),
        Err(p) => Err(format!("panic@{p}")),
    }
}

pub fn main(args: &crate::Args) {
    crate::util::install_panic_hook();
    let mut rep = Report::new("C18", &args.tier, "exploration");
    let quick = rep.is_quick();
    let seed = rep.seed;
    let profs = profiles(seed, quick);
    let cs = cases(&profs, quick);
    if let Some(p) = &args.replay {
        replay(p, &profs);
    }
    // (1) command level
    let results = par_map(&cs, n_threads(), |_, c| {
        let p = &profs[c.profile_idx].1;
        match encode(p, &c.plan) {
            None => None,
            Some(enc) => Some(match decode(&enc) {
                Ok(d) if &d == p => Ok(()),
                Ok(d) => {
                    let i = (0..d.len().min(p.len())).find(|&i| d[i] != p[i]).unwrap_or(d.len().min(p.len()));
                    Err(("profile-mismatch".to_string(), format!("decoded {} bytes, embedded {}; first difference at byte {i}", d.len(), p.len()), enc))
                }
                Err(e) if e.starts_with("panic@") => Err((format!("panic@{}", panic_site(&e[6..])), e, enc)),
                Err(e) => Err(("valid-encoding-rejected".to_string(), e, enc)),
            }),
        }
    });
    let mut inexpressible = 0u64;
    for (c, r) in cs.iter().zip(&results) {
        rep.eval();
        match r {
            None => {
                inexpressible += 1;
                rep.outcome("plan-not-applicable");
            }
            Some(Ok(())) => {
                rep.outcome("exact");
                rep.nontrivial(fnv(c.name.as_bytes()));
            }
            Some(Err((k, w, enc))) => {
                rep.outcome("bad");
                let kind = c.name.split('/').nth(2).unwrap_or("").split('@').next().unwrap_or("").to_string();
                rep.violation(&format!("{k}:{kind}"), &format!("{w} [{}]", c.name), &json!({"case": c.name, "encoded_hex": hex(&enc[..enc.len().min(4000)]), "profile_hex": hex(&profs[c.profile_idx].1[..profs[c.profile_idx].1.len().min(4000)])}));
            }
        }
    }
    // (2) inconsistent encodings must be rejected (never Ok, never a panic)
    let mut bad_total = 0u64;
    for (pname, p) in profs.iter().filter(|p| p.1.len() > 140 && p.1.len() < 5000) {
        let plan = smart_plan(p, TagMode::Shortcuts);
        let Some(enc) = encode(p, &plan) else { continue };
        let mut muts: Vec<(String, Vec<u8>)> = vec![];
        // output_size +-1: re-encode the leading varint
        for d in [-1i64, 1, 100] {
            let mut e = vec![];
            varint(&mut e, (p.len() as i64 + d) as u64);
            let skip = { let mut t = vec![]; varint(&mut t, p.len() as u64); t.len() };
            e.extend_from_slice(&enc[skip..]);
            muts.push((format!("output_size{d:+}"), e));
        }
        // truncated data
        muts.push(("data-truncated".into(), enc[..enc.len() - 3].to_vec()));
        // commands_size beyond the stream
        {
            let mut e = vec![];
            varint(&mut e, p.len() as u64);
            varint(&mut e, enc.len() as u64 + 50);
            muts.push(("commands-size-too-large".into(), e.into_iter().chain(enc[3..].iter().cloned()).collect()));
        }
        // hand-written command streams on top of the header part
        let header_data: Vec<u8> = (0..128).map(|i| p[i].wrapping_sub(predict_header(&p[..i], p.len() as u32, i))).collect();
        let build = |cmds: &[u8], data_extra: &[u8]| -> Vec<u8> {
            let mut e = vec![];
            varint(&mut e, p.len() as u64);
            varint(&mut e, cmds.len() as u64);
            e.extend_from_slice(cmds);
            e.extend_from_slice(&header_data);
            e.extend_from_slice(data_extra);
            e
        };
        let rest = p.len() - 128;
        let filler = vec![0x55u8; rest + 16];
        for code in [5u8, 6, 7, 8, 9, 11, 15, 24, 25, 63, 200] {
            muts.push((format!("unknown-command-{code}"), build(&[0, code, 4], &filler)));
        }
        muts.push(("predict-width3".into(), build(&[0, 4, 2, rest as u8], &filler)));
        muts.push(("predict-order3".into(), build(&[0, 4, 12, rest as u8], &filler)));
        muts.push(("predict-stride-too-large".into(), build(&[0, 4, 16, 32, rest as u8], &filler)));
        muts.push(("predict-stride-below-width".into(), build(&[0, 4, 16 | 3, 2, rest as u8], &filler)));
        muts.push(("insert-past-data".into(), build(&[0, 1, 0xff, 0x7f], &filler[..10])));
        muts.push(("insert-past-output".into(), build(&[0, 1, (rest + 5) as u8], &filler)));
        muts.push(("tagcode-out-of-range".into(), build(&[2, 21, 0], &filler)));
        muts.push(("tag-list-too-long".into(), build(&[0xff, 0xff, 0x03, 4, 4, 4, 0], &filler)));
        muts.push(("xyz-past-output".into(), build(&[0, 1, (rest - 4) as u8, 10], &filler)));
        for (mn, e) in muts {
            rep.eval();
            bad_total += 1;
            match decode(&e) {
                Err(err) if err.starts_with("panic@") => rep.violation(&format!("panic@{}", panic_site(&err[6..])), &format!("inconsistent encoding ({mn}) on {pname} panics: {err}"), &json!({"case": format!("{pname}/{mn}"), "encoded_hex": hex(&e)})),
                Err(_) => rep.outcome("rejected"),
                Ok(d) => {
                    if mn == "data-truncated" || &d != p {
                        // an Ok that is not the embedded profile, or a truncated stream accepted
                        rep.violation(&format!("inconsistent-accepted:{mn}"), &format!("inconsistent encoding ({mn}) on {pname} accepted, {} bytes returned", d.len()), &json!({"case": format!("{pname}/{mn}"), "encoded_hex": hex(&e)}));
                    } else {
                        rep.outcome("accepted-but-exact");
                    }
                }
            }
        }
    }
    // (3) whole-image path with entropy coder configurations
    let coder_cfgs: Vec<(&str, CodeOpts)> = vec![
        ("prefix-1cluster", CodeOpts { use_prefix: true, cluster_map: Some(vec![0; 41]), ..Default::default() }),
        ("prefix-41", CodeOpts { use_prefix: true, ..Default::default() }),
        ("ans-1cluster", CodeOpts { use_prefix: false, cluster_map: Some(vec![0; 41]), cfg: Some(HybridCfg::new(8, 0, 0)), ..Default::default() }),
        ("ans-3clusters-mtf", CodeOpts { use_prefix: false, cluster_map: Some((0..41).map(|i| (i % 3) as u8).collect()), cluster_coding: Some(ClusterCoding::Coded { mtf: true }), cfg: Some(HybridCfg::new(8, 0, 0)), ..Default::default() }),
        ("prefix-lz77", CodeOpts { use_prefix: true, lz77: Some(Lz77 { min_symbol: 256, min_length: 3, len_cfg: HybridCfg::new(4, 0, 0) }), cluster_map: Some(vec![0; 42]), cfg: Some(HybridCfg::new(8, 0, 0)), ..Default::default() }),
    ];
    let img_jobs: Vec<(usize, usize)> = (0..profs.len()).flat_map(|p| (0..coder_cfgs.len()).map(move |c| (p, c))).collect();
    let img_results = par_map(&img_jobs, n_threads(), |_, &(pi, ci)| {
        let p = &profs[pi].1;
        let tm = if tag_rest(p, &TagMode::Shortcuts).is_some() { TagMode::Shortcuts } else { TagMode::None };
        let enc = encode(p, &smart_plan(p, tm))?;
        let gray = p.len() >= 20 && &p[16..20] == b"GRAY";
        let mut img = ImageHeader::simple(3, 2, gray, 8);
        img.colour_encoding = ColourEncoding { all_default: false, want_icc: true, colour_space: if gray { CS_GREY } else { CS_RGB }, ..ColourEncoding::srgb() };
        let w = match guard(|| write_icc_stream(&enc, &coder_cfgs[ci].1)) {
            Ok(w) => w,
            Err(_) => return None,
        };
        img.icc_stream = Some(w);
        let spec = ModularFrameSpec::new(FrameHeader::modular_lossless(&img), (0..if gray { 1 } else { 3 }).map(|c| Channel::from_fn(3, 2, |x, y| (x + y + c) as i32)).collect());
        let bytes = write_codestream(&img, &Sel::default(), &[write_modular_frame(&img, &spec).bytes]);
        Some(match guard(|| jxl_oxide::JxlImage::builder().read(&bytes[..]).map(|i| i.original_icc().map(|x| x.to_vec()))) {
            Ok(Ok(Some(icc))) if &icc == p => Ok(()),
            Ok(Ok(Some(icc))) => Err(("image-icc-mismatch".to_string(), format!("original_icc() returned {} bytes, embedded {}", icc.len(), p.len()), bytes)),
            Ok(Ok(None)) => Err(("image-icc-missing".to_string(), "original_icc() is None".into(), bytes)),
            Ok(Err(e)) => Err(("image-rejected".to_string(), format!("{e}"), bytes)),
            Err(pn) => Err((format!("panic@{}", panic_site(&pn)), pn, bytes)),
        })
    });
    for (&(pi, ci), r) in img_jobs.iter().zip(&img_results) {
        rep.eval();
        match r {
            None => rep.outcome("coder-config-not-applicable"),
            Some(Ok(())) => {
                rep.outcome("image-exact");
                rep.nontrivial(fnv(format!("img{pi}-{ci}").as_bytes()));
            }
            Some(Err((k, w, bytes))) => {
                // profiles that are not parseable as ICC may legitimately fail at a later stage of image set-up;
                // only well-formed ones (built-*, syn-*, cmyk) are judged through the image path
                let name = &profs[pi].0;
                if name.starts_with("built") || name.starts_with("syn") || name.starts_with("cmyk") {
                    rep.violation(&format!("{k}:{}", coder_cfgs[ci].0), &format!("{w} [{name} / {}]", coder_cfgs[ci].0), &json!({"case": format!("{name}/{}", coder_cfgs[ci].0), "stream_hex": hex(&bytes[..bytes.len().min(6000)])}));
                } else {
                    rep.outcome("image-path-skipped-malformed-profile");
                }
            }
        }
    }
    rep.rule = format!("{} profiles (random and header-like byte strings of lengths 0..133, hand-built 190-544 byte profiles whose tag tables and payloads hit every shortcut and platform-signature prediction, profiles synthesised by the decoder{}) x tag-list forms {{none, explicit, shortcuts}} x command plans: every single command, EVERY ordered pair of command kinds (raw, shuffle2, shuffle4, predict width 1/2/4 x order 0/1/2 x stride {{w, w+1, 8}}) x split points on a critical set, three-command plans raw+X+raw (and X+raw+Y in thorough), plus XYZ / type-string commands where the content allows; oracle: decode_icc(encoded) == profile byte for byte. Then {} inconsistent encodings that must be rejected, and every profile through the whole image path (original_icc()) under 5 entropy-coder configurations. Non-trivial = applicable plan decoding exactly; distinct by case name.", profs.len(), if quick { "" } else { ", the 557 KB profile of cmyk_layers.jxl" }, bad_total);
    for i in [cs.len() / 3, cs.len() / 2, cs.len() - 1] {
        rep.sample(json!({"case": cs[i].name, "plan": format!("{:?}", cs[i].plan)}));
    }
    rep.extra.insert("plans_not_applicable".into(), json!(inexpressible));
    rep.extra.insert("inconsistent_encodings".into(), json!(bad_total));
    rep.extra.insert("image_path_cases".into(), json!(img_jobs.len()));
    rep.exhaustive = true;
    rep.assumptions = vec!["jxlw::icc (plan-driven encoder written from the format's ICC annex) is the reference".into(), "platform-signature bytes are limited to APPL / MSFT / SGI / SUNW / non-matching values".into()];
    rep.finish();
}

fn replay(path: &str, profs: &[(String, Vec<u8>)]) -> ! {
    let s = std::fs::read_to_string(path).unwrap_or_else(|e| crate::explore::machinery_failure(&format!("{path}: {e}")));
    let v: serde_json::Value = serde_json::from_str(&s).unwrap();
    let _ = profs;
    if let Some(h) = v.get("encoded_hex").and_then(|x| x.as_str()) {
        let enc = crate::report::unhex(h);
        let want = v.get("profile_hex").and_then(|x| x.as_str()).map(crate::report::unhex);
        let r = decode(&enc);
        println!("decode_icc: {:?}", r.as_ref().map(|d| d.len()));
        let ok = match (&r, &want) {
            (Ok(d), Some(w)) => d == w,
            (Err(_), None) => true,
            _ => false,
        };
        if ok {
            println!("replay: property holds on this case");
            std::process::exit(0)
        }
        println!("VIOLATION property=C18 replay={path}\n  key={} :: replayed", v["key"]);
        std::process::exit(1)
    }
    println!("replay: whole-image case; re-run the check");
    std::process::exit(0)
}
