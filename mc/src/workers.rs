//! Worker-subprocess infrastructure shared by C01 / C02: cases are written to shard files, each shard is
//! processed by a child process of this executable; the parent owns the watchdog and classifies
//! abnormal exits (signal, sanitizer abort, deadline).

use std::io::{BufRead, BufReader, Read, Write};
use std::process::{Command, Stdio};
use std::sync::mpsc;
use std::time::{Duration, Instant};

pub fn worker_main(shard: &str, start: usize, run: fn(&[u8], u32, u32) -> String) -> ! {
    crate::util::install_panic_hook();
    let mut f = std::fs::File::open(shard).expect("shard");
    let mut data = Vec::new();
    f.read_to_end(&mut data).unwrap();
    let mut pos = 0usize;
    let mut idx = 0usize;
    let out = std::io::stdout();
    while pos + 12 <= data.len() {
        let len = u32::from_le_bytes(data[pos..pos + 4].try_into().unwrap()) as usize;
        let order = u32::from_le_bytes(data[pos + 4..pos + 8].try_into().unwrap());
        let chunk = u32::from_le_bytes(data[pos + 8..pos + 12].try_into().unwrap());
        let bytes = &data[pos + 12..pos + 12 + len];
        pos += 12 + len;
        if idx >= start {
            {
                let mut o = out.lock();
                let _ = writeln!(o, "B {idx}");
                let _ = o.flush();
            }
            let r = run(bytes, order, chunk);
            let mut o = out.lock();
            let _ = writeln!(o, "E {idx} {r}");
            let _ = o.flush();
        }
        idx += 1;
    }
    std::process::exit(0)
}

/// MemorySanitizer instruments optimised code, and the optimiser may compute on the payload of an enum
/// before it selects on the discriminant (e.g. `Option<(f32, f32)>::unwrap_or`), which MSan then reports
/// although the program never uses the value.  Safe Rust cannot read uninitialised memory, so a
/// use-of-uninitialized-value report whose use site AND whose origin (needs origin tracking) both lie in
/// source files of /repo that contain no `unsafe` at all is such an artefact, not an access the property
/// is about.  Anything else stays a violation.  Returns the reason when the report is an artefact.
pub fn msan_safe_code_artefact(stderr: &str) -> Option<String> {
    if !stderr.contains("MemorySanitizer: use-of-uninitialized-value") {
        return None;
    }
    let file_of = |line: &str| -> Option<String> {
        // "    #0 0x... in <function> /path/file.rs:LINE:COL"
        let tok = line.split_whitespace().last()?;
        let path = tok.split(':').next()?;
        path.starts_with("/repo/crates/").then(|| path.to_string())
    };
    let lines: Vec<&str> = stderr.lines().collect();
    let use_0 = lines.iter().position(|l| l.trim_start().starts_with("#0 "))?;
    // frame #0 may carry a library file when the instruction at the fault address was inlined from there (an atomic
    // load, an iterator adaptor) into one of the decoder's own functions: then the decoder's function is the use site and
    // its source file is that of the next frame in /repo
    let use_frame = if file_of(lines[use_0]).is_some() {
        &lines[use_0]
    } else if lines[use_0].contains(" in <jxl_") || lines[use_0].contains(" in jxl_") {
        lines[use_0 + 1..].iter().take_while(|l| l.trim_start().starts_with('#')).find(|l| file_of(l).is_some())?
    } else {
        return None;
    };
    let origin_at = lines.iter().position(|l| l.contains("Uninitialized value was created by"))?;
    if !lines[origin_at].contains("in the stack frame") {
        return None;
    }
    let origin_frame = lines[origin_at..].iter().find(|l| l.trim_start().starts_with("#0 "))?;
    let (uf, of) = (file_of(use_frame)?, file_of(origin_frame)?);
    for f in [&uf, &of] {
        let src = std::fs::read_to_string(f).ok()?;
        if src.contains("unsafe") {
            return None;
        }
    }
    Some(format!("(use in {} and stack origin in {}: files without any unsafe code)", uf.trim_start_matches("/repo/"), of.trim_start_matches("/repo/")))
}

/// Hang accounting across shards: a tree on which calls block forever (C08/C20 territory) would make every case wait
/// for its deadline; after `MAX_HANGS` hangs the remaining cases are not run (reported as a cap), the hangs found so
/// far are still violations.
static HANGS: std::sync::atomic::AtomicUsize = std::sync::atomic::AtomicUsize::new(0);
static STOP: std::sync::atomic::AtomicBool = std::sync::atomic::AtomicBool::new(false);
const MAX_HANGS: usize = 48;

pub fn stopped_early() -> Option<usize> {
    STOP.load(std::sync::atomic::Ordering::SeqCst).then(|| HANGS.load(std::sync::atomic::Ordering::SeqCst))
}

fn run_shard(exe: &str, id: &str, shard: &str, n: usize, deadline: Duration) -> Vec<(usize, String)> {
    let mut outcomes = vec![];
    let mut start = 0usize;
    let errfile = format!("{shard}.stderr");
    while start < n {
        if STOP.load(std::sync::atomic::Ordering::SeqCst) {
            break;
        }
        let ef = std::fs::File::create(&errfile).expect("stderr file");
        let mut child = Command::new(exe).args([id, "--worker", shard, &start.to_string()]).stdout(Stdio::piped()).stderr(Stdio::from(ef)).spawn().expect("spawn worker");
        let stdout = child.stdout.take().unwrap();
        let (tx, rx) = mpsc::channel::<String>();
        let reader = std::thread::spawn(move || {
            for line in BufReader::new(stdout).lines().map_while(Result::ok) {
                if tx.send(line).is_err() {
                    break;
                }
            }
        });
        let mut in_flight: Option<(usize, Instant)> = None;
        let mut next = start;
        let mut finished = false;
        let abnormal = |st: Option<std::process::ExitStatus>| -> String {
            use std::os::unix::process::ExitStatusExt;
            let err = std::fs::read_to_string(&errfile).unwrap_or_default();
            let summary = err.lines().find(|l| l.starts_with("SUMMARY:")).map(|l| l.chars().take(200).collect::<String>()).or_else(|| err.lines().find(|l| l.contains("ERROR:")).map(|l| l.chars().take(200).collect::<String>())).unwrap_or_default();
            if let Some(why) = msan_safe_code_artefact(&err) {
                return format!("msan-artefact {why} {summary}");
            }
            format!("abort(signal {:?}, code {:?}) {}", st.and_then(|s| s.signal()), st.and_then(|s| s.code()), summary)
        };
        loop {
            let mut handle = |line: String, in_flight: &mut Option<(usize, Instant)>, next: &mut usize, outcomes: &mut Vec<(usize, String)>| {
                let mut it = line.split(' ');
                match (it.next(), it.next().and_then(|x| x.parse::<usize>().ok())) {
                    (Some("B"), Some(i)) => *in_flight = Some((i, Instant::now())),
                    (Some("E"), Some(i)) => {
                        outcomes.push((i, it.collect::<Vec<_>>().join(" ")));
                        *in_flight = None;
                        *next = i + 1;
                    }
                    _ => {}
                }
            };
            match rx.recv_timeout(Duration::from_millis(250)) {
                Ok(line) => {
                    handle(line, &mut in_flight, &mut next, &mut outcomes);
                    if in_flight.is_none() && STOP.load(std::sync::atomic::Ordering::SeqCst) {
                        break;
                    }
                }
                Err(mpsc::RecvTimeoutError::Timeout) => {
                    if let Some((i, t0)) = in_flight {
                        if t0.elapsed() > deadline {
                            let _ = child.kill();
                            let _ = child.wait();
                            outcomes.push((i, format!("hang(>{}s)", deadline.as_secs())));
                            if HANGS.fetch_add(1, std::sync::atomic::Ordering::SeqCst) + 1 >= MAX_HANGS {
                                STOP.store(true, std::sync::atomic::Ordering::SeqCst);
                            }
                            next = i + 1;
                            break;
                        }
                    }
                }
                Err(mpsc::RecvTimeoutError::Disconnected) => {
                    let st = child.wait().ok();
                    if let Some((i, _)) = in_flight {
                        outcomes.push((i, abnormal(st)));
                        next = i + 1;
                    } else if st.map(|s| s.success()).unwrap_or(false) {
                        finished = true;
                    } else {
                        crate::explore::machinery_failure(&format!("worker exited abnormally between cases: {}", abnormal(st)));
                    }
                    break;
                }
            }
        }
        let _ = child.kill();
        let _ = child.wait();
        let _ = reader.join();
        if finished {
            break;
        }
        start = next;
    }
    let _ = std::fs::remove_file(&errfile);
    outcomes
}

/// Runs all cases in worker subprocesses; returns one outcome per case (None if a worker never reported it).
pub fn run_cases(id: &str, cases: &[(&[u8], u32, u32)], deadline: Duration) -> Vec<Option<String>> {
    let nshards = crate::explore::n_threads();
    let dir = format!("{}/target/work-{}", crate::verif_dir(), id);
    let _ = std::fs::remove_dir_all(&dir);
    std::fs::create_dir_all(&dir).unwrap();
    let mut shard_cases: Vec<Vec<usize>> = vec![vec![]; nshards];
    for i in 0..cases.len() {
        shard_cases[i % nshards].push(i);
    }
    for (k, idxs) in shard_cases.iter().enumerate() {
        let mut f = std::io::BufWriter::new(std::fs::File::create(format!("{dir}/shard{k}.bin")).unwrap());
        for &i in idxs {
            let (b, o, c) = &cases[i];
            f.write_all(&(b.len() as u32).to_le_bytes()).unwrap();
            f.write_all(&o.to_le_bytes()).unwrap();
            f.write_all(&c.to_le_bytes()).unwrap();
            f.write_all(b).unwrap();
        }
    }
    let exe = std::env::current_exe().unwrap().to_string_lossy().to_string();
    let results: Vec<Vec<(usize, String)>> = std::thread::scope(|s| {
        let hs: Vec<_> = (0..nshards)
            .map(|k| {
                let exe = exe.clone();
                let shard = format!("{dir}/shard{k}.bin");
                let n = shard_cases[k].len();
                let id = id.to_string();
                s.spawn(move || run_shard(&exe, &id, &shard, n, deadline))
            })
            .collect();
        hs.into_iter().map(|h| h.join().unwrap()).collect()
    });
    let mut out: Vec<Option<String>> = vec![None; cases.len()];
    for (k, r) in results.iter().enumerate() {
        for (local, outcome) in r {
            out[shard_cases[k][*local]] = Some(outcome.clone());
        }
    }
    let _ = std::fs::remove_dir_all(&dir);
    out
}
