//! C03 — lossless Modular exactness: encoder configurations enumerated within a deviation bound
//! (plus coupled full products), each written by `jxlw`, decoded by jxl-oxide, compared exactly.

use crate::dec::*;
use crate::explore::{collect_tapes, n_threads, par_map, Tape};
use crate::report::{fnv, hex, Report};
use jxlw::entropy::{ClusterCoding, CodeOpts, HybridCfg, Lz77};
use jxlw::frame::*;
use jxlw::headers::*;
use jxlw::modular::*;
use serde_json::json;

const SIZES: &[(usize, usize)] = &[
    (5, 3), (1, 1), (2, 1), (1, 2), (2, 2), (3, 3), (4, 5), (7, 2), (8, 8), (9, 9), (16, 3), (17, 17), (33, 2), (3, 40),
    (129, 1), (1, 129), (130, 130), (257, 129), (300, 70),
    // widths whose squeeze levels leave 8 (mod 16) columns after the vector body, with a full block of 8 rows
    (49, 8), (50, 9), (82, 8), (113, 16),
];
const DEPTHS: &[u32] = &[8, 1, 2, 7, 9, 12, 15, 16, 24, 31];
const N_PATTERNS: u32 = 8;
const N_LAYOUTS: u32 = 6;

#[derive(Clone, Debug)]
pub struct Config {
    pub w: usize,
    pub h: usize,
    pub layout: u32,
    pub depth: u32,
    pub float: u32,
    pub pattern: u32,
    pub tree: u32,
    pub leaf_variant: u32,
    pub wp: u32,
    pub transform: u32,
    pub coder: u32,
    pub lz77: u32,
    pub global_tree: bool,
    pub group_shift: u32,
    pub passes: u32,
    pub toc_perm: u32,
    pub wide: bool,
    pub ec_dim_shift: u32,
    /// C12: declare modular_16bit_buffers when (and only when) every intermediate value fits i16
    pub force16: bool,
    /// with lz77 != 0: 0 = no copies written, 1 = greedy copies with special distance codes, 2 = plain distances
    pub lz77_copies: u32,
}

pub fn config_from(t: &mut Tape) -> Config {
    let (w, h) = *t.choose_from(SIZES);
    Config {
        w,
        h,
        layout: t.choose(N_LAYOUTS),
        depth: *t.choose_from(DEPTHS),
        float: t.choose(3),
        pattern: t.choose(N_PATTERNS),
        tree: t.choose(N_TREES),
        leaf_variant: t.choose(7),
        wp: t.choose(4),
        transform: t.choose(N_TRANSFORMS),
        coder: t.choose(4),
        lz77: t.choose(3),
        global_tree: t.choose(2) == 0,
        group_shift: [1, 0, 2, 3][t.choose(4) as usize],
        passes: t.choose(3),
        toc_perm: t.choose(3),
        wide: t.flag(),
        ec_dim_shift: t.choose(3),
        force16: false,
        lz77_copies: t.choose(3),
    }
}

fn sample(pattern: u32, x: usize, y: usize, c: usize, w: usize, h: usize, maxv: i64, seed: u64) -> i32 {
    let v: i64 = match pattern {
        0 => {
            // smooth-ish deterministic texture
            ((x * 37 + y * 91 + x * y * 13 + c * 57) as i64) % (maxv + 1)
        }
        1 => 0,
        2 => maxv,
        3 => ((x + c) as i64 * maxv) / (w.max(2) as i64 - 1).max(1) % (maxv + 1),
        4 => (y as i64 * maxv) / (h.max(2) as i64 - 1).max(1),
        5 => {
            if (x + y + c) % 2 == 0 {
                0
            } else {
                maxv
            }
        }
        6 => {
            let corner = (x == 0 || x + 1 == w) && (y == 0 || y + 1 == h);
            if corner {
                maxv
            } else {
                maxv / 3
            }
        }
        _ => {
            let mut s = seed ^ ((x as u64) << 32 | (y as u64) << 8 | c as u64);
            s = s.wrapping_mul(6364136223846793005).wrapping_add(1442695040888963407);
            s ^= s >> 29;
            s = s.wrapping_mul(0xbf58476d1ce4e5b9);
            ((s >> 17) as i64).rem_euclid(maxv + 1)
        }
    };
    v.clamp(0, maxv) as i32
}

pub const N_TREES: u32 = 14 + 24;

fn tree_of(idx: u32, leaf_variant: u32, w: usize) -> Node {
    let leaf = |p: u32| -> Node {
        match leaf_variant {
            0 => Node::leaf(p),
            1 => Node::Leaf { predictor: p, offset: 1, mul_log: 0, mul_bits: 0 },
            2 => Node::Leaf { predictor: p, offset: -1, mul_log: 0, mul_bits: 0 },
            3 => Node::Leaf { predictor: p, offset: 0, mul_log: 1, mul_bits: 0 },
            4 => Node::Leaf { predictor: p, offset: 5, mul_log: 0, mul_bits: 2 },
            5 => Node::Leaf { predictor: p, offset: 1 << 20, mul_log: 0, mul_bits: 0 },
            _ => Node::Leaf { predictor: p, offset: 0, mul_log: 3, mul_bits: 1 },
        }
    };
    if idx < 14 {
        // default tree index 0 = gradient (5) so that the default config is the common one
        let p = [5, 0, 1, 2, 3, 4, 6, 7, 8, 9, 10, 11, 12, 13][idx as usize];
        return leaf(p);
    }
    let mid = (w / 2) as i32;
    match idx - 14 {
        0 => Node::split(0, 0, leaf(5), leaf(1)),          // channel index
        1 => Node::split(2, 0, leaf(2), leaf(1)),          // y > 0
        2 => Node::split(3, mid, leaf(1), leaf(5)),        // x
        3 => Node::split(4, 10, leaf(6), leaf(5)),         // |N|
        4 => Node::split(5, 3, leaf(4), leaf(3)),          // |W|
        5 => Node::split(6, 100, leaf(7), leaf(8)),        // N
        6 => Node::split(7, -1, leaf(9), leaf(10)),        // W
        7 => Node::split(8, 0, leaf(11), leaf(12)),        // W - prev grad
        8 => Node::split(9, 50, leaf(13), leaf(5)),        // W+N-NW
        9 => Node::split(10, 0, leaf(5), leaf(2)),
        10 => Node::split(11, 0, leaf(1), leaf(6)),
        11 => Node::split(12, 0, leaf(5), leaf(0)),
        12 => Node::split(13, 0, leaf(3), leaf(5)),
        13 => Node::split(14, 0, leaf(2), leaf(4)),
        14 => Node::split(15, 0, leaf(6), leaf(5)),        // WP max error
        15 => Node::split(16, 5, leaf(5), leaf(1)),        // |prev channel|
        16 => Node::split(17, 100, leaf(5), leaf(2)),      // prev channel value
        17 => Node::split(19, 0, leaf(1), Node::split(21, 0, leaf(2), leaf(5))), // prev-prev channel
        18 => Node::split(1, 0, leaf(5), leaf(1)),         // stream index
        // chains on one property: many thresholds (exercises flattening / table compile)
        19 => {
            let mut n = leaf(5);
            for (k, t) in [3, 9, 20, 50, 90, 140, 200, 600, 1021, 1023, 2000].iter().enumerate() {
                n = Node::split(9, *t, leaf([1, 2, 3, 4, 5, 7, 8, 9, 10, 11, 12][k]), n);
            }
            n
        }
        22 | 23 => {
            // chains on a previous-channel property with one predictor in every leaf (only the context differs):
            // candidates for the single-table fast paths, which must still see the previous channels
            let (prop, ts, p): (u32, [i32; 5], u32) = if idx - 14 == 22 { (16, [2, 9, 40, 120, 220], 5) } else { (17, [-3, 15, 70, 140, 230], 1) };
            let mut n = leaf(p);
            for t in ts {
                n = Node::split(prop, t, leaf(p), n);
            }
            n
        }
        20 => {
            // depth-2 full tree with three different properties
            Node::split(3, mid, Node::split(2, 1, leaf(5), leaf(1)), Node::split(7, 64, leaf(2), leaf(4)))
        }
        _ => {
            // gradient property thresholds on both sides of zero with zero predictor + single ctx variants
            let mut n = leaf(0);
            for t in [-300, -40, -5, 0, 4, 30, 250] {
                n = Node::split(9, t, n.clone(), leaf(5));
            }
            n
        }
    }
}

pub const N_TRANSFORMS: u32 = 1 + 12 + 3 + 9 + 4;

pub struct Built {
    pub bytes: Vec<u8>,
    pub m16: bool,
    /// truth: one Vec<i32> per image channel (colour then extra)
    pub truth: Vec<Channel>,
    pub desc: String,
    pub lz77_copies: usize,
}

/// Returns None when the configuration is not expressible (e.g. RCT on a gray image); Err for an
/// internal inconsistency of the generator.
pub fn build(c: &Config, seed: u64) -> Option<Built> {
    let grey = c.layout == 0 || c.layout == 2;
    let n_colour = if grey { 1 } else { 3 };
    let ecs: Vec<u32> = match c.layout {
        0 | 1 => vec![],
        2 | 3 => vec![EC_ALPHA],
        4 => vec![EC_DEPTH, EC_ALPHA],
        _ => vec![EC_ALPHA, EC_SPOT, EC_DEPTH],
    };
    let float = c.float;
    let (depth, bd) = match float {
        1 => (32u32, BitDepth::float(32, 8)),
        2 => (16u32, BitDepth::float(16, 5)),
        _ => (c.depth, BitDepth::int(c.depth)),
    };
    let mut img = ImageHeader::simple(c.w as u32, c.h as u32, grey, 8);
    img.bit_depth = bd;
    img.modular_16bit_buffers = false;
    for (i, &ty) in ecs.iter().enumerate() {
        let mut e = ExtraChannelInfo::new(ty, if i == 0 { BitDepth::int(8) } else { BitDepth::int(depth.min(16).max(1)) });
        // dim_shift > 0 is an oracle-uncertain zone (whether it changes the stored channel size differs between
        // readings of the format); the dimension only toggles the all-default alpha form here
        let _ = c.ec_dim_shift;
        if ty == EC_SPOT {
            e.spot = [0x3c00, 0x3800, 0x3400, 0x3c00];
            e.name = b"spot".to_vec();
        }
        if i == 0 && ty == EC_ALPHA && c.ec_dim_shift == 0 && ecs.len() == 1 {
            e = ExtraChannelInfo::default_alpha();
        }
        img.ec_info.push(e);
    }
    let maxv_of = |bits: u32| -> i64 {
        if bits >= 31 {
            (1i64 << 31) - 1
        } else {
            (1i64 << bits) - 1
        }
    };
    // sample ranges: for floats use bit patterns of modest finite values
    let maxv = match float {
        1 => 0x3f80_0000,
        2 => 0x3c00,
        _ => maxv_of(depth),
    };
    let nch = n_colour + ecs.len();
    let mut planes: Vec<Channel> = (0..nch)
        .map(|ci| {
            let m = if ci >= n_colour {
                let b = img.ec_info[ci - n_colour].bit_depth.bits;
                maxv_of(b)
            } else {
                maxv
            };
            Channel::from_fn(c.w, c.h, |x, y| sample(c.pattern, x, y, ci, c.w, c.h, m, seed))
        })
        .collect();
    // can the decoder use 16-bit buffers truthfully?  only claimed when every value incl. transforms fits easily
    let small = float == 0 && depth <= 12;

    let wp_params = match c.wp {
        0 => WpParams::default(),
        1 => WpParams { default: false, p1: 0, p2: 0, p3: [0; 5], w: [0; 4] },
        2 => WpParams { default: false, p1: 31, p2: 31, p3: [31; 5], w: [15; 4] },
        _ => WpParams { default: false, p1: 16, p2: 10, p3: [7, 7, 7, 0, 0], w: [13, 12, 12, 12] },
    };
    let mut fh = FrameHeader::modular_lossless(&img);
    fh.group_size_shift = c.group_shift;
    let mut transforms: Vec<Transform> = Vec::new();
    let mut eff_tr: Vec<Transform> = Vec::new();
    let mut nb_meta = 0usize;
    let mut coded = planes.clone();
    let mut desc = String::new();
    let t = c.transform;
    let mut uses_squeeze = false;
    if t == 0 {
    } else if t <= 12 {
        // RCT: a spread of types incl. all 7 kinds and all 6 permutations
        let ty = [6u32, 0, 1, 2, 3, 4, 5, 13, 20, 27, 34, 41][(t - 1) as usize];
        if nch < 3 {
            return None;
        }
        let begin = if nch >= 4 && ty % 2 == 1 { 1 } else { 0 };
        if begin + 3 > nch {
            return None;
        }
        forward_rct(&mut coded, begin, ty);
        transforms.push(Transform::Rct { begin_c: begin as u32, rct_type: ty });
        eff_tr.push(Transform::Rct { begin_c: begin as u32, rct_type: ty });
        desc = format!("rct{ty}@{begin}");
    } else if t <= 15 {
        uses_squeeze = true;
        let params = match t - 13 {
            0 => vec![],
            1 => vec![SqueezeParam { horizontal: true, in_place: true, begin_c: 0, num_c: nch as u32 }],
            _ => vec![
                SqueezeParam { horizontal: false, in_place: false, begin_c: 0, num_c: 1 },
                SqueezeParam { horizontal: true, in_place: false, begin_c: 0, num_c: 1 },
            ],
        };
        let eff = if params.is_empty() { default_squeeze_params(&coded, 0) } else { params.clone() };
        if eff.is_empty() {
            return None;
        }
        forward_squeeze(&mut coded, &eff);
        eff_tr.push(Transform::Squeeze(eff.clone()));
        transforms.push(Transform::Squeeze(params));
        desc = format!("squeeze{}", t - 13);
    } else if t <= 24 {
        // palette family: built in the coded domain (index image + palette), truth through the reference inverse
        let v = t - 16;
        let num_c = if v % 2 == 0 || nch < 3 { 1 } else { 3 };
        let begin = 0usize;
        let (nb_colours, nb_deltas, d_pred): (u32, u32, u32) = match v {
            0 => (4, 0, 0),
            1 => (5, 0, 0),
            2 => (3, 2, 5),  // explicit delta entries, gradient prediction
            3 => (4, 1, 1),  // delta + West
            4 => (2, 0, 4),  // implicit entries above nb_colours
            5 => (2, 0, 5),  // negative (implicit delta) indices
            6 => (0, 0, 0),  // empty palette, implicit only
            7 => (3, 3, 6),  // all deltas, weighted predictor
            _ => (256, 0, 2),
        };
        if float != 0 {
            return None;
        }
        // oracle-uncertain zone: implicit palette entries at bit depths > 24 (the format text and libjxl's
        // clamping differ, the decoder overflows): excluded
        if matches!(v, 4 | 5 | 6) && depth > 24 {
            return None;
        }
        let pal_bits = depth;
        let mut pal = Channel::new(nb_colours as usize, num_c);
        pal.hshift = -1;
        pal.vshift = -1;
        for k in 0..nb_colours as usize {
            for cc in 0..num_c {
                let base = sample(7, k, cc, 3, 16, 16, maxv_of(pal_bits.min(24)), seed ^ 0x55) as i64;
                let val = if (k as u32) < nb_deltas { (base % 7) - 3 } else { base };
                pal.data[cc * nb_colours as usize + k] = val as i32;
            }
        }
        let idx = Channel::from_fn(c.w, c.h, |x, y| {
            let r = sample(if c.pattern == 1 || c.pattern == 2 { c.pattern } else { 7 }, x, y, 9, c.w, c.h, 1000, seed) as i32;
            match v {
                4 => (r % (nb_colours as i32 + 70)) + if r % 5 == 0 { 64 } else { 0 },
                5 => (r % 12) - 9,
                6 => r % 90,
                _ => r % (nb_colours.max(1) as i32),
            }
        });
        let recon = inverse_palette(&pal, &idx, num_c, nb_colours, nb_deltas, d_pred, pal_bits, &wp_params);
        // oracle-uncertain zone: implicit entries on channel >= 3 (not reachable: num_c <= 3)
        for cc in 0..num_c {
            planes[begin + cc] = recon[cc].clone();
        }
        coded = planes.clone();
        coded.splice(begin..begin + num_c, [idx]);
        coded.insert(0, pal);
        nb_meta = 1;
        transforms.push(Transform::Palette { begin_c: begin as u32, num_c: num_c as u32, nb_colours, nb_deltas, d_pred });
        eff_tr.push(Transform::Palette { begin_c: begin as u32, num_c: num_c as u32, nb_colours, nb_deltas, d_pred });
        desc = format!("palette{v}");
    } else {
        // pairs
        match t - 25 {
            0 => {
                if nch < 3 {
                    return None;
                }
                forward_rct(&mut coded, 0, 6);
                transforms.push(Transform::Rct { begin_c: 0, rct_type: 6 });
                eff_tr.push(Transform::Rct { begin_c: 0, rct_type: 6 });
                let eff = default_squeeze_params(&coded, 0);
                if eff.is_empty() {
                    return None;
                }
                forward_squeeze(&mut coded, &eff);
                eff_tr.push(Transform::Squeeze(eff.clone()));
                transforms.push(Transform::Squeeze(vec![]));
                uses_squeeze = true;
                desc = "rct6+squeeze".into();
            }
            1 => {
                if nch < 3 {
                    return None;
                }
                forward_rct(&mut coded, 0, 10);
                transforms.push(Transform::Rct { begin_c: 0, rct_type: 10 });
                eff_tr.push(Transform::Rct { begin_c: 0, rct_type: 10 });
                forward_rct(&mut coded, 0, 23);
                transforms.push(Transform::Rct { begin_c: 0, rct_type: 23 });
                eff_tr.push(Transform::Rct { begin_c: 0, rct_type: 23 });
                desc = "rct10+rct23".into();
            }
            2 => {
                // squeeze then RCT on the three residual channels is not meaningful; explicit two-step squeeze
                let p = vec![
                    SqueezeParam { horizontal: true, in_place: true, begin_c: 0, num_c: nch as u32 },
                    SqueezeParam { horizontal: false, in_place: true, begin_c: 0, num_c: nch as u32 },
                    SqueezeParam { horizontal: true, in_place: true, begin_c: 0, num_c: 1 },
                ];
                forward_squeeze(&mut coded, &p);
                eff_tr.push(Transform::Squeeze(p.clone()));
                transforms.push(Transform::Squeeze(p));
                uses_squeeze = true;
                desc = "squeeze-hvh".into();
            }
            _ => {
                // palette on one channel, then RCT on the remaining (index, c1, c2) is legal: keep it simple —
                // palette with 1 channel followed by squeeze of everything after the meta channel
                if float != 0 {
                    return None;
                }
                let nb_colours = 6u32;
                let mut pal = Channel::new(nb_colours as usize, 1);
                pal.hshift = -1;
                pal.vshift = -1;
                for k in 0..nb_colours as usize {
                    pal.data[k] = sample(7, k, 0, 3, 16, 16, maxv_of(depth.min(24)), seed ^ 0x77);
                }
                let idx = Channel::from_fn(c.w, c.h, |x, y| sample(7, x, y, 9, c.w, c.h, 1000, seed) % nb_colours as i32);
                let recon = inverse_palette(&pal, &idx, 1, nb_colours, 0, 0, depth, &WpParams::default());
                planes[0] = recon[0].clone();
                coded = planes.clone();
                coded[0] = idx;
                coded.insert(0, pal);
                nb_meta = 1;
                transforms.push(Transform::Palette { begin_c: 0, num_c: 1, nb_colours, nb_deltas: 0, d_pred: 0 });
                eff_tr.push(Transform::Palette { begin_c: 0, num_c: 1, nb_colours, nb_deltas: 0, d_pred: 0 });
                let eff = default_squeeze_params(&coded, 1);
                if eff.is_empty() {
                    return None;
                }
                forward_squeeze(&mut coded, &eff);
                eff_tr.push(Transform::Squeeze(eff.clone()));
                transforms.push(Transform::Squeeze(vec![]));
                uses_squeeze = true;
                desc = "palette+squeeze".into();
            }
        }
    }
    // passes need squeeze (shifted channels) to be meaningful
    match c.passes {
        0 => {}
        1 => {
            fh.passes = Passes { num_passes: 2, shift: vec![0], downsample: vec![2], last_pass: vec![0] };
        }
        _ => {
            fh.passes = Passes { num_passes: 3, shift: vec![0, 0], downsample: vec![4, 2], last_pass: vec![0, 1] };
        }
    }
    if c.passes != 0 && !uses_squeeze {
        return None;
    }
    img.modular_16bit_buffers = small && !uses_squeeze && t == 0;

    let mut spec = ModularFrameSpec::new(fh, coded);
    spec.nb_meta = nb_meta;
    spec.transforms = transforms.clone();
    spec.tree = tree_of(c.tree, c.leaf_variant, c.w);
    spec.global_tree = c.global_tree;
    spec.wp = wp_params.clone();
    spec.code = match c.coder {
        0 => CodeOpts { use_prefix: true, ..Default::default() },
        1 => CodeOpts { use_prefix: false, ..Default::default() },
        2 => CodeOpts { use_prefix: false, ans_shift: Some(7), cfg: Some(HybridCfg::new(3, 1, 1)), ..Default::default() },
        _ => CodeOpts { use_prefix: true, force_complex_prefix: true, cfg: Some(HybridCfg::new(0, 0, 0)), ..Default::default() },
    };
    if c.lz77 != 0 {
        // LZ77 enabled in the header (copies are written according to `lz77_copies`; with 0 the decoder's LZ77 path
        // is taken for every symbol without any copy).  lz77==2 uses the minimum min_symbol that still leaves room for literals.
        spec.code.lz77 = Some(Lz77 {
            min_symbol: if c.lz77 == 1 { 224 } else { 512 },
            min_length: if c.lz77 == 1 { 3 } else { 9 },
            len_cfg: HybridCfg::new(if c.lz77 == 1 { 0 } else { 4 }, 0, 0),
        });
        spec.lz77_copies = c.lz77_copies;
        if !spec.code.use_prefix {
            return None; // literal tokens must stay below min_symbol, ANS alphabets are <= 256 anyway: keep prefix only
        }
    }
    if c.toc_perm != 0 {
        // set after we know the number of sections; filled below
    }
    let tree = Tree::new(&spec.tree);
    if tree.num_leaves > 1 && matches!(spec.code.cluster_coding, Some(ClusterCoding::Simple(_))) {}
    let enc = std::panic::catch_unwind(std::panic::AssertUnwindSafe(|| {
        let mut s = spec.clone();
        if c.toc_perm != 0 {
            let probe = write_modular_frame(&img, &s);
            let n = probe.num_sections;
            if n < 2 {
                return None;
            }
            let perm: Vec<u32> = if c.toc_perm == 1 { (0..n as u32).rev().collect() } else { (0..n as u32).map(|i| (i + 1) % n as u32).collect() };
            s.toc_perm = Some(perm);
        }
        Some(write_modular_frame(&img, &s))
    }));
    let enc = match enc {
        Ok(Some(e)) => e,
        Ok(None) => return None,
        Err(_) => return None, // not encodable with this writer (residual range etc.)
    };
    // truth = reference inverse of the (possibly multiplier-adjusted) coded channels
    let mut truth = enc.channels.clone();
    let fits = |chs: &[Channel]| chs.iter().all(|c| c.data.iter().all(|&v| v >= i16::MIN as i32 && v <= i16::MAX as i32));
    let mut fits16 = fits(&truth);
    for tr in eff_tr.iter().rev() {
        match tr {
            Transform::Rct { begin_c, rct_type } => inverse_rct(&mut truth, *begin_c as usize, *rct_type),
            Transform::Squeeze(p) => {
                inverse_squeeze(&mut truth, p);
            }
            Transform::Palette { begin_c, num_c, nb_colours, nb_deltas, d_pred } => {
                let pal = truth.remove(0);
                let b = *begin_c as usize;
                let idx = truth[b].clone();
                let rec = inverse_palette(&pal, &idx, *num_c as usize, *nb_colours, *nb_deltas, *d_pred, depth, &wp_params);
                truth.splice(b..b + 1, rec);
            }
        }
        fits16 &= fits(&truth);
    }
    if truth.len() != nch {
        crate::explore::machinery_failure("C03 generator: truth channel count mismatch");
    }
    let mut m16 = img.modular_16bit_buffers;
    let mut frame_bytes = enc.bytes;
    if c.force16 {
        if !fits16 || float != 0 || depth > 12 {
            return None;
        }
        // the flag lives in the image header only; the frame bytes do not depend on it
        img.modular_16bit_buffers = true;
        m16 = true;
        let _ = &mut frame_bytes;
    }
    let bytes = write_codestream(&img, &Sel::default(), &[frame_bytes]);
    Some(Built { bytes, m16, truth, desc, lz77_copies: enc.lz77_copies })
}

pub enum Verdict {
    Ok,
    Skip,
    Bad(String, String),
}

pub fn run_config(c: &Config, seed: u64) -> (Verdict, Option<Built>) {
    let Some(b) = build(c, seed) else { return (Verdict::Skip, None) };
    let r = decode_planes(&b.bytes, &DecOpts { wide: c.wide, pool: None });
    let v = match r {
        Err(e) => {
            let key = if e.starts_with("panic@") { format!("panic@{}", crate::util::panic_site(&e[6..])) } else { format!("decode-error:{}:{}:{}", transform_class(c), if c.tree < 14 { "leaf" } else { "tree" }, e.chars().rev().take(40).collect::<String>().chars().rev().collect::<String>()) };
            Verdict::Bad(key, format!("valid stream not decoded: {e}"))
        }
        Ok(kf) => {
            if kf.len() != 1 {
                Verdict::Bad("keyframes".into(), format!("{} keyframes", kf.len()))
            } else {
                compare(&b.truth, &kf[0], c)
            }
        }
    };
    (v, Some(b))
}

fn compare(truth: &[Channel], got: &[Plane], c: &Config) -> Verdict {
    if truth.len() != got.len() {
        return Verdict::Bad("channel-count".into(), format!("{} channels decoded, {} encoded", got.len(), truth.len()));
    }
    for (i, (t, g)) in truth.iter().zip(got).enumerate() {
        let (w, h) = g.dims();
        if (w, h) != (t.w, t.h) {
            return Verdict::Bad("dims".into(), format!("channel {i}: {w}x{h} decoded, {}x{} encoded", t.w, t.h));
        }
        match g {
            Plane::Int { data, .. } => {
                if let Some(p) = (0..data.len()).find(|&p| data[p] != t.data[p]) {
                    return Verdict::Bad(
                        format!("sample-mismatch:{}", transform_class(c)),
                        format!("channel {i} at ({},{}): decoded {} encoded {}", p % w, p / w, data[p], t.data[p]),
                    );
                }
            }
            Plane::Float { data, .. } => {
                // float sample types: the integers are bit patterns
                if c.float == 1 {
                    if let Some(p) = (0..data.len()).find(|&p| data[p].to_bits() != t.data[p] as u32) {
                        return Verdict::Bad("float-bits".into(), format!("channel {i} at {p}: decoded bits {:x} encoded {:x}", data[p].to_bits(), t.data[p]));
                    }
                } else {
                    return Verdict::Bad("unexpected-float-plane".into(), format!("channel {i} is a float plane"));
                }
            }
        }
    }
    Verdict::Ok
}

fn transform_class(c: &Config) -> &'static str {
    match c.transform {
        0 => "none",
        1..=12 => "rct",
        13..=15 => "squeeze",
        16..=24 => "palette",
        _ => "pair",
    }
}

pub fn main(args: &crate::Args) {
    crate::util::install_panic_hook();
    let mut rep = Report::new("C03", &args.tier, "exploration");
    let quick = rep.is_quick();
    if let Some(p) = &args.replay {
        replay(p);
    }
    let seed = rep.seed;
    // deviation-bounded neighbourhood of the default configuration
    let bound = crate::explore::bound_or(if quick { 2 } else { 3 });
    let limit = if quick { 0 } else { 0 };
    let (mut tapes, capped) = collect_tapes(bound, limit, |t| {
        let _ = config_from(t);
    });
    if capped {
        rep.caps.push("tape enumeration capped".into());
    }
    if quick {
        // quick: all 1-deviation configurations + every 2-deviation pair that involves the transform,
        // tree or size dimension with a *small* size (big multi-group images only at 1 deviation)
        tapes.retain(|t| {
            let cost = t.iter().filter(|&&a| a != 0).count();
            if cost <= 1 {
                return true;
            }
            let size_idx = t[0] as usize;
            let big = SIZES[size_idx].0 * SIZES[size_idx].1 > 400;
            !big && (t[5] != 0 || t[8] != 0)
        });
    }
    let n_dev = tapes.len();
    // coupled full product: predictor x tiny sizes x leaf variants x coder x wide
    let mut prod: Vec<Vec<u32>> = Vec::new();
    for tree in 0..14u32 {
        for (si, _) in SIZES.iter().enumerate().filter(|(_, s)| s.0 <= 5 && s.1 <= 5) {
            for lv in [0u32, 1, 3] {
                for coder in 0..2u32 {
                    for wide in 0..2u32 {
                        for depth in [0u32, 5] {
                            let mut t = vec![0u32; 17];
                            t[0] = si as u32;
                            t[2] = depth;
                            t[5] = tree;
                            t[6] = lv;
                            t[9] = coder;
                            t[15] = wide;
                            t[4] = 7; // LCG pattern
                            prod.push(t);
                        }
                    }
                }
            }
        }
    }
    tapes.extend(prod);
    // LZ77 copies inside Modular sub-bitstreams (distance multiplier = channel width): every size x repetitive pattern x
    // LZ77 parameter set x distance coding x layout x tree x transform x prefix coder
    let n_before_lz = tapes.len();
    for si in 0..SIZES.len() as u32 {
        for pattern in [1u32, 2, 3, 4, 5, 6, 0] {
            for lz in 1..3u32 {
                for copies in 1..3u32 {
                    for layout in 0..2u32 {
                        for tree in [0u32, 5, 14, 20] {
                            for tr in [0u32, 1, 13] {
                                for coder in [0u32, 3] {
                                    let mut t = vec![0u32; 18];
                                    t[0] = si;
                                    t[1] = layout;
                                    t[4] = pattern;
                                    t[5] = tree;
                                    t[8] = tr;
                                    t[9] = coder;
                                    t[10] = lz;
                                    t[17] = copies;
                                    tapes.push(t);
                                }
                            }
                        }
                    }
                }
            }
        }
    }
    let n_lz = tapes.len() - n_before_lz;
    // multi-group images (several pass groups / LF groups) x every transform stack, TOC permutation, pass count,
    // group size and tree locality: cheap enough for every tier, and the only place where channels are cut into groups
    {
        let big: Vec<usize> = SIZES.iter().enumerate().filter(|(_, s)| s.0 * s.1 > 400).map(|(i, _)| i).collect();
        for &si in &big {
            for tr in 0..N_TRANSFORMS {
                for (perm, passes, gshift, global) in [(0u32, 0u32, 0u32, 0u32), (2, 0, 0, 1), (1, 1, 1, 0), (2, 2, 0, 0), (0, 0, 2, 1)] {
                    let mut t = vec![0u32; 17];
                    t[0] = si as u32;
                    t[1] = if tr >= 1 && tr <= 12 { 1 } else { 0 };
                    t[8] = tr;
                    t[11] = global;
                    t[12] = gshift;
                    t[13] = passes;
                    t[14] = perm;
                    tapes.push(t);
                }
            }
        }
    }
    rep.rule = format!(
        "encoder configuration = 18 dimensions (size {}, layout {}, bit depth {}, float kind 3, pattern {}, tree {}, leaf offset/multiplier 7, WP params 4, transform {}, coder 4, LZ77 3, global/local tree, group size 4, passes 3, TOC permutation 3, buffer width 2, ec dim_shift 3, LZ77 copies 3); ALL configurations within {} deviations of the default ({}), plus the full product predictor x tiny sizes x leaf variant x coder x width x depth, and the LZ77-copy product (every size x 7 patterns x 2 LZ77 parameter sets x 2 distance codings x layout x 4 trees x 3 transforms x 2 prefix coders); a case is non-trivial when it is encodable and decodes to a non-constant image; distinct by configuration tape",
        SIZES.len(), N_LAYOUTS, DEPTHS.len(), N_PATTERNS, N_TREES, N_TRANSFORMS, bound,
        if quick { "quick tier: 2-deviation pairs restricted to small images with a tree or transform deviation" } else { "complete" }
    );
    struct R {
        outcome: &'static str,
        nontrivial: bool,
        viol: Option<(String, String)>,
        bytes: usize,
        copies: usize,
    }
    let results = par_map(&tapes, n_threads(), |_, tp| {
        let mut t = Tape::from_answers(tp);
        let c = config_from(&mut t);
        let (v, b) = run_config(&c, seed);
        let nontrivial = b.as_ref().map(|b| b.truth.iter().any(|ch| ch.data.iter().any(|&x| x != ch.data[0]))).unwrap_or(false);
        let bytes = b.as_ref().map(|b| b.bytes.len()).unwrap_or(0);
        let copies = b.as_ref().map(|b| b.lz77_copies).unwrap_or(0);
        match v {
            Verdict::Ok => R { outcome: "ok", nontrivial, viol: None, bytes, copies },
            Verdict::Skip => R { outcome: "not-expressible", nontrivial: false, viol: None, bytes, copies },
            Verdict::Bad(k, w) => R { outcome: "mismatch", nontrivial, viol: Some((k, w)), bytes, copies },
        }
    });
    let mut skipped = 0;
    for (tp, r) in tapes.iter().zip(&results) {
        rep.eval();
        rep.outcome(r.outcome);
        if r.outcome == "not-expressible" {
            skipped += 1;
        }
        if r.nontrivial {
            let b: Vec<u8> = tp.iter().flat_map(|x| x.to_le_bytes()).collect();
            rep.nontrivial(fnv(&b));
        }
        if let Some((k, w)) = &r.viol {
            let mut t = Tape::from_answers(tp);
            let c = config_from(&mut t);
            if std::env::var("VERIF_DUMP").is_ok() {
                eprintln!("DUMP {k} {:?}", c);
            }
            let built = build(&c, seed);
            rep.violation(k, &format!("{w} [{:?}]", c), &json!({"tape": tp, "seed": seed, "config": format!("{:?}", c), "stream_hex": built.map(|b| hex(&b.bytes)).unwrap_or_default()}));
        }
    }
    for i in [0usize, n_dev / 3, n_dev / 2, tapes.len() - 1] {
        let mut t = Tape::from_answers(&tapes[i]);
        let c = config_from(&mut t);
        rep.sample(json!({"tape": tapes[i], "config": format!("{:?}", c), "stream_bytes": results[i].bytes, "outcome": results[i].outcome}));
    }
    rep.extra.insert("deviation_bound_completed".into(), json!(bound));
    rep.extra.insert("deviation_cases".into(), json!(n_dev));
    rep.extra.insert("full_product_cases".into(), json!(tapes.len() - n_dev));
    rep.extra.insert("not_expressible".into(), json!(skipped));
    rep.extra.insert("lz77_product_cases".into(), json!(n_lz));
    rep.extra.insert("streams_with_lz77_copies".into(), json!(results.iter().filter(|r| r.copies > 0).count()));
    rep.extra.insert("lz77_copies_written".into(), json!(results.iter().map(|r| r.copies).sum::<usize>()));
    rep.exhaustive = !quick;
    rep.assumptions = vec![
        "jxlw (reference writer + reference inverse transforms) is the specification oracle; it agreed with the decoder on bring-up for every predictor incl. the weighted one".into(),
        "implicit palette entries on channel index >= 3 and ec_upsampling > 1 are outside the alphabet (oracle-uncertain / needs the upsampling kernel)".into(),
        "LZ77 copies in Modular sub-bitstreams are written by a greedy pass of the writer over the residual symbols (candidate distances 1-3, 7, the channel width w, w+-1, 2w, 2w+1, 8w+7, 121, 130), with the special two-dimensional distance codes or plain distance values; the entropy-level alphabet of copies is C04's".into(),
    ];
    rep.finish();
}

fn replay(path: &str) -> ! {
    let s = std::fs::read_to_string(path).unwrap_or_else(|e| crate::explore::machinery_failure(&format!("{path}: {e}")));
    let v: serde_json::Value = serde_json::from_str(&s).unwrap();
    let tape: Vec<u32> = v["tape"].as_array().unwrap().iter().map(|x| x.as_u64().unwrap() as u32).collect();
    let seed = v["seed"].as_u64().unwrap_or(0);
    let mut t = Tape::from_answers(&tape);
    let c = config_from(&mut t);
    println!("config: {:?}", c);
    let (v1, b) = run_config(&c, seed);
    let (v2, _) = run_config(&c, seed);
    if let Some(b) = &b {
        println!("stream ({} bytes): {}", b.bytes.len(), hex(&b.bytes[..b.bytes.len().min(200)]));
    }
    match (v1, v2) {
        (Verdict::Bad(k, w), Verdict::Bad(k2, _)) if k == k2 => {
            println!("VIOLATION property=C03 replay={path}\n  key={k} :: {w}");
            std::process::exit(1)
        }
        (Verdict::Ok, Verdict::Ok) | (Verdict::Skip, Verdict::Skip) => {
            println!("replay: property holds on this case");
            std::process::exit(0)
        }
        _ => crate::explore::machinery_failure("replay not deterministic"),
    }
}
