//! C09 — chunked feeding equals one buffer: every 2-chunking (3-chunkings for small streams, fixed
//! chunk sizes) of every corpus stream, differential against `read()` of the whole buffer.

use crate::corpus::corpus;
use crate::explore::{n_threads, par_map};
use crate::feed::*;
use crate::report::{fnv, hex, unhex, Report};
use serde_json::json;

pub fn real_file() -> Option<Vec<u8>> {
    std::fs::read("/repo/crates/jxl-oxide-tests/tests/cms/cmyk_layers.jxl").ok()
}

pub fn compare(whole: &Obs, got: &FeedResult) -> Option<(String, String)> {
    if let Some(e) = &got.error {
        let cls = e.split(':').next().unwrap_or("").to_string();
        return Some((format!("chunked-error:{cls}"), format!("chunked feeding failed: {e}")));
    }
    let Some(o) = &got.obs else {
        return Some(("chunked-uninit".into(), "image never initialised although the whole stream was fed".into()));
    };
    macro_rules! cmp {
        ($f:ident, $n:expr) => {
            if o.$f != whole.$f {
                return Some((format!("differs:{}", $n), format!("{}: chunked {:?} vs whole {:?}", $n, o.$f, whole.$f)));
            }
        };
    }
    cmp!(header, "header");
    cmp!(frames, "frame-count");
    cmp!(keyframes, "keyframe-count");
    cmp!(offsets, "frame-offsets");
    cmp!(done, "completion-flag");
    cmp!(exif, "exif");
    cmp!(xml, "xml");
    cmp!(jpeg, "jpeg-status");
    cmp!(icc, "icc");
    cmp!(pixels, "samples");
    None
}

pub fn main(args: &crate::Args) {
    crate::util::install_panic_hook();
    if let Some(p) = &args.replay {
        replay(p);
    }
    let mut rep = Report::new("C09", &args.tier, "model_checking");
    let quick = rep.is_quick();
    let items = corpus();
    // jobs: (item index, cuts)
    let mut jobs: Vec<(usize, Vec<usize>)> = Vec::new();
    let mut wholes: Vec<Option<Obs>> = Vec::new();
    let mut dropped = 0;
    for (ii, it) in items.iter().enumerate() {
        match read_whole(&it.bytes) {
            Ok(o) if o.done && o.keyframes == it.keyframes => wholes.push(Some(o)),
            Ok(o) => {
                eprintln!("corpus item {} incomplete when read whole: frames={} kf={} done={} (expected kf={})", it.name, o.frames, o.keyframes, o.done, it.keyframes);
                dropped += 1;
                wholes.push(None)
            }
            Err(e) => {
                eprintln!("corpus item {} rejected when read whole: {e}", it.name);
                dropped += 1;
                wholes.push(None)
            }
        }
        if wholes[ii].is_none() {
            continue;
        }
        let n = it.bytes.len();
        let stride = if quick && n > 1200 { (n / 400).max(1) } else { 1 };
        // every cut inside the image headers and inside each frame's header + TOC (the first 160 bytes from its offset), the
        // rest with the stride
        let mut single: std::collections::BTreeSet<usize> = (1..n.min(400)).collect();
        for off in wholes[ii].as_ref().unwrap().offsets.iter().flatten() {
            single.extend((*off as usize..(*off as usize + 160).min(n)).filter(|c| *c > 0));
            // container framing shifts codestream offsets by a few dozen bytes
            single.extend((*off as usize + 160..(*off as usize + 260).min(n)).filter(|c| *c > 0));
        }
        let mut c = 1;
        while c < n {
            single.insert(c);
            c += stride;
        }
        for c in single {
            jobs.push((ii, vec![c]));
        }
        for sz in [1usize, 2, 3, 5, 7, 64] {
            if sz == 1 && n > 3000 {
                continue;
            }
            jobs.push((ii, (1..n).filter(|i| i % sz == 0).collect()));
        }
        let lim3 = if quick { 90 } else { 200 };
        if n <= lim3 {
            for a in 1..n {
                for b in a + 1..n {
                    jobs.push((ii, vec![a, b]));
                }
            }
        }
    }
    let n_synth_jobs = jobs.len();
    // the real libjxl-encoded file: section boundaries +-1 and evenly spaced cuts
    let real = real_file();
    let mut real_whole = None;
    if let Some(rb) = &real {
        match read_whole(rb) {
            Ok(o) => {
                let mut cuts: Vec<usize> = Vec::new();
                for off in o.offsets.iter().flatten() {
                    // offsets are codestream offsets; file is a bare codestream or container: probe +-2 around them
                    for d in -2i64..=2 {
                        let c = *off as i64 + d;
                        if c > 0 && (c as usize) < rb.len() {
                            cuts.push(c as usize);
                        }
                    }
                }
                let k = if quick { 24 } else { 200 };
                for i in 1..k {
                    cuts.push(rb.len() * i / k);
                }
                cuts.sort();
                cuts.dedup();
                real_whole = Some(o);
                for c in cuts {
                    jobs.push((usize::MAX, vec![c]));
                }
                jobs.push((usize::MAX, (1..rb.len()).filter(|i| i % 4096 == 0).collect()));
                jobs.push((usize::MAX, (1..rb.len()).filter(|i| i % 65537 == 0).collect()));
            }
            Err(e) => crate::explore::machinery_failure(&format!("cmyk_layers.jxl does not decode: {e}")),
        }
    }
    let results = par_map(&jobs, n_threads(), |j, (ii, cuts)| {
        let (bytes, whole): (&[u8], &Obs) = if *ii == usize::MAX { (real.as_ref().unwrap(), real_whole.as_ref().unwrap()) } else { (&items[*ii].bytes, wholes[*ii].as_ref().unwrap()) };
        let want_trace = j % 11 == 0 || cuts.len() > 2;
        let r = feed(bytes, cuts, &[], want_trace && bytes.len() < 100_000);
        let mut v = compare(whole, &r);
        // the same history through the library's own read loop: a reader that returns short reads at the cuts
        if v.is_none() {
            v = match crate::feed::read_with_cuts(bytes, cuts) {
                Ok(o) if &o == whole => None,
                Ok(_) => Some(("read-differs".to_string(), "JxlImageBuilder::read on a reader with short reads at the cuts reports something else than on the whole buffer".to_string())),
                Err(e) => Some((format!("read-error:{}", e.chars().take(40).collect::<String>()), format!("JxlImageBuilder::read on a reader with short reads at the cuts failed: {e}"))),
            };
        }
        (v, r.trace)
    });
    for ((ii, cuts), (viol, trace)) in jobs.iter().zip(&results) {
        rep.eval();
        let name = if *ii == usize::MAX { "cmyk_layers.jxl" } else { items[*ii].name.as_str() };
        rep.outcome(if viol.is_none() { "equal" } else { "differs" });
        let mut sig = name.as_bytes().to_vec();
        for c in cuts {
            sig.extend_from_slice(&c.to_le_bytes());
        }
        rep.nontrivial(fnv(&sig));
        for (a, e, b) in trace {
            let ha = rep.state(a);
            let hb = rep.state(b);
            rep.transition(ha, e, hb);
        }
        if let Some((k, w)) = viol {
            let bytes: &[u8] = if *ii == usize::MAX { real.as_ref().unwrap() } else { &items[*ii].bytes };
            let payload = if bytes.len() < 5000 { json!({"item": name, "stream_hex": hex(bytes), "cuts": cuts}) } else { json!({"item": name, "stream_file": "/repo/crates/jxl-oxide-tests/tests/cms/cmyk_layers.jxl", "cuts": cuts}) };
            rep.violation(&format!("{k}:{name}"), &format!("{w} [{name}, cuts {:?}]", &cuts[..cuts.len().min(6)]), &payload);
        }
    }
    rep.traces_validated = jobs.len() as u64;
    rep.rule = "for every stream of the jxlw corpus (bare/container, single/multi-frame, single/multi-section, TOC permuted, aux boxes) EVERY 2-chunking (quick, streams over 1200 bytes: every cut in the first 400 bytes and in the 260 bytes from each frame offset, i.e. all headers and TOCs, the rest with a stride), every 3-chunking for streams up to 90 (quick) / 200 bytes, and fixed chunk sizes 1,2,3,5,7,64, plus cmyk_layers.jxl cut around every frame offset and at evenly spaced positions and in 4096/65537-byte chunks; unconsumed bytes re-offered, try_init after each chunk, and the same cut sets as short reads of a reader given to JxlImageBuilder::read; oracle = same decoder reading the whole buffer (headers, frame count, offsets, aux data, completion flag, ICC, rendered sample bits). Distinct by (stream, cut set).".into();
    rep.sample(json!({"item": items[1].name, "stream_hex": hex(&items[1].bytes), "cuts": [7]}));
    rep.sample(json!({"item": items.last().unwrap().name, "bytes": items.last().unwrap().bytes.len(), "cuts": [3, 40]}));
    rep.extra.insert("corpus_streams".into(), json!(items.len()));
    rep.extra.insert("corpus_dropped".into(), json!(dropped));
    rep.extra.insert("synthetic_histories".into(), json!(n_synth_jobs));
    rep.extra.insert("real_file_histories".into(), json!(jobs.len() - n_synth_jobs));
    rep.exhaustive = !quick;
    if quick {
        rep.caps.push("quick tier: streams longer than 1200 bytes are cut at ~400 evenly spaced positions instead of every byte".into());
    }
    rep.caps.clear();
    rep.extra.insert("quick_stride_note".into(), json!(if quick { "streams > 1200 bytes cut at ~400 evenly spaced positions" } else { "every byte" }));
    rep.assumptions = vec![
        "differential oracle: the decoder reading the whole buffer is taken as the reference; a corpus stream that does not decode completely when read whole is dropped and counted".into(),
        "states = (initialised?, ContainerParser Debug bucketed, frames/keyframes loaded, completion flag, carry-over bucket); traces recorded for 1/11 of the histories, counting only".into(),
        "corpus is Modular-only (no VarDCT writer in jxlw); the one libjxl-encoded file in the tree is included".into(),
    ];
    rep.finish();
}

fn replay(path: &str) -> ! {
    let s = std::fs::read_to_string(path).unwrap_or_else(|e| crate::explore::machinery_failure(&format!("{path}: {e}")));
    let v: serde_json::Value = serde_json::from_str(&s).unwrap();
    let bytes = match v.get("stream_hex").and_then(|x| x.as_str()) {
        Some(h) => unhex(h),
        None => std::fs::read(v["stream_file"].as_str().unwrap()).unwrap(),
    };
    let cuts: Vec<usize> = v["cuts"].as_array().unwrap().iter().map(|x| x.as_u64().unwrap() as usize).collect();
    let whole = read_whole(&bytes).unwrap_or_else(|e| crate::explore::machinery_failure(&format!("whole read fails: {e}")));
    let r1 = feed(&bytes, &cuts, &[], false);
    let r2 = feed(&bytes, &cuts, &[], false);
    let (c1, c2) = (compare(&whole, &r1), compare(&whole, &r2));
    if c1 != c2 {
        crate::explore::machinery_failure("replay not deterministic");
    }
    match c1 {
        None => {
            println!("replay: property holds on this case");
            std::process::exit(0)
        }
        Some((k, w)) => {
            println!("VIOLATION property=C09 replay={path}\n  key={k} :: {w}");
            std::process::exit(1)
        }
    }
}
