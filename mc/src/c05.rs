//! C05 — frame composition: frame sequences enumerated within a deviation bound (plus a full product
//! for two frames), written by jxlw, every keyframe compared with the reference compositor.

use crate::dec::*;
use crate::explore::{collect_tapes, n_threads, par_map, Tape};
use crate::report::{fnv, hex, Report};
use jxlw::frame::*;
use jxlw::headers::*;
use jxlw::model::{composite, FrameIn};
use jxlw::modular::*;
use serde_json::json;

const CW: u32 = 5;
const CH: u32 = 4;
/// canvas of the patch family (a frame may carry at most width*height/16 patch references)
const PW: u32 = 8;
const PH: u32 = 6;

#[derive(Clone, Debug)]
pub struct FrameCfg {
    pub ftype: u32,
    pub duration: u32,
    pub save: u32,
    pub mode: u32,
    pub source: u32,
    pub clamp: bool,
    pub crop: u32,
    pub ec_mode: u32,
    pub pattern: u32,
}

#[derive(Clone, Debug)]
pub struct Cfg {
    pub premult: bool,
    pub alpha_bits: u32,
    pub second_ec: bool,
    pub colour_bits: u32,
    pub frames: Vec<FrameCfg>,
    pub request_order: u32,
}

pub fn frame_from(t: &mut Tape) -> FrameCfg {
    FrameCfg {
        ftype: [FT_REGULAR, FT_REFERENCE_ONLY, FT_SKIP_PROGRESSIVE][t.choose(3) as usize],
        duration: [1, 0][t.choose(2) as usize],
        save: [1, 0, 2, 3][t.choose(4) as usize],
        mode: [BLEND_BLEND, BLEND_REPLACE, BLEND_ADD, BLEND_MULADD, BLEND_MUL][t.choose(5) as usize],
        source: [1, 0, 2, 3][t.choose(4) as usize],
        clamp: t.flag(),
        crop: t.choose(9),
        ec_mode: t.choose(3),
        pattern: t.choose(4),
    }
}

pub fn cfg_from(t: &mut Tape, max_frames: u32) -> Cfg {
    let premult = t.flag();
    let alpha_bits = [8, 16][t.choose(2) as usize];
    let second_ec = t.flag();
    let colour_bits = [8, 12][t.choose(2) as usize];
    let n = [2, 1, 3, 4][t.choose(max_frames.min(4)) as usize].min(max_frames);
    let frames = (0..max_frames).map(|_| frame_from(t)).take(max_frames as usize).collect::<Vec<_>>();
    let request_order = t.choose(3);
    Cfg { premult, alpha_bits, second_ec, colour_bits, frames: frames[..n as usize].to_vec(), request_order }
}

fn crop_of(k: u32) -> Option<(i32, i32, u32, u32)> {
    match k {
        0 => None,
        1 => Some((1, 1, 3, 2)),       // inside
        2 => Some((-2, 0, 4, 4)),      // over the left edge
        3 => Some((3, 1, 4, 2)),       // over the right edge
        4 => Some((1, -1, 2, 3)),      // over the top edge
        5 => Some((0, 2, 5, 5)),       // over the bottom edge
        6 => Some((7, 6, 2, 2)),       // wholly outside
        7 => Some((-1, -1, 8, 7)),     // larger than the canvas
        _ => Some((0, 0, 5, 4)),       // explicit crop equal to the canvas
    }
}

pub struct Built {
    pub bytes: Vec<u8>,
    /// the same frames behind an image header that declares 16-bit Modular buffers (only when every sample fits)
    pub bytes16: Option<Vec<u8>>,
    pub expected: Vec<Vec<Vec<f64>>>,
    pub n_ch: usize,
}

pub fn build(c: &Cfg) -> Option<Built> {
    let mut img = ImageHeader::simple(CW, CH, false, c.colour_bits);
    img.extra_fields = true;
    img.animation = Some(crate::corpus::animation_header());
    let mut a = ExtraChannelInfo::new(EC_ALPHA, BitDepth::int(c.alpha_bits));
    a.alpha_associated = c.premult;
    img.ec_info = vec![a];
    if c.second_ec {
        img.ec_info.push(ExtraChannelInfo::new(EC_DEPTH, BitDepth::int(8)));
    }
    img.modular_16bit_buffers = false;
    let ne = img.ec_info.len();
    let n_ch = 3 + ne;
    let bits: Vec<u32> = [c.colour_bits; 3].into_iter().chain([c.alpha_bits]).chain(if c.second_ec { Some(8) } else { None }).collect();
    let mut frames_bytes = vec![];
    let mut model_frames = vec![];
    let nf = c.frames.len();
    for (i, fc) in c.frames.iter().enumerate() {
        let last = i + 1 == nf;
        let mut fh = FrameHeader::modular_lossless(&img);
        fh.frame_type = if last && fc.ftype == FT_REFERENCE_ONLY { FT_REGULAR } else { fc.ftype };
        fh.is_last = last;
        fh.duration = fc.duration;
        fh.save_as_reference = fc.save;
        let crop = if fh.frame_type == FT_REFERENCE_ONLY { None } else { crop_of(fc.crop) };
        if let Some((x0, y0, w, h)) = crop {
            fh.have_crop = true;
            fh.x0 = x0;
            fh.y0 = y0;
            fh.width = w;
            fh.height = h;
        }
        fh.blending_info = BlendingInfo { mode: fc.mode, alpha_channel: 0, clamp: fc.clamp, source: fc.source };
        let full = fh.is_full_frame(&img);
        let ec_info = |k: usize| -> BlendingInfo {
            match fc.ec_mode {
                0 => BlendingInfo { mode: fc.mode, alpha_channel: 0, clamp: fc.clamp, source: fc.source },
                1 => BlendingInfo { mode: BLEND_ADD, alpha_channel: 0, clamp: false, source: fc.source },
                _ => BlendingInfo { mode: if k == 0 { fc.mode } else { BLEND_REPLACE }, alpha_channel: 0, clamp: fc.clamp, source: fc.source },
            }
        };
        fh.ec_blending_info = (0..ne).map(ec_info).collect();
        // oracle-uncertain zone: on a full frame, exactly one of {frame mode, EC mode} being Replace
        if full && fh.ec_blending_info.iter().any(|b| (b.mode == BLEND_REPLACE) != (fc.mode == BLEND_REPLACE)) {
            return None;
        }
        // with colour mode Blend/MulAdd the alpha channel itself must use the same mode and source for the
        // reference to be unambiguous (which slot supplies the old alpha)
        if (fc.mode == BLEND_BLEND || fc.mode == BLEND_MULADD) && fh.ec_blending_info[0].mode != fc.mode {
            return None;
        }
        if fh.save_before_ct_signalled(&img) {
            fh.save_before_ct = fh.frame_type == FT_REFERENCE_ONLY;
        }
        let (fw, fhh) = fh.frame_size(&img);
        let (fw, fhh) = (fw as usize, fhh as usize);
        // samples from the alphabet {0, 64, 128, 255} (scaled to the depth), alpha {0, 128, 255}
        let chans: Vec<Channel> = (0..n_ch)
            .map(|ch| {
                let maxv = (1i64 << bits[ch]) - 1;
                Channel::from_fn(fw, fhh, |x, y| {
                    let k = (x * 3 + y * 5 + ch * 7 + i * 11 + fc.pattern as usize * 13) % 4;
                    // pattern 3: colour samples outside the nominal range (negative, above the maximum) - legal in Modular, and
                    // negative integers must survive every integer -> float conversion of the 16-bit buffers
                    let lvl: i64 = if ch == 3 { [255, 128, 0, 255][k] } else if fc.pattern == 3 { [-13, 300, 0, -128][k] } else { [64, 255, 0, 128][k] };
                    ((lvl * maxv + 127) / 255) as i32
                })
            })
            .collect();
        let planes: Vec<Vec<f64>> = chans.iter().enumerate().map(|(ch, p)| p.data.iter().map(|&v| v as f64 / ((1i64 << bits[ch]) - 1) as f64).collect()).collect();
        let mut spec = ModularFrameSpec::new(fh.clone(), chans);
        spec.tree = Node::leaf(if i % 2 == 0 { 5 } else { 2 });
        frames_bytes.push(write_modular_frame(&img, &spec).bytes);
        model_frames.push(FrameIn { header: fh, planes, patches: vec![] });
    }
    let expected: Vec<Vec<Vec<f64>>> = composite(&img, &model_frames).into_iter().map(|c| c.planes).collect();
    let bytes = write_codestream(&img, &Sel::default(), &frames_bytes);
    let bytes16 = (c.alpha_bits <= 12 && c.colour_bits <= 12).then(|| {
        let mut img16 = img.clone();
        img16.modular_16bit_buffers = true;
        write_codestream(&img16, &Sel::default(), &frames_bytes)
    });
    Some(Built { bytes, bytes16, expected, n_ch })
}

fn plane_f64(p: &Plane, bits: u32) -> Vec<f64> {
    match p {
        Plane::Int { data, .. } => data.iter().map(|&v| v as f64 / ((1i64 << bits) - 1) as f64).collect(),
        Plane::Float { data, .. } => data.iter().map(|&v| v as f64).collect(),
    }
}

pub fn run(c: &Cfg) -> Option<Result<usize, (String, String)>> {
    let b = build(c)?;
    let mode = c.frames.last().map(|f| f.mode).unwrap_or(0);
    Some(compare(&b, c.request_order, &format!("blend-mismatch:mode{mode}"), (CW as usize, CH as usize)))
}

/// Decodes `b.bytes`, renders the keyframes in the given order and compares with `b.expected`.
pub fn compare(b: &Built, request_order: u32, key: &str, canvas: (usize, usize)) -> Result<usize, (String, String)> {
    let n = compare_bytes(b, &b.bytes, request_order, key, canvas)?;
    if let Some(b16) = &b.bytes16 {
        compare_bytes(b, b16, request_order, &format!("{key}:16bit-buffers"), canvas)?;
    }
    Ok(n)
}

fn compare_bytes(b: &Built, bytes: &[u8], request_order: u32, key: &str, canvas: (usize, usize)) -> Result<usize, (String, String)> {
    let img = match open(bytes, &DecOpts::default()) {
        Ok(i) => i,
        Err(e) => return Err((format!("decode-error:{}", e.chars().rev().take(30).collect::<String>().chars().rev().collect::<String>()), format!("valid multi-frame stream not decoded: {e}"))),
    };
    let nk = img.num_loaded_keyframes();
    if nk != b.expected.len() {
        return Err(("keyframe-count".into(), format!("decoder reports {nk} keyframes, reference {}", b.expected.len())));
    }
    let order: Vec<usize> = match request_order {
        0 => (0..nk).collect(),
        1 => (0..nk).rev().collect(),
        _ => (0..nk).chain(0..nk).collect(),
    };
    for k in order {
        let fb = match crate::util::guard(|| img.render_frame(k).map(|r| r.image_all_channels())) {
            Ok(Ok(fb)) => fb,
            Ok(Err(e)) => return Err(("render-error".into(), format!("keyframe {k}: {e}"))),
            Err(p) => return Err((format!("panic@{}", crate::util::panic_site(&p)), format!("keyframe {k}: panic {p}"))),
        };
        if fb.channels() != b.n_ch || (fb.width(), fb.height()) != canvas {
            return Err(("dims".into(), format!("keyframe {k}: buffer {}x{}x{}", fb.width(), fb.height(), fb.channels())));
        }
        let (w, nch) = (fb.width(), fb.channels());
        for i in 0..fb.width() * fb.height() {
            for ch in 0..nch {
                let got = fb.buf()[i * nch + ch] as f64;
                let want = b.expected[k][ch][i];
                if !((got - want).abs() <= 1e-5) {
                    return Err((
                        format!("{key}:{}", if ch < 3 { "colour" } else if ch == 3 { "alpha" } else { "ec" }),
                        format!("keyframe {k} channel {ch} at ({},{}): decoded {} reference {}", i % w, i / w, got, want),
                    ));
                }
            }
        }
    }
    Ok(nk)
}

// ---------------------------------------------------------------- patches

#[derive(Clone, Debug)]
pub struct PatchCfg {
    pub premult: bool,
    pub two_alpha: bool,
    pub alpha_bits: u32,
    pub ref_kind: u32,
    pub ref_slot: u32,
    pub src: u32,
    pub target: u32,
    pub second_target: u32,
    pub colour_mode: u32,
    pub alpha_mode: u32,
    pub ec2_mode: u32,
    pub clamp: bool,
    pub alpha_channel: u32,
    pub second_ref: bool,
    pub crop: u32,
    pub frame_blend: u32,
    pub ans: bool,
    pub pattern: u32,
    pub request_order: u32,
}

pub fn patch_cfg_from(t: &mut Tape) -> PatchCfg {
    PatchCfg {
        premult: t.flag(),
        two_alpha: t.flag(),
        alpha_bits: [8, 16][t.choose(2) as usize],
        ref_kind: t.choose(3),
        ref_slot: [1, 0, 2, 3][t.choose(4) as usize],
        src: t.choose(5),
        target: t.choose(3),
        second_target: t.choose(5),
        colour_mode: [1, 0, 2, 3, 4, 5, 6, 7][t.choose(8) as usize],
        alpha_mode: t.choose(4),
        ec2_mode: t.choose(3),
        clamp: t.flag(),
        alpha_channel: t.choose(2),
        second_ref: t.flag(),
        crop: t.choose(4),
        frame_blend: t.choose(3),
        ans: t.flag(),
        pattern: t.choose(4),
        request_order: t.choose(2) * 2,
    }
}

pub fn build_patch(c: &PatchCfg) -> Option<Built> {
    use jxlw::patches::*;
    let mut img = ImageHeader::simple(PW, PH, false, 8);
    img.extra_fields = true;
    img.animation = Some(crate::corpus::animation_header());
    let mut a = ExtraChannelInfo::new(EC_ALPHA, BitDepth::int(c.alpha_bits));
    a.alpha_associated = c.premult;
    let mut e2 = if c.two_alpha { ExtraChannelInfo::new(EC_ALPHA, BitDepth::int(8)) } else { ExtraChannelInfo::new(EC_DEPTH, BitDepth::int(8)) };
    if c.two_alpha {
        e2.alpha_associated = !c.premult;
    }
    img.ec_info = vec![a, e2];
    img.modular_16bit_buffers = false;
    let n_ch = 5usize;
    let bits: [u32; 5] = [8, 8, 8, c.alpha_bits, 8];
    let num_alpha = if c.two_alpha { 2 } else { 1 };
    if !c.two_alpha && c.alpha_channel != 0 {
        return None;
    }
    let other_slot = (c.ref_slot + 1) % 4;
    let samples = |fw: usize, fh: usize, i: usize| -> Vec<Channel> {
        (0..n_ch)
            .map(|ch| {
                let maxv = (1i64 << bits[ch]) - 1;
                Channel::from_fn(fw, fh, |x, y| {
                    let k = (x * 3 + y * 5 + ch * 7 + i * 11 + c.pattern as usize * 13) % 4;
                    let lvl: i64 = if ch >= 3 { [255, 128, 0, 64][(k + ch) % 4] } else if c.pattern == 3 { [-13, 300, 0, -128][k] } else { [64, 255, 0, 128][k] };
                    ((lvl * maxv + 127) / 255) as i32
                })
            })
            .collect()
    };
    let to_planes = |chans: &[Channel]| -> Vec<Vec<f64>> { chans.iter().enumerate().map(|(ch, p)| p.data.iter().map(|&v| v as f64 / ((1i64 << bits[ch]) - 1) as f64).collect()).collect() };
    let replace = |source: u32| BlendingInfo { mode: BLEND_REPLACE, alpha_channel: 0, clamp: false, source };
    let mut frames_bytes = vec![];
    let mut model_frames = vec![];
    // frame 0: the reference
    let (rw, rh) = if c.ref_kind == 0 { (5usize, 4usize) } else { (PW as usize, PH as usize) };
    {
        let mut fh = FrameHeader::modular_lossless(&img);
        fh.frame_type = if c.ref_kind == 2 { FT_REGULAR } else { FT_REFERENCE_ONLY };
        fh.is_last = false;
        fh.duration = 0;
        fh.save_as_reference = c.ref_slot;
        if c.ref_kind == 0 {
            fh.have_crop = true;
            fh.width = rw as u32;
            fh.height = rh as u32;
        }
        fh.blending_info = replace(other_slot);
        fh.ec_blending_info = vec![replace(other_slot), replace(other_slot)];
        if fh.save_before_ct_signalled(&img) {
            fh.save_before_ct = fh.frame_type == FT_REFERENCE_ONLY;
        }
        let chans = samples(rw, rh, 0);
        let planes = to_planes(&chans);
        let spec = ModularFrameSpec::new(fh.clone(), chans);
        frames_bytes.push(write_modular_frame(&img, &spec).bytes);
        model_frames.push(FrameIn { header: fh, planes, patches: vec![] });
    }
    // frame 1: carries the patches
    let mut fh = FrameHeader::modular_lossless(&img);
    fh.frame_type = FT_REGULAR;
    fh.is_last = true;
    fh.duration = 1;
    fh.flags |= FLAG_PATCHES;
    let crop = [None, Some((1, 1, 7, 5)), Some((-1, 0, 8, 6)), Some((2, 2, 7, 5))][c.crop as usize];
    if let Some((x0, y0, w, h)) = crop {
        fh.have_crop = true;
        fh.x0 = x0;
        fh.y0 = y0;
        fh.width = w;
        fh.height = h;
    }
    // blending of the patched frame onto the canvas; the canvas source is the reference slot only when
    // that slot holds a full canvas (a cropped ReferenceOnly source is outside C05's alphabet)
    let src_slot = if c.ref_kind == 2 { c.ref_slot } else { other_slot };
    let fmode = [BLEND_REPLACE, BLEND_BLEND, BLEND_ADD][c.frame_blend as usize];
    let bi = BlendingInfo { mode: fmode, alpha_channel: 0, clamp: false, source: src_slot };
    fh.blending_info = bi.clone();
    fh.ec_blending_info = vec![bi.clone(), bi.clone()];
    if fh.is_full_frame(&img) && fmode != BLEND_REPLACE {
        // fine: all channels share the mode (no mixed-Replace zone)
    }
    let (fw, fhh) = fh.frame_size(&img);
    let (fw, fhh) = (fw as usize, fhh as usize);
    let (sx, sy, pw, ph) = [(0u32, 0u32, 2u32, 2u32), (1, 1, 3, 2), (0, 0, 5, 4), (4, 3, 1, 1), (2, 0, 2, 4)][c.src as usize];
    if (pw as usize) > fw || (ph as usize) > fhh {
        return None;
    }
    let (tx, ty) = match c.target {
        0 => (0i32, 0i32),
        1 => (1.min(fw as i32 - pw as i32), 1.min(fhh as i32 - ph as i32)),
        _ => (fw as i32 - pw as i32, fhh as i32 - ph as i32),
    };
    let mut positions = vec![(tx, ty)];
    match c.second_target {
        1 => positions.push((tx - 1, ty + 1)),
        2 => positions.push((tx + 1, ty)),
        // three and four targets: every position after the first is coded as a delta from the one before it
        3 => positions.extend([(tx + 1, ty), (tx + 1, ty + 1)]),
        4 => positions.extend([(tx - 1, ty + 1), (tx, ty + 1), (tx + 1, ty)]),
        _ => {}
    }
    for &(x, y) in &positions {
        if x < 0 || y < 0 || x as usize + pw as usize > fw || y as usize + ph as usize > fhh {
            return None;
        }
    }
    let pb = |mode: u32| PatchBlend { mode, alpha_channel: c.alpha_channel, clamp: c.clamp && mode >= 3 };
    let alpha_mode = match c.alpha_mode {
        0 => c.colour_mode,
        1 => PATCH_NONE,
        2 => PATCH_REPLACE,
        _ => PATCH_ADD,
    };
    let ec2_mode = match c.ec2_mode {
        0 => c.colour_mode,
        1 => PATCH_NONE,
        _ => PATCH_MUL,
    };
    let blending = vec![pb(c.colour_mode), pb(alpha_mode), pb(ec2_mode)];
    let mut refs = vec![PatchRef { ref_idx: c.ref_slot, x0: sx, y0: sy, w: pw, h: ph, targets: positions.iter().map(|&(x, y)| PatchTarget { x, y, blending: blending.clone() }).collect() }];
    if c.second_ref {
        let (x, y) = ((fw as i32 - 1).min(2), (fhh as i32 - 1).min(2));
        refs.push(PatchRef { ref_idx: c.ref_slot, x0: 0, y0: 0, w: 1, h: 1, targets: vec![PatchTarget { x, y, blending: vec![pb(PATCH_ADD), pb(PATCH_NONE), pb(PATCH_REPLACE)] }] });
    }
    let chans = samples(fw, fhh, 1);
    let planes = to_planes(&chans);
    let mut spec = ModularFrameSpec::new(fh.clone(), chans);
    spec.tree = Node::leaf(2);
    let opts = jxlw::entropy::CodeOpts { use_prefix: !c.ans, ..Default::default() };
    spec.lf_global_prefix = Some(write_patches(&refs, num_alpha, &opts));
    frames_bytes.push(write_modular_frame(&img, &spec).bytes);
    model_frames.push(FrameIn { header: fh, planes, patches: refs });
    let _ = (rw, rh);
    let expected: Vec<Vec<Vec<f64>>> = composite(&img, &model_frames).into_iter().map(|c| c.planes).collect();
    let bytes = write_codestream(&img, &Sel::default(), &frames_bytes);
    let bytes16 = (c.alpha_bits <= 12).then(|| {
        let mut img16 = img.clone();
        img16.modular_16bit_buffers = true;
        write_codestream(&img16, &Sel::default(), &frames_bytes)
    });
    Some(Built { bytes, bytes16, expected, n_ch })
}

pub fn run_patch(c: &PatchCfg) -> Option<Result<usize, (String, String)>> {
    let b = build_patch(c)?;
    Some(compare(&b, c.request_order, &format!("patch-mismatch:mode{}", c.colour_mode), (PW as usize, PH as usize)))
}

pub fn main(args: &crate::Args) {
    crate::util::install_panic_hook();
    if let Some(p) = &args.replay {
        replay(p);
    }
    let mut rep = Report::new("C05", &args.tier, "exploration");
    let quick = rep.is_quick();
    let max_frames = if quick { 3 } else { 4 };
    let bound = crate::explore::bound_or(if quick { 2 } else { 4 });
    let (mut tapes, _) = collect_tapes(bound, 0, |t| {
        let _ = cfg_from(t, max_frames);
    });
    let n_dev = tapes.len();
    // full product for two frames over (mode, source, crop) of frame 1 x (mode, save, crop) of frame 0 x premult
    {
        let base_len = {
            let mut t = Tape::default();
            let _ = cfg_from(&mut t, max_frames);
            t.answers.len()
        };
        // tape layout: premult, alpha_bits, second_ec, colour_bits, nframes, then 9 choices per frame
        let f0 = 5;
        let f1 = f0 + 9;
        for premult in 0..2u32 {
            for m0 in 0..5u32 {
                for s0 in 0..4u32 {
                    for c0 in [0u32, 1, 2, 7] {
                        for m1 in 0..5u32 {
                            for src1 in 0..4u32 {
                                for c1 in 0..9u32 {
                                    for d0 in 0..2u32 {
                                        let mut t = vec![0u32; base_len];
                                        t[0] = premult;
                                        t[f0 + 1] = d0;
                                        t[f0 + 2] = s0;
                                        t[f0 + 3] = m0;
                                        t[f0 + 6] = c0;
                                        t[f1 + 3] = m1;
                                        t[f1 + 4] = src1;
                                        t[f1 + 6] = c1;
                                        tapes.push(t);
                                    }
                                }
                            }
                        }
                    }
                }
            }
        }
    }
    let results = par_map(&tapes, n_threads(), |_, tp| {
        let mut t = Tape::from_answers(tp);
        let c = cfg_from(&mut t, max_frames);
        run(&c)
    });
    let mut skipped = 0;
    let mut kf_total = 0usize;
    for (tp, r) in tapes.iter().zip(&results) {
        rep.eval();
        match r {
            None => {
                skipped += 1;
                rep.outcome("excluded-uncertain");
            }
            Some(Ok(nk)) => {
                kf_total += nk;
                rep.outcome(&format!("ok-{nk}kf"));
                let b: Vec<u8> = tp.iter().flat_map(|x| x.to_le_bytes()).collect();
                rep.nontrivial(fnv(&b));
            }
            Some(Err((k, w))) => {
                rep.outcome("mismatch");
                let mut t = Tape::from_answers(tp);
                let c = cfg_from(&mut t, max_frames);
                rep.violation(k, &format!("{w} [{:?}]", c), &json!({"tape": tp, "max_frames": max_frames, "stream_hex": build(&c).map(|b| hex(&b.bytes)).unwrap_or_default()}));
            }
        }
    }
    // ---- patch family: a reference frame + a frame carrying a patch dictionary
    let (mut ptapes, _) = collect_tapes(bound, 0, |t| {
        let _ = patch_cfg_from(t);
    });
    let n_pdev = ptapes.len();
    {
        let base_len = {
            let mut t = Tape::default();
            let _ = patch_cfg_from(&mut t);
            t.answers.len()
        };
        // tape layout: 0 premult, 1 two_alpha, 2 alpha_bits, 3 ref_kind, 4 ref_slot, 5 src, 6 target, 7 second_target,
        // 8 colour_mode, 9 alpha_mode, 10 ec2_mode, 11 clamp, 12 alpha_channel, 13 second_ref, 14 crop, 15 frame_blend, ...
        for premult in 0..2u32 {
            for ref_kind in 0..3u32 {
                for cm in 0..8u32 {
                    for am in 0..4u32 {
                        for em in 0..3u32 {
                            for clamp in 0..2u32 {
                                for two_alpha in 0..2u32 {
                                    for ac in 0..(1 + two_alpha) {
                                        for fb in 0..3u32 {
                                            let mut t = vec![0u32; base_len];
                                            t[0] = premult;
                                            t[1] = two_alpha;
                                            t[3] = ref_kind;
                                            t[8] = cm;
                                            t[9] = am;
                                            t[10] = em;
                                            t[11] = clamp;
                                            t[12] = ac;
                                            t[15] = fb;
                                            ptapes.push(t);
                                        }
                                    }
                                }
                            }
                        }
                    }
                }
            }
        }
    }
    let presults = par_map(&ptapes, n_threads(), |_, tp| {
        let mut t = Tape::from_answers(tp);
        let c = patch_cfg_from(&mut t);
        run_patch(&c)
    });
    let mut pskipped = 0;
    for (tp, r) in ptapes.iter().zip(&presults) {
        rep.eval();
        match r {
            None => {
                pskipped += 1;
                rep.outcome("patch-not-applicable");
            }
            Some(Ok(nk)) => {
                kf_total += nk;
                rep.outcome("patch-ok");
                let b: Vec<u8> = std::iter::once(0xffu32).chain(tp.iter().copied()).flat_map(|x| x.to_le_bytes()).collect();
                rep.nontrivial(fnv(&b));
            }
            Some(Err((k, w))) => {
                rep.outcome("patch-mismatch");
                let mut t = Tape::from_answers(tp);
                let c = patch_cfg_from(&mut t);
                rep.violation(k, &format!("{w} [{:?}]", c), &json!({"family": "patch", "tape": tp, "stream_hex": build_patch(&c).map(|b| hex(&b.bytes)).unwrap_or_default()}));
            }
        }
    }
    // ---- VarDCT family: two YCbCr (or RGB) VarDCT frames, the second blended onto the slot the first was saved to.
    // Oracle without a colour model: each frame rendered on its own (single-frame streams of the same decoder) and the
    // blend rule applied to those two pictures.
    {
        let mut vjobs: Vec<(u32, u32, bool, (usize, usize), bool)> = vec![];
        // (Mul without extra channels is an oracle-uncertain header form, DESIGN.md section 8)
        for mode in [BLEND_ADD] {
            for slot in 0..4u32 {
                for ycbcr in [true, false] {
                    for size in [(16usize, 8usize), (40, 24)] {
                        for filters in [false, true] {
                            vjobs.push((mode, slot, ycbcr, size, filters));
                        }
                    }
                }
            }
        }
        let vres = par_map(&vjobs, n_threads(), |_, &(mode, slot, ycbcr, size, filters)| -> Result<(), (String, String, Vec<u8>)> {
            let mk = |seed: u64, pattern: u32| {
                let mut t = Tape::default();
                let mut c = crate::c17::cfg_from(&mut t);
                c.size = size;
                c.pattern = pattern;
                crate::c17::spec_of(&c, seed)
            };
            let (a, b) = (mk(31, 0), mk(32, 2));
            let o = |not_last: bool, save: u32, mode: u32, src: u32| jxlw::jpeg::StreamOpts { no_ycbcr: !ycbcr, filters, not_last, save_as_reference: save, blend_mode: mode, blend_source: src, ..Default::default() };
            let render = |bytes: &[u8]| -> Result<Vec<f32>, String> {
                let img = open(bytes, &DecOpts::default())?;
                let fb = crate::util::guard(|| img.render_frame(0).map(|r| r.image_all_channels())).map_err(|p| format!("panic {p}"))?.map_err(|e| format!("{e}"))?;
                Ok(fb.buf().to_vec())
            };
            let single_a = a.write_codestream_with(&o(false, 0, BLEND_REPLACE, 0));
            let single_b = b.write_codestream_with(&o(false, 0, BLEND_REPLACE, 0));
            let (_, hdr, fa) = a.stream_parts(&o(true, slot, BLEND_REPLACE, 0));
            let (_, _, fbytes) = b.stream_parts(&o(false, 0, mode, slot));
            let mut both = hdr;
            both.extend_from_slice(&fa);
            both.extend_from_slice(&fbytes);
            let key = format!("vardct-blend:mode{mode}");
            let (ra, rb, rc) = (render(&single_a).map_err(|e| (key.clone(), format!("frame A alone: {e}"), single_a.clone()))?, render(&single_b).map_err(|e| (key.clone(), format!("frame B alone: {e}"), single_b.clone()))?, render(&both).map_err(|e| (key.clone(), format!("two-frame stream: {e}"), both.clone()))?);
            if ra.len() != rc.len() || rb.len() != rc.len() {
                return Err((key, "buffer sizes differ".into(), both));
            }
            for i in 0..rc.len() {
                let (x, y) = (ra[i] as f64, rb[i] as f64);
                let want = if mode == BLEND_ADD { x + y } else { x * y };
                let tol = 2e-6 * (x.abs() + y.abs() + want.abs()) + 1e-6;
                if !((rc[i] as f64 - want).abs() <= tol) {
                    return Err((key, format!("sample {i}: composite {} but frame A alone gives {x}, frame B alone {y} (slot {slot}, ycbcr {ycbcr}, size {:?}, filters {filters})", rc[i], size), both));
                }
            }
            Ok(())
        });
        for (j, r) in vjobs.iter().zip(vres) {
            rep.eval();
            match r {
                Ok(()) => {
                    rep.outcome("vardct-blend-ok");
                    rep.nontrivial(fnv(format!("vardct-blend{:?}", j).as_bytes()));
                }
                Err((k, w, bytes)) => {
                    rep.outcome("vardct-blend-mismatch");
                    rep.violation(&k, &w, &json!({"family": "vardct-blend", "mode": j.0, "slot": j.1, "ycbcr": j.2, "stream_hex": hex(&bytes[..bytes.len().min(6000)])}));
                }
            }
        }
        rep.extra.insert("vardct_blend_cases".into(), json!(vjobs.len()));
    }
    rep.extra.insert("patch_deviation_cases".into(), json!(n_pdev));
    rep.extra.insert("patch_full_product_cases".into(), json!(ptapes.len() - n_pdev));
    rep.extra.insert("patch_not_applicable".into(), json!(pskipped));
    rep.rule = format!("canvas 5x4, lossless non-XYB Modular frames, RGB + alpha (+ a second extra channel); configuration = image dims (premultiplied/straight alpha, alpha depth 8/16 vs colour depth 8/12, second extra channel) + up to {max_frames} frames each with (type Regular/ReferenceOnly/SkipProgressive, duration 0/1, save slot 0-3, 5 blend modes, source slot 0-3, clamp, 9 crop kinds incl. every edge / wholly outside / larger than canvas, 3 extra-channel blend variants, 4 sample patterns incl. negative and above-range colour samples) + keyframe request order (forward, reverse, twice): ALL configurations within {bound} deviations of the default, plus the FULL PRODUCT for two frames over (mode0, save0, duration0, crop0) x (mode1, source1, crop1) x premultiplied; oracle: jxlw::model::composite (per-channel blend rules applied in bitstream order on reference slots) within 1e-5. PATCHES: on an 8x6 canvas a reference frame (ReferenceOnly 5x4, ReferenceOnly canvas-sized, or zero-duration Regular; slot 0-3) followed by a frame whose patch dictionary (written by jxlw::patches, prefix or ANS coded) copies 1-2 source rectangles (5 kinds incl. edge-touching and whole reference) to 1-4 targets (origin, inner, far corner; further targets by negative/positive deltas from the preceding one) with colour mode 0-7, alpha-channel mode (same/None/Replace/Add), second-extra-channel mode (same/None/Mul), clamp, one or two alpha channels (premultiplied / straight, 8/16 bit) and the alpha channel chosen, on a full or cropped frame (3 crops incl. partly outside the canvas) that is then blended (Replace/Blend/Add): ALL configurations within {bound} deviations plus the FULL PRODUCT premultiplied x reference kind x 8 colour modes x 4 alpha modes x 3 EC modes x clamp x alpha channels x frame blend; oracle jxlw::patches::apply_patches then composite. VARDCT: two YCbCr / RGB VarDCT frames (2 sizes, with and without Gabor + EPF), the second blended (Add) onto slot 0-3 holding the first: the composite must equal the blend rule applied to the two frames rendered on their own. Non-trivial = decodes and matches with >= 1 keyframe; distinct by tape.");
    for i in [n_dev / 2, tapes.len() - 1] {
        let mut t = Tape::from_answers(&tapes[i]);
        let c = cfg_from(&mut t, max_frames);
        rep.sample(json!({"tape": tapes[i], "config": format!("{:?}", c)}));
    }
    rep.extra.insert("deviation_cases".into(), json!(n_dev));
    rep.extra.insert("full_product_cases".into(), json!(tapes.len() - n_dev));
    rep.extra.insert("excluded_uncertain".into(), json!(skipped));
    rep.extra.insert("keyframes_compared".into(), json!(kf_total));
    rep.exhaustive = true;
    rep.assumptions = vec![
        "jxlw::model::composite is the reference compositor (written from the blend rules of the format)".into(),
        "excluded: patches lying partly outside the frame or the reference (the format forbids them), save_before_ct on normal frames, cropped ReferenceOnly frames, and the EC blend-source zone of DESIGN.md section 8".into(),
    ];
    rep.finish();
}

fn replay(path: &str) -> ! {
    let s = std::fs::read_to_string(path).unwrap_or_else(|e| crate::explore::machinery_failure(&format!("{path}: {e}")));
    let v: serde_json::Value = serde_json::from_str(&s).unwrap();
    let tape: Vec<u32> = v["tape"].as_array().unwrap().iter().map(|x| x.as_u64().unwrap() as u32).collect();
    if v["family"].as_str() == Some("patch") {
        let mut t = Tape::from_answers(&tape);
        let c = patch_cfg_from(&mut t);
        println!("{:?}", c);
        match run_patch(&c) {
            None | Some(Ok(_)) => {
                println!("replay: property holds on this case");
                std::process::exit(0)
            }
            Some(Err((k, w))) => {
                println!("VIOLATION property=C05 replay={path}\n  key={k} :: {w}");
                std::process::exit(1)
            }
        }
    }
    let mf = v["max_frames"].as_u64().unwrap_or(3) as u32;
    let mut t = Tape::from_answers(&tape);
    let c = cfg_from(&mut t, mf);
    println!("{:?}", c);
    match run(&c) {
        None | Some(Ok(_)) => {
            println!("replay: property holds on this case");
            std::process::exit(0)
        }
        Some(Err((k, w))) => {
            println!("VIOLATION property=C05 replay={path}\n  key={k} :: {w}");
            std::process::exit(1)
        }
    }
}
