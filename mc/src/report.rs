//! Evidence, known findings, violation reporting, exit protocol.

use serde_json::{json, Map, Value};
use std::collections::{BTreeMap, BTreeSet};
use std::time::Instant;

pub struct Report {
    pub id: String,
    pub tier: String,
    pub seed: u64,
    pub level: String,
    start: Instant,
    pub evaluations: u64,
    /// distinct non-trivial case signatures (hashes)
    nontrivial: BTreeSet<u64>,
    pub rule: String,
    pub samples: Vec<Value>,
    states: BTreeSet<u64>,
    transitions: BTreeSet<u64>,
    pub traces_validated: u64,
    outcomes: BTreeMap<String, u64>,
    pub exhaustive: bool,
    pub caps: Vec<String>,
    pub assumptions: Vec<String>,
    pub extra: Map<String, Value>,
    violations: Vec<(String, String, String)>, // key, what, replay path
    known_open: Vec<(String, String)>,         // key (substring match), what
    known_hit: BTreeMap<String, u64>,
    max_samples: usize,
}

pub fn fnv(bytes: &[u8]) -> u64 {
    let mut h: u64 = 0xcbf29ce484222325;
    for &b in bytes {
        h ^= b as u64;
        h = h.wrapping_mul(0x100000001b3);
    }
    h
}

pub fn hex(b: &[u8]) -> String {
    let mut s = String::with_capacity(b.len() * 2);
    for x in b {
        s.push_str(&format!("{x:02x}"));
    }
    s
}

pub fn unhex(s: &str) -> Vec<u8> {
    let s: Vec<u8> = s.bytes().filter(|c| c.is_ascii_hexdigit()).collect();
    s.chunks(2)
        .map(|p| u8::from_str_radix(std::str::from_utf8(p).unwrap(), 16).unwrap())
        .collect()
}

impl Report {
    pub fn new(id: &str, tier: &str, level: &str) -> Self {
        let seed = std::env::var("VERIF_SEED").ok().and_then(|s| s.parse().ok()).unwrap_or(0);
        let mut known_open = Vec::new();
        let path = format!("{}/known_findings.json", crate::verif_dir());
        if let Ok(s) = std::fs::read_to_string(&path) {
            let v: Value = serde_json::from_str(&s).unwrap_or_else(|e| {
                crate::explore::machinery_failure(&format!("known_findings.json unreadable: {e}"))
            });
            if let Some(a) = v.get("open").and_then(|x| x.as_array()) {
                for e in a {
                    if e.get("property").and_then(|x| x.as_str()) == Some(id) {
                        known_open.push((
                            e["key"].as_str().unwrap_or("").to_string(),
                            e["what"].as_str().unwrap_or("").to_string(),
                        ));
                    }
                }
            }
        }
        if std::env::var("VERIF_REPLAY_MODE").is_err() {
            let _ = std::fs::remove_dir_all(format!("{}/replays/{}", crate::verif_dir(), id));
        }
        Report {
            id: id.to_string(),
            tier: tier.to_string(),
            seed,
            level: level.to_string(),
            start: Instant::now(),
            evaluations: 0,
            nontrivial: BTreeSet::new(),
            rule: String::new(),
            samples: Vec::new(),
            states: BTreeSet::new(),
            transitions: BTreeSet::new(),
            traces_validated: 0,
            outcomes: BTreeMap::new(),
            exhaustive: false,
            caps: Vec::new(),
            assumptions: Vec::new(),
            extra: Map::new(),
            violations: Vec::new(),
            known_open,
            known_hit: BTreeMap::new(),
            max_samples: 6,
        }
    }

    pub fn is_quick(&self) -> bool {
        self.tier == "quick"
    }

    pub fn eval(&mut self) {
        self.evaluations += 1;
    }

    pub fn nontrivial(&mut self, sig: u64) {
        self.nontrivial.insert(sig);
    }

    pub fn state(&mut self, s: &str) -> u64 {
        let h = fnv(s.as_bytes());
        self.states.insert(h);
        h
    }

    pub fn transition(&mut self, from: u64, ev: &str, to: u64) {
        let mut b = from.to_le_bytes().to_vec();
        b.extend_from_slice(ev.as_bytes());
        b.extend_from_slice(&to.to_le_bytes());
        self.transitions.insert(fnv(&b));
    }

    pub fn outcome(&mut self, o: &str) {
        *self.outcomes.entry(o.to_string()).or_insert(0) += 1;
    }

    pub fn sample(&mut self, v: Value) {
        if self.samples.len() < self.max_samples {
            self.samples.push(v);
        }
    }

    pub fn n_states(&self) -> usize {
        self.states.len()
    }

    /// Records a violation.  `key` identifies the failing site / input class; if an open known
    /// finding's key is a substring of `key`, it is reported as KNOWN-FINDING instead.
    /// `replay` is the content of the replay artefact (JSON); written under /verif/replays/<id>/.
    pub fn violation(&mut self, key: &str, what: &str, replay: &Value) {
        for (k, _) in &self.known_open {
            if !k.is_empty() && key.contains(k.as_str()) {
                *self.known_hit.entry(k.clone()).or_insert(0) += 1;
                return;
            }
        }
        // at most 20 replay files per run, one per distinct key
        if self.violations.iter().any(|(k, _, _)| k == key) {
            return;
        }
        if self.violations.len() >= 20 {
            return;
        }
        let dir = format!("{}/replays/{}", crate::verif_dir(), self.id);
        let _ = std::fs::create_dir_all(&dir);
        let mut r = replay.clone();
        if let Some(o) = r.as_object_mut() {
            o.insert("property".into(), json!(self.id));
            o.insert("key".into(), json!(key));
            o.insert("what".into(), json!(what));
        }
        let text = serde_json::to_string_pretty(&r).unwrap();
        let path = format!("{}/{:016x}.json", dir, fnv(key.as_bytes()));
        let _ = std::fs::write(&path, text);
        self.violations.push((key.to_string(), what.to_string(), path));
    }

    pub fn n_violations(&self) -> usize {
        self.violations.len()
    }

    /// Writes evidence, prints verdict lines, and exits with the protocol's status.
    pub fn finish(mut self) -> ! {
        let wall = self.start.elapsed().as_secs_f64();
        let mut cov = Map::new();
        cov.insert("evaluations".into(), json!(self.evaluations));
        cov.insert("distinct_nontrivial".into(), json!(self.nontrivial.len()));
        cov.insert("rule".into(), json!(self.rule));
        if self.samples.is_empty() {
            self.samples.push(json!("(no sample recorded)"));
        }
        cov.insert("samples".into(), Value::Array(self.samples.clone()));
        if !self.states.is_empty() {
            cov.insert("states".into(), json!(self.states.len()));
            cov.insert("transitions".into(), json!(self.transitions.len().max(1)));
            cov.insert("traces_validated_against_impl".into(), json!(self.traces_validated));
        }
        cov.insert("exhaustive".into(), json!(self.exhaustive && self.caps.is_empty()));
        cov.insert("caps_hit".into(), json!(self.caps));
        cov.insert("distinct_outcomes".into(), json!(self.outcomes.len()));
        let mut oc = Map::new();
        for (k, v) in self.outcomes.iter().take(40) {
            oc.insert(k.clone(), json!(v));
        }
        cov.insert("outcomes".into(), Value::Object(oc));
        let known: Vec<Value> = self
            .known_hit
            .iter()
            .map(|(k, n)| json!({"key": k, "cases": n}))
            .collect();
        cov.insert("known_findings_hit".into(), Value::Array(known));
        for (k, v) in self.extra.iter() {
            cov.insert(k.clone(), v.clone());
        }
        let ev = json!({
            "property_id": self.id,
            "tier": self.tier,
            "seed": self.seed,
            "level": self.level,
            "coverage": Value::Object(cov),
            "assumptions": self.assumptions,
            "wall_s": wall,
            "violations": self.violations.len(),
        });
        let dir = format!("{}/evidence", crate::verif_dir());
        let _ = std::fs::create_dir_all(&dir);
        let path = format!("{}/{}.json", dir, self.id);
        if let Err(e) = std::fs::write(&path, serde_json::to_string_pretty(&ev).unwrap()) {
            crate::explore::machinery_failure(&format!("cannot write evidence {path}: {e}"));
        }
        println!(
            "{} tier={} evaluations={} distinct_nontrivial={} states={} transitions={} outcomes={} exhaustive={} wall={:.1}s",
            self.id,
            self.tier,
            self.evaluations,
            self.nontrivial.len(),
            self.states.len(),
            self.transitions.len(),
            self.outcomes.len(),
            self.exhaustive && self.caps.is_empty(),
            wall
        );
        for c in &self.caps {
            println!("CAP: {c}");
        }
        for (k, what) in &self.known_open {
            if let Some(n) = self.known_hit.get(k) {
                println!("KNOWN-FINDING: property={} {} [{} case(s), key={}]", self.id, what, n, k);
            }
        }
        if self.violations.is_empty() {
            std::process::exit(0);
        }
        for (k, what, path) in &self.violations {
            println!("VIOLATION property={} replay={}", self.id, path);
            println!("  key={k} :: {what}");
        }
        std::process::exit(1);
    }
}
