//! C08 — a failed render never wedges or corrupts the image: for every tracked allocation index k of a
//! decode + render, fail it (only k / k and every later one) and run every call history up to length 3;
//! every call must return, every later Ok must equal the never-failed render.  Histories run on a
//! thread controlled by the E3 scheduler, so a wedge shows up as an immediate deadlock.

use crate::c20::render_hash;
use crate::corpus::corpus;
use crate::explore::{n_threads, par_map, Tape};
use crate::report::{fnv, hex, Report};
use crate::sched::{install_router, Sched};
use jxl_oxide::{AllocTracker, CropInfo, JxlImage, JxlThreadPool};
use serde_json::json;
use std::sync::{Arc, Mutex};

#[derive(Clone, Copy, Debug, PartialEq)]
pub enum Op {
    Render(usize),
    Lift,
    RegionFull,
    RegionSmall,
    Loading,
}

#[derive(Clone, Debug)]
pub struct Job {
    pub item: usize,
    pub k: usize,
    pub sticky: bool,
    pub history: Vec<Op>,
}

pub struct JobResult {
    pub read_failed: bool,
    pub steps: Vec<String>,
    pub viol: Option<(String, String)>,
}

pub fn run_job(bytes: &[u8], job: &Job, reference: &[u64], dims: (u32, u32)) -> JobResult {
    let tracker = AllocTracker::with_limit(1 << 30);
    tracker.verif_fail_at(Some(job.k), job.sticky);
    let img = crate::util::guard(|| JxlImage::builder().pool(JxlThreadPool::none()).alloc_tracker(tracker.clone()).read(bytes));
    let mut img = match img {
        Err(p) => return JobResult { read_failed: true, steps: vec![], viol: Some((format!("panic@{}", crate::util::panic_site(&p)), format!("read() panicked with allocation {} failing: {p}", job.k))) },
        Ok(Err(_)) => return JobResult { read_failed: true, steps: vec![], viol: None },
        Ok(Ok(i)) => i,
    };
    let sched = Sched::new(Tape::default());
    let out: Arc<Mutex<(Vec<String>, Option<(String, String)>)>> = Arc::new(Mutex::new((vec![], None)));
    let out2 = Arc::clone(&out);
    let hist = job.history.clone();
    let reference = reference.to_vec();
    let t2 = tracker.clone();
    let h = sched.spawn("caller", move || {
        let mut lifted = false;
        let mut small_region = false;
        for (si, op) in hist.iter().enumerate() {
            let step = match op {
                Op::Lift => {
                    t2.verif_fail_at(None, false);
                    lifted = true;
                    "lift".to_string()
                }
                Op::RegionFull => {
                    img.set_image_region(CropInfo { left: 0, top: 0, width: dims.0, height: dims.1 });
                    small_region = false;
                    "region-full".into()
                }
                Op::RegionSmall => {
                    img.set_image_region(CropInfo { left: 0, top: 0, width: 1.max(dims.0 / 2), height: 1.max(dims.1 / 2) });
                    small_region = true;
                    "region-small".into()
                }
                Op::Loading => match img.render_loading_frame() {
                    Ok(_) => "loading:ok".into(),
                    Err(e) => format!("loading:err({})", short(&format!("{e}"))),
                },
                Op::Render(k) => match render_hash(&img, *k) {
                    Ok(h) => {
                        if !small_region && h != reference[*k] {
                            let mut o = out2.lock().unwrap();
                            if o.1.is_none() {
                                o.1 = Some(("corrupt-after-failure".into(), format!("step {si}: render_frame({k}) succeeded{} but the samples differ from a decode that never failed", if lifted { " after the fault was lifted" } else { "" })));
                            }
                        }
                        format!("render{k}:ok")
                    }
                    Err(e) => format!("render{k}:err({})", short(&e)),
                },
            };
            out2.lock().unwrap().0.push(step);
        }
    });
    let outcome = sched.run(vec![h]);
    let (steps, mut viol) = {
        let o = out.lock().unwrap();
        (o.0.clone(), o.1.clone())
    };
    if let Some(d) = outcome.deadlock {
        viol = Some(("wedge".into(), format!("call #{} of the history never returns (caller blocked with nobody rendering): {d}", steps.len())));
    } else if let Some(v) = outcome.protocol_violations.first() {
        viol = Some((format!("panic:{}", short(v)), v.clone()));
    }
    JobResult { read_failed: false, steps, viol }
}

fn short(e: &str) -> String {
    e.chars().take(28).collect()
}

pub fn histories(nk: usize, quick: bool) -> Vec<Vec<Op>> {
    let mut alpha: Vec<Op> = (0..nk.min(3)).map(Op::Render).collect();
    alpha.extend([Op::Lift, Op::RegionFull, Op::RegionSmall, Op::Loading]);
    let mut out: Vec<Vec<Op>> = vec![];
    for a in &alpha {
        out.push(vec![*a]);
        for b in &alpha {
            out.push(vec![*a, *b]);
            for c in &alpha {
                if quick && !(matches!(c, Op::Render(_)) && (matches!(a, Op::Render(_)) || matches!(b, Op::Render(_)))) {
                    continue;
                }
                out.push(vec![*a, *b, *c]);
            }
        }
    }
    // histories without any render are pointless for this property
    out.retain(|h| h.iter().any(|o| matches!(o, Op::Render(_) | Op::Loading)));
    out
}

pub fn main(args: &crate::Args) {
    crate::util::install_panic_hook();
    install_router();
    if let Some(p) = &args.replay {
        replay(p);
    }
    let mut rep = Report::new("C08", &args.tier, "fault_enumeration");
    let quick = rep.is_quick();
    let all = corpus();
    let names: Vec<&str> = if quick {
        vec!["gray-5x3", "ref-then-blend-alpha16", "anim-12x10-3kf", "layers-chain-two-kf", "rgb-130x130-groups-localtree", "rgb-300x200-groups-unequal-localtrees", "rgba-24x20-patches", "vardct-420-40x24", "vardct-lfframe-40x24"]
    } else {
        vec!["gray-5x3", "rgba-9x7-ans-rct", "ref-then-blend-alpha16", "anim-12x10-3kf", "anim-12x10-muladd-mul", "layers-chain-two-kf", "anim-4x4-six-frames", "rgb-130x130-groups-localtree", "rgb-300x200-groups-unequal-localtrees", "gray-70x40-squeeze-2pass", "rgb-depth-alpha-7x4-orient6", "rgba-24x20-patches", "vardct-420-40x24", "vardct-ycbcr-40x24-noise", "vardct-ycbcr-48x40-gab-epf", "vardct-lfframe-40x24", "vardct-264x40-2groups-gab-epf"]
    };
    let items: Vec<&crate::corpus::Item> = names.iter().map(|n| all.iter().find(|i| i.name == *n).expect("corpus item")).collect();
    // per item: clean run -> N attempts, reference hashes
    struct Prep {
        n: usize,
        n_read: usize,
        reference: Vec<u64>,
        dims: (u32, u32),
    }
    let preps: Vec<Prep> = items
        .iter()
        .map(|it| {
            let tracker = AllocTracker::with_limit(1 << 30);
            let img = JxlImage::builder().pool(JxlThreadPool::none()).alloc_tracker(tracker.clone()).read(&it.bytes[..]).expect("corpus decodes");
            let n_read = tracker.verif_attempts();
            let reference: Vec<u64> = (0..img.num_loaded_keyframes()).map(|k| render_hash(&img, k).expect("corpus renders")).collect();
            Prep { n: tracker.verif_attempts(), n_read, reference, dims: (img.width(), img.height()) }
        })
        .collect();
    let mut jobs: Vec<Job> = vec![];
    for (ii, p) in preps.iter().enumerate() {
        let hs = histories(p.reference.len(), quick);
        for k in 0..p.n {
            for sticky in [false, true] {
                if k < p.n_read {
                    // the fault hits during read(): one job is enough (no image to call)
                    jobs.push(Job { item: ii, k, sticky, history: vec![Op::Render(0)] });
                    continue;
                }
                for h in &hs {
                    jobs.push(Job { item: ii, k, sticky, history: h.clone() });
                }
            }
        }
    }
    let results = par_map(&jobs, n_threads(), |_, j| run_job(&items[j.item].bytes, j, &preps[j.item].reference, preps[j.item].dims));
    let mut read_failed = 0u64;
    for (j, r) in jobs.iter().zip(&results) {
        rep.eval();
        if r.read_failed {
            read_failed += 1;
        }
        let oc: String = r.steps.iter().map(|s| s.split('(').next().unwrap().to_string()).collect::<Vec<_>>().join(">");
        rep.outcome(if r.read_failed { "read-err" } else { &oc });
        if !r.read_failed && r.steps.iter().any(|s| s.contains(":err")) {
            rep.nontrivial(fnv(format!("{}{}{}{:?}", j.item, j.k, j.sticky, j.history).as_bytes()));
        }
        if let Some((k, w)) = &r.viol {
            rep.violation(
                &format!("{k}:{}", items[j.item].name),
                &format!("{w} [{} fail alloc #{}{} history {:?} -> {:?}]", items[j.item].name, j.k, if j.sticky { "+" } else { "" }, j.history, r.steps),
                &json!({"item": items[j.item].name, "stream_hex": hex(&items[j.item].bytes), "k": j.k, "sticky": j.sticky, "history": j.history.iter().map(|o| format!("{:?}", o)).collect::<Vec<_>>()}),
            );
        }
    }
    rep.rule = format!("for each of {} streams (reference chains, all blend modes, layered keyframes, multi-group with local trees{}): EVERY tracked allocation index k of a clean read + render of all keyframes, failed once (k only) or from k on (k and every later attempt), x EVERY call history of length <= 2 over {{render_frame(kf) for each keyframe, lift the fault, set_image_region(full), set_image_region(quarter), render_loading_frame}} and {} of length 3; oracle: every call returns (a blocked caller is reported by the scheduler as deadlock), any full-region render that succeeds equals the never-failed render bit for bit. Non-trivial = at least one call of the history returned an error; distinct by (stream, k, variant, history).", items.len(), if quick { "" } else { ", squeeze+passes, orientation" }, if quick { "those ending in a render after an earlier render" } else { "all" });
    rep.sample(json!({"item": items[1].name, "k": preps[1].n_read + 1, "sticky": false, "history": ["Render(0)", "Render(0)"]}));
    rep.sample(json!({"item": items[2].name, "k": preps[2].n - 1, "sticky": true, "history": ["Render(1)", "Lift", "Render(1)"]}));
    rep.extra.insert("allocation_points".into(), json!(items.iter().zip(&preps).map(|(i, p)| (i.name.clone(), json!({"read": p.n_read, "total": p.n}))).collect::<std::collections::BTreeMap<_, _>>()));
    rep.extra.insert("faults_during_read".into(), json!(read_failed));
    rep.exhaustive = true;
    rep.assumptions = vec![
        "fault model: AllocTracker::alloc returns OutOfMemory at the chosen attempt index (cfg-gated hook); untracked allocations (plain Vec) are not failed".into(),
        "pool = none; single caller (concurrent callers with faults are C20's scenarios)".into(),
    ];
    rep.finish();
}

fn replay(path: &str) -> ! {
    let s = std::fs::read_to_string(path).unwrap_or_else(|e| crate::explore::machinery_failure(&format!("{path}: {e}")));
    let v: serde_json::Value = serde_json::from_str(&s).unwrap();
    let bytes = crate::report::unhex(v["stream_hex"].as_str().unwrap());
    let history: Vec<Op> = v["history"]
        .as_array()
        .unwrap()
        .iter()
        .map(|x| {
            let s = x.as_str().unwrap();
            if let Some(r) = s.strip_prefix("Render(") {
                Op::Render(r.trim_end_matches(')').parse().unwrap())
            } else {
                match s {
                    "Lift" => Op::Lift,
                    "RegionFull" => Op::RegionFull,
                    "RegionSmall" => Op::RegionSmall,
                    _ => Op::Loading,
                }
            }
        })
        .collect();
    let job = Job { item: 0, k: v["k"].as_u64().unwrap() as usize, sticky: v["sticky"].as_bool().unwrap(), history };
    let img = JxlImage::builder().pool(JxlThreadPool::none()).read(&bytes[..]).unwrap();
    let reference: Vec<u64> = (0..img.num_loaded_keyframes()).map(|k| render_hash(&img, k).unwrap()).collect();
    let dims = (img.width(), img.height());
    drop(img);
    let r = run_job(&bytes, &job, &reference, dims);
    println!("steps: {:?}", r.steps);
    match r.viol {
        None => {
            println!("replay: property holds on this case");
            std::process::exit(0)
        }
        Some((k, w)) => {
            println!("VIOLATION property=C08 replay={path}\n  key={k} :: {w}");
            std::process::exit(1)
        }
    }
}
