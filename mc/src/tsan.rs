//! Race-detector side pass shared by the checks whose deciding exploration serialises threads (C07, C20): the same
//! harness bodies run free-running in a ThreadSanitizer build, one fresh process per run (so lazily built process-global
//! tables are cold).  A data race with a frame in a /repo source file is a violation; this validates the assumption
//! that scheduling points at synchronisation / pool operations are sufficient.  Sampling over schedules, labelled so.

use crate::explore::{n_threads, par_map};
use crate::report::Report;
use serde_json::{json, Value};

/// Splits a ThreadSanitizer log into reports; a report counts when it is a data race and, in at least one of the two
/// access stacks, the innermost frames up to the first one in a source file of /repo contain no frame of the pool
/// implementation (races inside rayon / crossbeam - their queues, their thread start-up - are not the subject, and
/// ThreadSanitizer does not model their fences).
pub fn reports(stderr: &str) -> (Vec<String>, usize) {
    let mut counted = vec![];
    let mut other = 0;
    for block in stderr.split("WARNING: ThreadSanitizer: ").skip(1) {
        let block = block.split("==================").next().unwrap_or(block);
        if !block.starts_with("data race") {
            other += 1;
            continue;
        }
        // the two access stacks: paragraphs that start with "Write of size" / "Previous read of size" / "Atomic ..."
        let mut sites: Vec<String> = vec![];
        for para in block.split("\n\n") {
            let mut lines = para.lines().filter(|l| !l.trim().is_empty());
            let Some(head) = lines.next() else { continue };
            if !head.contains(" of size ") {
                continue;
            }
            let frames: Vec<&str> = lines.filter(|l| l.trim_start().starts_with('#')).collect();
            let Some(k) = frames.iter().position(|l| l.contains("/repo/crates/")) else { continue };
            // an access made inside the pool implementation (its queues, its thread start-up) on behalf of a decoder
            // function further out is not an access of the decoder
            if frames[..k].iter().any(|l| l.contains("rayon") || l.contains("crossbeam")) {
                continue;
            }
            sites.push(frames[k].trim().to_string());
        }
        if sites.is_empty() {
            other += 1;
        } else {
            counted.push(sites.join(" | "));
        }
    }
    (counted, other)
}

/// Runs the ThreadSanitizer build of this checker with `args`; returns (races in decoder code, other reports, finished ok).
pub fn run_child(args: &[String]) -> (Vec<String>, usize, bool, bool) {
    use std::sync::atomic::{AtomicUsize, Ordering};
    static SEQ: AtomicUsize = AtomicUsize::new(0);
    let exe = std::env::var("VERIF_TSAN_EXE").unwrap_or_else(|_| crate::explore::machinery_failure("VERIF_TSAN_EXE (the ThreadSanitizer build of this checker) is not set; run through ./check"));
    let sym = std::env::var("VERIF_SYMBOLIZER").unwrap_or_default();
    let dir = format!("{}/target/tsan-logs", crate::verif_dir());
    let _ = std::fs::create_dir_all(&dir);
    let log = format!("{dir}/{}-{}.log", std::process::id(), SEQ.fetch_add(1, Ordering::SeqCst));
    let errf = std::fs::File::create(&log).unwrap_or_else(|e| crate::explore::machinery_failure(&format!("{log}: {e}")));
    let mut child = std::process::Command::new(exe)
        .args(args)
        .env("TSAN_OPTIONS", format!("halt_on_error=0 exitcode=0 report_thread_leaks=0 report_signal_unsafe=0 second_deadlock_stack=0 history_size=4 external_symbolizer_path={sym}"))
        .stdin(std::process::Stdio::null())
        .stdout(std::process::Stdio::null())
        .stderr(errf)
        .spawn()
        .unwrap_or_else(|e| crate::explore::machinery_failure(&format!("cannot start the ThreadSanitizer child: {e}")));
    let t0 = std::time::Instant::now();
    let mut hung = false;
    let limit = std::env::var("VERIF_TSAN_CHILD_S").ok().and_then(|v| v.parse().ok()).unwrap_or(180u64);
    let ok = loop {
        match child.try_wait() {
            Ok(Some(st)) => break st.success(),
            Ok(None) if t0.elapsed().as_secs() > limit => {
                let _ = child.kill();
                let _ = child.wait();
                eprintln!("ThreadSanitizer child {:?} did not finish in {limit} s", args);
                hung = true;
                break false;
            }
            Ok(None) => std::thread::sleep(std::time::Duration::from_millis(20)),
            Err(e) => crate::explore::machinery_failure(&format!("waiting for the ThreadSanitizer child: {e}")),
        }
    };
    let text = std::fs::read_to_string(&log).unwrap_or_default();
    let _ = std::fs::remove_file(&log);
    let (mut c, other) = reports(&text);
    // structural findings the child reports about itself (deterministic, unlike the races)
    for l in text.lines() {
        if let Some(n) = l.strip_prefix("VERIF-NOTE: ") {
            c.push(format!("NOTE {n}"));
        }
    }
    (c, other, ok, hung)
}

/// Runs every job (label, child arguments); returns the summary for the evidence file.
pub fn pass(jobs: &[(String, Vec<String>)], what: &str) -> Value {
    let t0 = std::time::Instant::now();
    // children are themselves multi-threaded: a few at a time
    let res = par_map(jobs, (n_threads() / 4).max(1), |_, (_, args)| run_child(args));
    let mut viol: std::collections::BTreeMap<String, (String, Vec<String>)> = Default::default();
    let (mut other, mut failed) = (0usize, 0usize);
    let mut hangs: Vec<Value> = vec![];
    for ((label, args), (c, o, ok, hung)) in jobs.iter().zip(&res) {
        other += o;
        if *hung {
            // a render that normally takes milliseconds did not return in 180 s: callers blocked for good
            if hangs.len() < 5 {
                hangs.push(json!({"label": label, "child_args": args}));
            }
        } else if !ok {
            failed += 1;
        }
        for site in c {
            viol.entry(site.clone()).or_insert((label.clone(), args.clone()));
        }
    }
    if failed > 0 {
        crate::explore::machinery_failure(&format!("{failed} ThreadSanitizer children did not finish normally"));
    }
    let vjson: Vec<_> = viol.iter().map(|(site, (label, args))| json!({"label": label, "child_args": args, "race": site})).collect();
    json!({"monitor": format!("ThreadSanitizer, free-running, one fresh process per run: {what}"), "runs": jobs.len(), "runs_that_never_returned": hangs, "data_races_in_decoder_code": viol.len(), "reports_not_counted_pool_internals_or_non_race": other, "violations": vjson, "wall_s": t0.elapsed().as_secs_f64()})
}

/// Turns the races of a pass summary into violations of the report and files the summary in the evidence.
pub fn raise(rep: &mut Report, v: Value) {
    for x in v["violations"].as_array().cloned().unwrap_or_default() {
        let (label, race) = (x["label"].as_str().unwrap_or(""), x["race"].as_str().unwrap_or(""));
        if let Some(n) = race.strip_prefix("NOTE ") {
            rep.violation(&format!("{}:{}", n.split(' ').next().unwrap_or("note"), label.split(" with ").next().unwrap_or(label)), &format!("free-running run {label}: {n}"), &json!({"family": "tsan", "label": label, "child_args": x["child_args"], "race": race}));
            continue;
        }
        // keyed by the racing source lines (without the frame numbers), one violation per distinct race
        let site: String = race.split(" | ").map(|l| l.split(" /repo/").last().unwrap_or(l).split(' ').next().unwrap_or("")).collect::<Vec<_>>().join("+");
        rep.violation(&format!("data-race:{site}"), &format!("ThreadSanitizer: data race in decoder code in the free-running run {label}: {race}"), &json!({"family": "tsan", "label": label, "child_args": x["child_args"], "race": race}));
    }
    for x in v["runs_that_never_returned"].as_array().cloned().unwrap_or_default() {
        let label = x["label"].as_str().unwrap_or("");
        rep.violation(&format!("free-running-hang:{}", label.split(" with ").next().unwrap_or(label)), &format!("the free-running run {label} did not return within 180 s (renders of this size take milliseconds): its threads wait for each other for good"), &json!({"family": "tsan-hang", "label": label, "child_args": x["child_args"]}));
    }
    rep.evaluations += v["runs"].as_u64().unwrap_or(0);
    rep.extra.insert("race_detector_pass".into(), v);
}

/// Replays a data-race finding (up to 5 runs: the detector needs both accesses to happen on different threads).
pub fn replay(id: &str, path: &str, v: &Value) -> ! {
    let args: Vec<String> = v["child_args"].as_array().map(|a| a.iter().map(|x| x.as_str().unwrap_or("").to_string()).collect()).unwrap_or_default();
    if v["family"] == "tsan-hang" {
        // a hang shows in a few percent of the runs at most: many short runs
        std::env::set_var("VERIF_TSAN_CHILD_S", "20");
        for i in 0..300 {
            let (_, _, _, hung) = run_child(&args);
            if hung {
                println!("VIOLATION property={id} replay={path}\n  key=free-running-hang :: run {i} did not return within 20 s");
                std::process::exit(1)
            }
        }
        println!("replay: 300 runs all returned");
        std::process::exit(0)
    }
    let mut seen = vec![];
    for _ in 0..5 {
        let (c, _, _, _) = run_child(&args);
        if !c.is_empty() {
            seen = c;
            break;
        }
    }
    if seen.is_empty() {
        println!("replay: no data race in decoder code reported in 5 runs");
        std::process::exit(0)
    }
    println!("VIOLATION property={id} replay={path}\n  key=data-race :: {}", seen[0]);
    std::process::exit(1)
}
