//! LSB-first bit writer and the basic field encodings of ISO/IEC 18181-1 (U32, U64, F16, Bool, Enum).

#[derive(Clone, Default, Debug)]
pub struct BitWriter {
    pub bytes: Vec<u8>,
    nbits: usize,
}

#[derive(Clone, Copy, Debug, PartialEq, Eq)]
pub enum D {
    /// constant value, no payload bits
    Val(u32),
    /// n payload bits
    Bits(u32),
    /// n payload bits plus offset
    BitsOffset(u32, u32),
}

impl D {
    pub fn can(&self, v: u32) -> bool {
        match *self {
            D::Val(c) => v == c,
            D::Bits(n) => n == 32 || (v as u64) < (1u64 << n),
            D::BitsOffset(n, off) => v >= off && ((v - off) as u64) < (1u64 << n),
        }
    }
}

impl BitWriter {
    pub fn new() -> Self {
        Self::default()
    }

    pub fn bit_len(&self) -> usize {
        self.nbits
    }

    pub fn write(&mut self, n: u32, v: u64) {
        debug_assert!(n <= 64);
        debug_assert!(n == 64 || v < (1u64 << n), "value {v} does not fit in {n} bits");
        for i in 0..n {
            let bit = ((v >> i) & 1) as u8;
            let pos = self.nbits;
            if pos / 8 >= self.bytes.len() {
                self.bytes.push(0);
            }
            self.bytes[pos / 8] |= bit << (pos % 8);
            self.nbits += 1;
        }
    }

    pub fn bool(&mut self, b: bool) {
        self.write(1, b as u64);
    }

    /// U32 with explicit selector choice.
    pub fn u32_sel(&mut self, d: [D; 4], sel: usize, v: u32) {
        assert!(d[sel].can(v), "U32 selector {sel} {:?} cannot hold {v}", d[sel]);
        self.write(2, sel as u64);
        match d[sel] {
            D::Val(_) => {}
            D::Bits(n) => self.write(n, v as u64),
            D::BitsOffset(n, off) => self.write(n, (v - off) as u64),
        }
    }

    /// U32 with the first selector that can hold the value.
    pub fn u32(&mut self, d: [D; 4], v: u32) {
        let sel = (0..4).find(|&i| d[i].can(v)).unwrap_or_else(|| panic!("U32 {:?} cannot hold {v}", d));
        self.u32_sel(d, sel, v)
    }

    /// All selectors able to hold v.
    pub fn u32_selectors(d: [D; 4], v: u32) -> Vec<usize> {
        (0..4).filter(|&i| d[i].can(v)).collect()
    }

    /// U64 with explicit form: 0 => value 0; 1 => 1 + 4 bits; 2 => 17 + 8 bits; 3 => varint form.
    pub fn u64_sel(&mut self, sel: usize, v: u64) {
        self.write(2, sel as u64);
        match sel {
            0 => assert_eq!(v, 0),
            1 => {
                assert!((1..=16).contains(&v));
                self.write(4, v - 1)
            }
            2 => {
                assert!((17..=272).contains(&v));
                self.write(8, v - 17)
            }
            3 => {
                self.write(12, v & 0xfff);
                let mut rest = v >> 12;
                let mut shift = 12;
                loop {
                    if rest == 0 {
                        self.write(1, 0);
                        break;
                    }
                    self.write(1, 1);
                    if shift == 60 {
                        self.write(4, rest & 0xf);
                        break;
                    }
                    self.write(8, rest & 0xff);
                    rest >>= 8;
                    shift += 8;
                }
            }
            _ => unreachable!(),
        }
    }

    pub fn u64(&mut self, v: u64) {
        let sel = if v == 0 {
            0
        } else if v <= 16 {
            1
        } else if v <= 272 {
            2
        } else {
            3
        };
        self.u64_sel(sel, v)
    }

    pub fn f16_bits(&mut self, bits: u16) {
        self.write(16, bits as u64);
    }

    /// Enum: U32(Val(0), Val(1), BitsOffset(4, 2), BitsOffset(6, 18))
    pub fn enum_(&mut self, v: u32) {
        self.u32([D::Val(0), D::Val(1), D::BitsOffset(4, 2), D::BitsOffset(6, 18)], v)
    }

    pub fn zero_pad_to_byte(&mut self) {
        while self.nbits % 8 != 0 {
            self.write(1, 0);
        }
    }

    pub fn append_bytes(&mut self, b: &[u8]) {
        assert!(self.nbits % 8 == 0);
        self.bytes.extend_from_slice(b);
        self.nbits += 8 * b.len();
    }

    /// Appends all bits of another writer.
    pub fn append(&mut self, other: &BitWriter) {
        let mut left = other.nbits;
        let mut i = 0;
        while left > 0 {
            let n = left.min(8);
            let b = other.bytes[i] as u64 & ((1u64 << n) - 1);
            self.write(n as u32, b);
            left -= n;
            i += 1;
        }
    }

    pub fn finish(mut self) -> Vec<u8> {
        self.zero_pad_to_byte();
        self.bytes
    }
}

/// f32 -> f16 bit pattern (round to nearest even); for headers that store F16.
pub fn f32_to_f16_bits(v: f32) -> u16 {
    let b = v.to_bits();
    let sign = ((b >> 16) & 0x8000) as u16;
    let exp = ((b >> 23) & 0xff) as i32;
    let mant = b & 0x7fffff;
    if exp == 0xff {
        return sign | 0x7c00 | if mant != 0 { 0x200 } else { 0 };
    }
    let e = exp - 127 + 15;
    if e >= 31 {
        return sign | 0x7c00;
    }
    if e <= 0 {
        if e < -10 {
            return sign;
        }
        let m = mant | 0x800000;
        let shift = (14 - e) as u32;
        let mut r = m >> shift;
        let rem = m & ((1 << shift) - 1);
        let half = 1 << (shift - 1);
        if rem > half || (rem == half && (r & 1) == 1) {
            r += 1;
        }
        return sign | r as u16;
    }
    let mut r = ((e as u32) << 10) | (mant >> 13);
    let rem = mant & 0x1fff;
    if rem > 0x1000 || (rem == 0x1000 && (r & 1) == 1) {
        r += 1;
    }
    sign | r as u16
}

pub fn f16_bits_to_f32(h: u16) -> f32 {
    let sign = if h & 0x8000 != 0 { -1.0f32 } else { 1.0 };
    let e = ((h >> 10) & 0x1f) as i32;
    let m = (h & 0x3ff) as f32;
    if e == 0 {
        sign * m * 2f32.powi(-24)
    } else if e == 31 {
        if m == 0.0 {
            sign * f32::INFINITY
        } else {
            f32::NAN
        }
    } else {
        sign * (1.0 + m / 1024.0) * 2f32.powi(e - 15)
    }
}
