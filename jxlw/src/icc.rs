//! ICC profile compression (ISO/IEC 18181-1 Annex on ICC): plan-driven encoder.  Given a profile and a
//! plan (how the tag list and the remaining bytes are expressed as commands) it emits the byte stream
//! (output_size, commands_size, commands, data) whose decoding must reproduce the profile exactly.

use crate::bits::BitWriter;
use crate::entropy::{encode_stream, CodeOpts, Sym};

pub fn varint(out: &mut Vec<u8>, mut v: u64) {
    loop {
        let b = (v & 0x7f) as u8;
        v >>= 7;
        if v == 0 {
            out.push(b);
            return;
        }
        out.push(b | 0x80);
    }
}

/// Predicted header byte at `pos` given the bytes produced so far.
pub fn predict_header(out: &[u8], output_size: u32, pos: usize) -> u8 {
    let mut h = [0u8; 128];
    h[0..4].copy_from_slice(&output_size.to_be_bytes());
    h[8] = 4;
    h[12..16].copy_from_slice(b"mntr");
    h[16..20].copy_from_slice(b"RGB ");
    h[20..24].copy_from_slice(b"XYZ ");
    h[36..40].copy_from_slice(b"acsp");
    h[70] = 246;
    h[71] = 214;
    h[73] = 1;
    h[78] = 211;
    h[79] = 45;
    if pos >= 8 && out.len() >= 8 {
        h[80..84].copy_from_slice(&out[4..8]);
    }
    if pos >= 41 && out.len() >= 41 {
        if out[40] == b'A' {
            h[41] = b'P';
            h[42] = b'P';
            h[43] = b'L';
        }
        if out[40] == b'M' {
            h[41] = b'S';
            h[42] = b'F';
            h[43] = b'T';
        }
    }
    if pos >= 42 && out.len() >= 42 {
        if out[40] == b'S' && out[41] == b'G' {
            h[42] = b'I';
            h[43] = b' ';
        }
        if out[40] == b'S' && out[41] == b'U' {
            h[42] = b'N';
            h[43] = b'W';
        }
    }
    h[pos]
}

pub const TAG_STRINGS: [&[u8; 4]; 17] = [b"cprt", b"wtpt", b"bkpt", b"rXYZ", b"gXYZ", b"bXYZ", b"kXYZ", b"rTRC", b"gTRC", b"bTRC", b"kTRC", b"chad", b"desc", b"chrm", b"dmnd", b"dmdd", b"lumi"];
pub const TYPE_STRINGS: [&[u8; 4]; 8] = [b"XYZ ", b"desc", b"text", b"mluc", b"para", b"curv", b"sf32", b"gbd "];

#[derive(Clone, Debug, PartialEq)]
pub enum TagMode {
    /// varint 0: no tag list; the tag table bytes are ordinary content
    None,
    /// every tag written with code 1 (explicit keyword) and explicit offset and size
    Explicit,
    /// use keyword codes, implicit offsets/sizes and the TRC / XYZ triples wherever they reproduce the table
    Shortcuts,
}

#[derive(Clone, Debug, PartialEq)]
pub enum Seg {
    Raw(usize),
    Shuffle(usize, usize),
    /// width (1,2,4), order (0..2), explicit stride (None = width), length
    Predict(usize, usize, Option<usize>, usize),
    /// "XYZ " + 4 zeros + 12 raw bytes (20 bytes)
    Xyz,
    /// common type string + 4 zeros (8 bytes)
    Type(usize),
}

#[derive(Clone, Debug)]
pub struct Plan {
    pub tags: TagMode,
    /// segments covering everything after the header (and after the tag list if one is coded)
    pub segs: Vec<Seg>,
}

fn shuffle(e: &[u8], width: usize) -> Vec<u8> {
    // inverse of the decoder's unshuffle: first all bytes at index = 0 mod width, then 1 mod width, ...
    let mut out = Vec::with_capacity(e.len());
    for i in 0..width {
        let mut j = i;
        while j < e.len() {
            out.push(e[j]);
            j += width;
        }
    }
    out
}

fn predict_value(out: &[u8], pos: usize, stride: usize, width: usize, order: usize) -> u32 {
    let rd = |p: usize| -> u32 {
        match width {
            1 => out[p] as u32,
            2 => ((out[p] as u32) << 8) | out[p + 1] as u32,
            _ => u32::from_be_bytes([out[p], out[p + 1], out[p + 2], out[p + 3]]),
        }
    };
    let p1 = rd(pos - stride);
    match order {
        0 => p1,
        1 => {
            let p2 = rd(pos - 2 * stride);
            p1.wrapping_mul(2).wrapping_sub(p2)
        }
        _ => {
            let p2 = rd(pos - 2 * stride);
            let p3 = rd(pos - 3 * stride);
            p1.wrapping_mul(3).wrapping_sub(p2.wrapping_mul(3)).wrapping_add(p3)
        }
    }
}

/// Encodes `profile` according to `plan`.  Returns None if the plan does not fit the profile
/// (segment kinds that cannot reproduce the bytes, lengths that do not add up).
pub fn encode(profile: &[u8], plan: &Plan) -> Option<Vec<u8>> {
    let n = profile.len();
    let mut cmds: Vec<u8> = Vec::new();
    let mut data: Vec<u8> = Vec::new();
    let hs = n.min(128);
    for i in 0..hs {
        let p = predict_header(&profile[..i], n as u32, i);
        data.push(profile[i].wrapping_sub(p));
    }
    let mut pos = hs;
    if n > 128 {
        match plan.tags {
            TagMode::None => varint(&mut cmds, 0),
            TagMode::Explicit | TagMode::Shortcuts => {
                if n < 132 {
                    return None;
                }
                let numtags = u32::from_be_bytes(profile[128..132].try_into().unwrap()) as usize;
                if 132 + numtags * 12 > n || numtags > 100 {
                    return None;
                }
                varint(&mut cmds, numtags as u64 + 1);
                pos = 132;
                let mut prev_start = (128 + numtags * 12) as u64;
                let mut prev_size = 0u64;
                let mut t = 0;
                let entry = |k: usize| -> ([u8; 4], u64, u64) {
                    let o = 132 + k * 12;
                    (profile[o..o + 4].try_into().unwrap(), u32::from_be_bytes(profile[o + 4..o + 8].try_into().unwrap()) as u64, u32::from_be_bytes(profile[o + 8..o + 12].try_into().unwrap()) as u64)
                };
                while t < numtags {
                    let (tag, start, size) = entry(t);
                    let mut code: u8 = 1;
                    let mut consumed = 1;
                    if plan.tags == TagMode::Shortcuts {
                        // triples
                        if t + 2 < numtags {
                            let (t1, s1, z1) = entry(t + 1);
                            let (t2, s2, z2) = entry(t + 2);
                            if &tag == b"rTRC" && &t1 == b"gTRC" && &t2 == b"bTRC" && s1 == start && s2 == start && z1 == size && z2 == size {
                                code = 2;
                                consumed = 3;
                            } else if &tag == b"rXYZ" && &t1 == b"gXYZ" && &t2 == b"bXYZ" && s1 == start + size && s2 == start + 2 * size && z1 == size && z2 == size {
                                code = 3;
                                consumed = 3;
                            }
                        }
                        if code == 1 {
                            if let Some(k) = TAG_STRINGS.iter().position(|s| **s == tag) {
                                code = 4 + k as u8;
                            }
                        }
                    }
                    let implied_size = if [b"rXYZ", b"gXYZ", b"bXYZ", b"kXYZ", b"wtpt", b"bkpt", b"lumi"].iter().any(|s| **s == tag) { 20 } else { prev_size };
                    let mut command = code;
                    let explicit = plan.tags == TagMode::Explicit;
                    let need_off = explicit || start != prev_start + prev_size;
                    let need_size = explicit || size != implied_size;
                    if need_off {
                        command |= 64;
                    }
                    if need_size {
                        command |= 128;
                    }
                    cmds.push(command);
                    if code == 1 {
                        data.extend_from_slice(&tag);
                    }
                    if need_off {
                        varint(&mut cmds, start);
                    }
                    if need_size {
                        varint(&mut cmds, size);
                    }
                    prev_start = start;
                    prev_size = size;
                    t += consumed;
                    pos += 12 * consumed;
                }
                // end of tag list
                cmds.push(0);
            }
        }
        for seg in &plan.segs {
            match *seg {
                Seg::Raw(len) => {
                    if pos + len > n || len == 0 {
                        return None;
                    }
                    cmds.push(1);
                    varint(&mut cmds, len as u64);
                    data.extend_from_slice(&profile[pos..pos + len]);
                    pos += len;
                }
                Seg::Shuffle(width, len) => {
                    if pos + len > n || len == 0 {
                        return None;
                    }
                    cmds.push(if width == 2 { 2 } else { 3 });
                    varint(&mut cmds, len as u64);
                    data.extend_from_slice(&shuffle(&profile[pos..pos + len], width));
                    pos += len;
                }
                Seg::Predict(width, order, stride, len) => {
                    let st = stride.unwrap_or(width);
                    if pos + len > n || len == 0 || st < width || st * 4 >= pos || (order + 1) * st > pos {
                        return None;
                    }
                    cmds.push(4);
                    let flags = (width - 1) as u8 | ((order as u8) << 2) | if stride.is_some() { 16 } else { 0 };
                    cmds.push(flags);
                    if let Some(s) = stride {
                        varint(&mut cmds, s as u64);
                    }
                    varint(&mut cmds, len as u64);
                    let mut e = Vec::with_capacity(len);
                    let mut i = 0;
                    while i < len {
                        // the predictor reads whole `width`-byte values that must already be decoded
                        let p = predict_value(&profile[..pos + i], pos + i, st, width, order);
                        for j in 0..width {
                            if i + j >= len {
                                break;
                            }
                            let pb = (p >> (8 * (width - 1 - j))) as u8;
                            e.push(profile[pos + i + j].wrapping_sub(pb));
                        }
                        i += width;
                    }
                    data.extend_from_slice(&if width > 1 { shuffle(&e, width) } else { e });
                    pos += len;
                }
                Seg::Xyz => {
                    if pos + 20 > n || &profile[pos..pos + 4] != b"XYZ " || profile[pos + 4..pos + 8] != [0; 4] {
                        return None;
                    }
                    cmds.push(10);
                    data.extend_from_slice(&profile[pos + 8..pos + 20]);
                    pos += 20;
                }
                Seg::Type(k) => {
                    if pos + 8 > n || &profile[pos..pos + 4] != TYPE_STRINGS[k] || profile[pos + 4..pos + 8] != [0; 4] {
                        return None;
                    }
                    cmds.push(16 + k as u8);
                    pos += 8;
                }
            }
        }
        if pos != n {
            return None;
        }
    }
    let mut out = Vec::new();
    varint(&mut out, n as u64);
    varint(&mut out, cmds.len() as u64);
    out.extend_from_slice(&cmds);
    out.extend_from_slice(&data);
    Some(out)
}

pub fn icc_context(i: usize, b1: u8, b2: u8) -> u32 {
    if i <= 128 {
        return 0;
    }
    let p1 = if b1.is_ascii_alphabetic() {
        0
    } else if b1.is_ascii_digit() || b1 == b'.' || b1 == b',' {
        1
    } else if b1 <= 1 {
        2 + b1 as u32
    } else if b1 > 1 && b1 < 16 {
        4
    } else if b1 > 240 && b1 < 255 {
        5
    } else if b1 == 255 {
        6
    } else {
        7
    };
    let p2 = if b2.is_ascii_alphabetic() {
        0
    } else if b2.is_ascii_digit() || b2 == b'.' || b2 == b',' {
        1
    } else if b2 < 16 {
        2
    } else if b2 > 240 {
        3
    } else {
        4
    };
    1 + p1 + 8 * p2
}

/// Entropy-coded ICC stream as it appears after the image metadata.
pub fn write_icc_stream(encoded: &[u8], opts: &CodeOpts) -> BitWriter {
    let mut w = BitWriter::new();
    w.u64(encoded.len() as u64);
    let mut syms = Vec::with_capacity(encoded.len());
    let (mut b1, mut b2) = (0u8, 0u8);
    for (i, &b) in encoded.iter().enumerate() {
        syms.push(Sym::Val { ctx: icc_context(i, b1, b2), value: b as u32 });
        b2 = b1;
        b1 = b;
    }
    encode_stream(&mut w, 41, &syms, opts);
    w
}
