//! Patch dictionary (LfGlobal, frame flag kPatches): writer and reference semantics.
//!
//! Written from the format definition: one entropy-coded stream with 10 contexts
//! (0 number of patch references, 1 reference slot, 2 patch size, 3 position in the reference,
//! 4 first target position, 5 blend mode, 6 target offset (signed, packed), 7 target count - 1,
//! 8 alpha channel, 9 clamp).

use crate::bits::BitWriter;
use crate::entropy::{encode_stream, pack_signed, CodeOpts, Sym};

pub const PATCH_NONE: u32 = 0;
pub const PATCH_REPLACE: u32 = 1;
pub const PATCH_ADD: u32 = 2;
pub const PATCH_MUL: u32 = 3;
pub const PATCH_BLEND_ABOVE: u32 = 4;
pub const PATCH_BLEND_BELOW: u32 = 5;
pub const PATCH_MULADD_ABOVE: u32 = 6;
pub const PATCH_MULADD_BELOW: u32 = 7;

#[derive(Clone, Debug)]
pub struct PatchBlend {
    pub mode: u32,
    /// index among the extra channels
    pub alpha_channel: u32,
    pub clamp: bool,
}

#[derive(Clone, Debug)]
pub struct PatchTarget {
    pub x: i32,
    pub y: i32,
    /// [0] for the colour channels, [1 + e] for extra channel e
    pub blending: Vec<PatchBlend>,
}

#[derive(Clone, Debug)]
pub struct PatchRef {
    pub ref_idx: u32,
    pub x0: u32,
    pub y0: u32,
    pub w: u32,
    pub h: u32,
    pub targets: Vec<PatchTarget>,
}

/// Serialises the dictionary.  `num_alpha` = number of extra channels of type alpha in the image
/// (the alpha channel index is only coded when there are at least two).
pub fn write_patches(refs: &[PatchRef], num_alpha: usize, opts: &CodeOpts) -> BitWriter {
    let mut s: Vec<Sym> = vec![];
    let mut v = |ctx: u32, value: u32| s.push(Sym::Val { ctx, value });
    v(0, refs.len() as u32);
    for r in refs {
        v(1, r.ref_idx);
        v(3, r.x0);
        v(3, r.y0);
        v(2, r.w - 1);
        v(2, r.h - 1);
        v(7, r.targets.len() as u32 - 1);
        let mut prev: Option<(i32, i32)> = None;
        for t in &r.targets {
            match prev {
                None => {
                    assert!(t.x >= 0 && t.y >= 0, "first target position is coded unsigned");
                    v(4, t.x as u32);
                    v(4, t.y as u32);
                }
                Some((px, py)) => {
                    v(6, pack_signed(t.x - px));
                    v(6, pack_signed(t.y - py));
                }
            }
            prev = Some((t.x, t.y));
            for b in &t.blending {
                v(5, b.mode);
                if b.mode >= 4 && num_alpha >= 2 {
                    v(8, b.alpha_channel);
                }
                if b.mode >= 3 {
                    v(9, b.clamp as u32);
                }
            }
        }
    }
    let mut w = BitWriter::new();
    encode_stream(&mut w, 10, &s, opts);
    w
}

/// Reference slot contents as seen by patches: `w x h` planes (colour then extra channels).
pub struct RefImage<'a> {
    pub w: usize,
    pub h: usize,
    pub planes: &'a [Vec<f64>],
}

/// Applies the patches to the decoded frame samples (`planes`, frame-sized `fw x fh`, colour
/// channels first).  All channels of one target are computed from the samples *before* that
/// target is applied (the blend of a target reads old colour / old alpha, then writes).
/// `alpha_premultiplied[e]` for extra channel e.  Patches must lie inside the frame and inside
/// the reference (the format requires it); this is asserted.
pub fn apply_patches(planes: &mut [Vec<f64>], fw: usize, fh: usize, n_colour: usize, alpha_premultiplied: &[bool], refs: &[PatchRef], slots: &dyn Fn(u32) -> Option<(usize, usize, Vec<Vec<f64>>)>) {
    let n = planes.len();
    for r in refs {
        let (rw, rh, rplanes) = slots(r.ref_idx).expect("patch reference slot is empty");
        assert!((r.x0 + r.w) as usize <= rw && (r.y0 + r.h) as usize <= rh, "patch source outside the reference");
        for t in &r.targets {
            assert!(t.x >= 0 && t.y >= 0 && (t.x as usize + r.w as usize) <= fw && (t.y as usize + r.h as usize) <= fh, "patch target outside the frame");
            let old: Vec<Vec<f64>> = planes.to_vec();
            for c in 0..n {
                let b = if c < n_colour { &t.blending[0] } else { &t.blending[1 + c - n_colour] };
                if b.mode == PATCH_NONE {
                    continue;
                }
                let aidx = n_colour + b.alpha_channel as usize;
                let is_own_alpha = b.mode >= 4 && c == aidx;
                let premult = b.mode >= 4 && alpha_premultiplied[b.alpha_channel as usize];
                for dy in 0..r.h as usize {
                    for dx in 0..r.w as usize {
                        let fi = (t.y as usize + dy) * fw + t.x as usize + dx;
                        let ri = (r.y0 as usize + dy) * rw + r.x0 as usize + dx;
                        let o = old[c][fi];
                        let p = rplanes[c][ri];
                        let out = match b.mode {
                            PATCH_REPLACE => p,
                            PATCH_ADD => o + p,
                            PATCH_MUL => o * if b.clamp { p.clamp(0.0, 1.0) } else { p },
                            _ => {
                                // foreground / background: "above" puts the patch on top
                                let above = b.mode == PATCH_BLEND_ABOVE || b.mode == PATCH_MULADD_ABOVE;
                                let (oa, pa) = (old[aidx][fi], rplanes[aidx][ri]);
                                let (fg, bg, mut fa, ba) = if above { (p, o, pa, oa) } else { (o, p, oa, pa) };
                                if b.clamp {
                                    fa = fa.clamp(0.0, 1.0);
                                }
                                if b.mode == PATCH_BLEND_ABOVE || b.mode == PATCH_BLEND_BELOW {
                                    if is_own_alpha {
                                        ba + fa * (1.0 - ba)
                                    } else if premult {
                                        fg + bg * (1.0 - fa)
                                    } else {
                                        let outa = ba + fa * (1.0 - ba);
                                        if outa == 0.0 {
                                            0.0
                                        } else {
                                            (fg * fa + bg * ba * (1.0 - fa)) / outa
                                        }
                                    }
                                } else if is_own_alpha {
                                    // alpha-weighted add leaves the background's alpha
                                    if above { o } else { p }
                                } else {
                                    bg + fg * fa
                                }
                            }
                        };
                        planes[c][fi] = out;
                    }
                }
            }
        }
    }
}

/// One quantised spline of the spline dictionary (LfGlobal, frame flag kSplines).
#[derive(Clone, Debug)]
pub struct QuantSpline {
    pub start: (i64, i64),
    /// control points after the start point, as absolute positions
    pub points: Vec<(i64, i64)>,
    /// quantised DCT32 of the colour along the spline, 3 channels
    pub colour_dct: [[i32; 32]; 3],
    pub sigma_dct: [i32; 32],
}

/// Serialises a spline dictionary: 6 contexts (0 quantisation adjustment, 1 starting positions,
/// 2 number of splines - 1, 3 number of control points, 4 control point double-deltas, 5 DCT coefficients).
pub fn write_splines(splines: &[QuantSpline], quant_adjust: i32, opts: &CodeOpts) -> BitWriter {
    assert!(!splines.is_empty());
    let mut s: Vec<Sym> = vec![];
    let mut v = |ctx: u32, value: u32| s.push(Sym::Val { ctx, value });
    v(2, splines.len() as u32 - 1);
    let mut prev = (0i64, 0i64);
    for (i, sp) in splines.iter().enumerate() {
        if i == 0 {
            assert!(sp.start.0 >= 0 && sp.start.1 >= 0);
            v(1, sp.start.0 as u32);
            v(1, sp.start.1 as u32);
        } else {
            v(1, pack_signed((sp.start.0 - prev.0) as i32));
            v(1, pack_signed((sp.start.1 - prev.1) as i32));
        }
        prev = sp.start;
    }
    v(0, pack_signed(quant_adjust));
    for sp in splines {
        v(3, sp.points.len() as u32);
        let mut cur = sp.start;
        let mut delta = (0i64, 0i64);
        for &p in &sp.points {
            let d = (p.0 - cur.0, p.1 - cur.1);
            v(4, pack_signed((d.0 - delta.0) as i32));
            v(4, pack_signed((d.1 - delta.1) as i32));
            delta = d;
            cur = p;
        }
        for c in 0..3 {
            for k in 0..32 {
                v(5, pack_signed(sp.colour_dct[c][k]));
            }
        }
        for k in 0..32 {
            v(5, pack_signed(sp.sigma_dct[k]));
        }
    }
    let mut w = BitWriter::new();
    encode_stream(&mut w, 6, &s, opts);
    w
}
