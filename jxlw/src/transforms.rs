//! f64 definitions of the inverse varblock transforms that are not plain DCTs (Hornuss, DCT2x2
//! pyramid, DCT4x4, DCT4x8 / DCT8x4, AFV0..3) and of the separable inverse DCT, written from the
//! format definition.  Coefficients and pixels are 8x8 arrays indexed `[row * 8 + col]`.

use crate::afv_table::AFV_BASIS;

fn alpha(k: usize) -> f64 {
    if k == 0 {
        1.0
    } else {
        std::f64::consts::SQRT_2
    }
}

/// Separable inverse DCT of a `rows x cols` coefficient array (`c[v * cols + u]`: vertical frequency v,
/// horizontal frequency u): out(y, x) = sum alpha(u) alpha(v) c cos((2x+1)u pi / 2cols) cos((2y+1)v pi / 2rows).
pub fn idct(c: &[f64], rows: usize, cols: usize) -> Vec<f64> {
    let pi = std::f64::consts::PI;
    let cu: Vec<Vec<f64>> = (0..cols).map(|u| (0..cols).map(|x| alpha(u) * (((2 * x + 1) * u) as f64 * pi / (2.0 * cols as f64)).cos()).collect()).collect();
    let cv: Vec<Vec<f64>> = (0..rows).map(|v| (0..rows).map(|y| alpha(v) * (((2 * y + 1) * v) as f64 * pi / (2.0 * rows as f64)).cos()).collect()).collect();
    let mut out = vec![0f64; rows * cols];
    for v in 0..rows {
        for u in 0..cols {
            let k = c[v * cols + u];
            if k == 0.0 {
                continue;
            }
            for y in 0..rows {
                for x in 0..cols {
                    out[y * cols + x] += k * cu[u][x] * cv[v][y];
                }
            }
        }
    }
    out
}

/// Forward DCT that inverts `idct`: c(v, u) = alpha(u) alpha(v) / (rows cols) * sum x cos cos.
pub fn dct(x: &[f64], rows: usize, cols: usize) -> Vec<f64> {
    let pi = std::f64::consts::PI;
    let mut out = vec![0f64; rows * cols];
    for v in 0..rows {
        for u in 0..cols {
            let mut acc = 0.0;
            for y in 0..rows {
                for xx in 0..cols {
                    acc += x[y * cols + xx] * (((2 * xx + 1) * u) as f64 * pi / (2.0 * cols as f64)).cos() * (((2 * y + 1) * v) as f64 * pi / (2.0 * rows as f64)).cos();
                }
            }
            out[v * cols + u] = acc * alpha(u) * alpha(v) / (rows * cols) as f64;
        }
    }
    out
}

fn transpose(a: &[f64], rows: usize, cols: usize) -> Vec<f64> {
    let mut t = vec![0f64; rows * cols];
    for r in 0..rows {
        for c in 0..cols {
            t[c * rows + r] = a[r * cols + c];
        }
    }
    t
}

fn hadamard4(c00: f64, c01: f64, c10: f64, c11: f64) -> [f64; 4] {
    [c00 + c01 + c10 + c11, c00 + c01 - c10 - c11, c00 - c01 + c10 - c11, c00 - c01 - c10 + c11]
}

/// One level of the 2x2 pyramid on the top-left `s x s` corner.
fn idct2_top(block: &mut [f64; 64], s: usize) {
    let n = s / 2;
    let mut out = *block;
    for y in 0..n {
        for x in 0..n {
            let r = hadamard4(block[y * 8 + x], block[y * 8 + n + x], block[(y + n) * 8 + x], block[(y + n) * 8 + n + x]);
            out[(2 * y) * 8 + 2 * x] = r[0];
            out[(2 * y) * 8 + 2 * x + 1] = r[1];
            out[(2 * y + 1) * 8 + 2 * x] = r[2];
            out[(2 * y + 1) * 8 + 2 * x + 1] = r[3];
        }
    }
    *block = out;
}

pub fn dct2x2(c: &[f64; 64]) -> [f64; 64] {
    let mut b = *c;
    idct2_top(&mut b, 2);
    idct2_top(&mut b, 4);
    idct2_top(&mut b, 8);
    b
}

pub fn hornuss(c: &[f64; 64]) -> [f64; 64] {
    let dcs = hadamard4(c[0], c[1], c[8], c[9]);
    let mut p = [0f64; 64];
    for y in 0..2 {
        for x in 0..2 {
            let mut residual = 0.0;
            for iy in 0..4 {
                for ix in 0..4 {
                    if ix | iy != 0 {
                        residual += c[(y + iy * 2) * 8 + x + ix * 2];
                    }
                }
            }
            let avg = dcs[y * 2 + x] - residual / 16.0;
            for iy in 0..4 {
                for ix in 0..4 {
                    p[(4 * y + iy) * 8 + 4 * x + ix] = match (ix, iy) {
                        (1, 1) => avg,
                        (0, 0) => c[(y + 2) * 8 + x + 2] + avg,
                        _ => c[(y + iy * 2) * 8 + x + ix * 2] + avg,
                    };
                }
            }
        }
    }
    p
}

/// DCT4x4: four interleaved 4x4 DCTs.  `sub_transposed`: the 4x4 coefficient sub-arrays are stored
/// with horizontal frequency along the rows (the format's convention for these sub-blocks).
pub fn dct4x4(c: &[f64; 64], sub_transposed: bool) -> [f64; 64] {
    let dcs = hadamard4(c[0], c[1], c[8], c[9]);
    let mut p = [0f64; 64];
    for y in 0..2 {
        for x in 0..2 {
            let mut b = [0f64; 16];
            for iy in 0..4 {
                for ix in 0..4 {
                    b[iy * 4 + ix] = c[(y + iy * 2) * 8 + x + ix * 2];
                }
            }
            b[0] = dcs[y * 2 + x];
            let b = if sub_transposed { transpose(&b, 4, 4) } else { b.to_vec() };
            let o = idct(&b, 4, 4);
            for iy in 0..4 {
                for ix in 0..4 {
                    p[(4 * y + iy) * 8 + 4 * x + ix] = o[iy * 4 + ix];
                }
            }
        }
    }
    p
}

/// DCT4x8 (two 4-row x 8-column blocks, one above the other); `transposed_out` gives DCT8x4
/// (two 8-row x 4-column blocks side by side).
pub fn dct4x8(c: &[f64; 64], transposed_out: bool) -> [f64; 64] {
    let dcs = [c[0] + c[8], c[0] - c[8]];
    let mut p = [0f64; 64];
    for y in 0..2 {
        let mut b = [0f64; 32];
        for iy in 0..4 {
            for ix in 0..8 {
                b[iy * 8 + ix] = c[(y + iy * 2) * 8 + ix];
            }
        }
        b[0] = dcs[y];
        let o = idct(&b, 4, 8);
        for iy in 0..4 {
            for ix in 0..8 {
                if transposed_out {
                    p[ix * 8 + 4 * y + iy] = o[iy * 8 + ix];
                } else {
                    p[(4 * y + iy) * 8 + ix] = o[iy * 8 + ix];
                }
            }
        }
    }
    p
}

/// AFV kind 0..3 (bit 0: corner on the right, bit 1: corner at the bottom).
pub fn afv(c: &[f64; 64], kind: usize, sub_transposed: bool) -> [f64; 64] {
    let (fx, fy) = (kind & 1, kind / 2);
    let (b00, b01, b10) = (c[0], c[1], c[8]);
    let dcs = [(b00 + b10 + b01) * 4.0, b00 + b10 - b01, b00 - b10];
    let mut p = [0f64; 64];
    // the AFV corner: coefficients at (even, even) positions
    let mut k = [0f64; 16];
    for iy in 0..4 {
        for ix in 0..4 {
            k[iy * 4 + ix] = c[iy * 2 * 8 + ix * 2];
        }
    }
    k[0] = dcs[0];
    let mut px = [0f64; 16];
    for i in 0..16 {
        for j in 0..16 {
            px[j] += k[i] * AFV_BASIS[i][j];
        }
    }
    for iy in 0..4 {
        for ix in 0..4 {
            let sy = if fy == 1 { 3 - iy } else { iy };
            let sx = if fx == 1 { 3 - ix } else { ix };
            p[(iy + fy * 4) * 8 + fx * 4 + ix] = px[sy * 4 + sx];
        }
    }
    // 4x4 DCT next to it: coefficients at (odd column, even row)
    let mut b = [0f64; 16];
    for iy in 0..4 {
        for ix in 0..4 {
            b[iy * 4 + ix] = c[iy * 2 * 8 + ix * 2 + 1];
        }
    }
    b[0] = dcs[1];
    let b = if sub_transposed { transpose(&b, 4, 4) } else { b.to_vec() };
    let o = idct(&b, 4, 4);
    for iy in 0..4 {
        for ix in 0..4 {
            p[(iy + fy * 4) * 8 + (1 - fx) * 4 + ix] = o[iy * 4 + ix];
        }
    }
    // 4x8 DCT in the other half: odd rows
    let mut b = [0f64; 32];
    for iy in 0..4 {
        for ix in 0..8 {
            b[iy * 8 + ix] = c[(1 + iy * 2) * 8 + ix];
        }
    }
    b[0] = dcs[2];
    let o = idct(&b, 4, 8);
    for iy in 0..4 {
        for ix in 0..8 {
            p[((1 - fy) * 4 + iy) * 8 + ix] = o[iy * 8 + ix];
        }
    }
    p
}

/// Largest deviation of AFV_BASIS * AFV_BASIS^T from the identity.
pub fn afv_basis_orthonormality_error() -> f64 {
    let mut e = 0f64;
    for i in 0..16 {
        for j in 0..16 {
            let d: f64 = (0..16).map(|k| AFV_BASIS[i][k] * AFV_BASIS[j][k]).sum();
            e = e.max((d - if i == j { 1.0 } else { 0.0 }).abs());
        }
    }
    e
}
