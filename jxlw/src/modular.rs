//! Modular mode (ISO/IEC 18181-1 Annex H): channel model, predictors incl. the weighted one,
//! properties, MA trees, forward transforms (RCT, palette, squeeze) and the residual tokeniser.

use crate::bits::{BitWriter, D};
use crate::entropy::{pack_signed, Sym};

#[derive(Clone, Debug, PartialEq)]
pub struct Channel {
    pub w: usize,
    pub h: usize,
    pub hshift: i32,
    pub vshift: i32,
    pub data: Vec<i32>,
}

impl Channel {
    pub fn new(w: usize, h: usize) -> Self {
        Channel { w, h, hshift: 0, vshift: 0, data: vec![0; w * h] }
    }
    pub fn from_fn(w: usize, h: usize, f: impl Fn(usize, usize) -> i32) -> Self {
        let mut c = Self::new(w, h);
        for y in 0..h {
            for x in 0..w {
                c.data[y * w + x] = f(x, y);
            }
        }
        c
    }
    #[inline]
    pub fn at(&self, x: usize, y: usize) -> i32 {
        self.data[y * self.w + x]
    }
    pub fn crop(&self, x0: usize, y0: usize, w: usize, h: usize) -> Channel {
        let x1 = (x0 + w).min(self.w);
        let y1 = (y0 + h).min(self.h);
        let (x0, y0) = (x0.min(x1), y0.min(y1));
        let mut c = Channel { w: x1 - x0, h: y1 - y0, hshift: self.hshift, vshift: self.vshift, data: Vec::new() };
        for y in y0..y1 {
            c.data.extend_from_slice(&self.data[y * self.w + x0..y * self.w + x1]);
        }
        c
    }
}

// ------------------------------------------------------------------------------------------
// MA tree

#[derive(Clone, Debug, PartialEq)]
pub enum Node {
    /// property > value ? left : right
    Decision { prop: u32, value: i32, left: Box<Node>, right: Box<Node> },
    Leaf { predictor: u32, offset: i32, mul_log: u32, mul_bits: u32 },
}

impl Node {
    pub fn leaf(predictor: u32) -> Node {
        Node::Leaf { predictor, offset: 0, mul_log: 0, mul_bits: 0 }
    }
    pub fn split(prop: u32, value: i32, left: Node, right: Node) -> Node {
        Node::Decision { prop, value, left: Box::new(left), right: Box::new(right) }
    }
}

#[derive(Clone, Debug)]
pub struct FlatNode {
    pub prop: i32, // -1 for leaf
    pub value: i32,
    pub left: usize,
    pub right: usize,
    pub predictor: u32,
    pub offset: i32,
    pub multiplier: u32,
    pub mul_log: u32,
    pub mul_bits: u32,
    pub ctx: u32,
}

#[derive(Clone, Debug)]
pub struct Tree {
    pub nodes: Vec<FlatNode>,
    pub num_leaves: usize,
    pub uses_wp: bool,
    pub max_prop: u32,
}

impl Tree {
    /// Flattens in the bitstream's breadth-first order; leaves get context ids in that order.
    pub fn new(root: &Node) -> Tree {
        let mut nodes: Vec<FlatNode> = Vec::new();
        let mut queue: std::collections::VecDeque<&Node> = std::collections::VecDeque::new();
        queue.push_back(root);
        let mut next_free = 1usize;
        let mut ctx = 0u32;
        let mut uses_wp = false;
        let mut max_prop = 0;
        while let Some(n) = queue.pop_front() {
            match n {
                Node::Decision { prop, value, left, right } => {
                    nodes.push(FlatNode {
                        prop: *prop as i32,
                        value: *value,
                        left: next_free,
                        right: next_free + 1,
                        predictor: 0,
                        offset: 0,
                        multiplier: 1,
                        mul_log: 0,
                        mul_bits: 0,
                        ctx: 0,
                    });
                    next_free += 2;
                    queue.push_back(left);
                    queue.push_back(right);
                    if *prop == 15 {
                        uses_wp = true;
                    }
                    max_prop = max_prop.max(*prop);
                }
                Node::Leaf { predictor, offset, mul_log, mul_bits } => {
                    nodes.push(FlatNode {
                        prop: -1,
                        value: 0,
                        left: 0,
                        right: 0,
                        predictor: *predictor,
                        offset: *offset,
                        multiplier: (mul_bits + 1) << mul_log,
                        mul_log: *mul_log,
                        mul_bits: *mul_bits,
                        ctx,
                    });
                    ctx += 1;
                    if *predictor == 6 {
                        uses_wp = true;
                    }
                }
            }
        }
        Tree { nodes, num_leaves: ctx as usize, uses_wp, max_prop }
    }

    /// Token stream of the tree itself (6 contexts).
    pub fn tokens(&self) -> Vec<Sym> {
        let mut out = Vec::new();
        for n in &self.nodes {
            if n.prop >= 0 {
                out.push(Sym::Val { ctx: 1, value: n.prop as u32 + 1 });
                out.push(Sym::Val { ctx: 0, value: pack_signed(n.value) });
            } else {
                out.push(Sym::Val { ctx: 1, value: 0 });
                out.push(Sym::Val { ctx: 2, value: n.predictor });
                out.push(Sym::Val { ctx: 3, value: pack_signed(n.offset) });
                out.push(Sym::Val { ctx: 4, value: n.mul_log });
                out.push(Sym::Val { ctx: 5, value: n.mul_bits });
            }
        }
        out
    }

    pub fn lookup(&self, props: &[i32]) -> &FlatNode {
        let mut i = 0;
        loop {
            let n = &self.nodes[i];
            if n.prop < 0 {
                return n;
            }
            let p = props.get(n.prop as usize).copied().unwrap_or(0);
            i = if p > n.value { n.left } else { n.right };
        }
    }
}

// ------------------------------------------------------------------------------------------
// Weighted predictor

#[derive(Clone, Debug, PartialEq)]
pub struct WpParams {
    pub default: bool,
    pub p1: u32,
    pub p2: u32,
    pub p3: [u32; 5],
    pub w: [u32; 4],
}

impl Default for WpParams {
    fn default() -> Self {
        WpParams { default: true, p1: 16, p2: 10, p3: [7, 7, 7, 0, 0], w: [13, 12, 12, 12] }
    }
}

impl WpParams {
    pub fn write(&self, w: &mut BitWriter) {
        w.bool(self.default);
        if !self.default {
            w.write(5, self.p1 as u64);
            w.write(5, self.p2 as u64);
            for v in self.p3 {
                w.write(5, v as u64);
            }
            for v in self.w {
                w.write(4, v as u64);
            }
        }
    }
}

struct Wp {
    p: WpParams,
    xsize: usize,
    pred_errors: [Vec<u32>; 4],
    error: Vec<i32>,
    prediction: [i64; 4],
    pred: i64,
}

fn floor_log2(x: u64) -> i32 {
    63 - x.leading_zeros() as i32
}

fn div_lookup(i: u32) -> u64 {
    (1u64 << 24) / (i as u64 + 1)
}

fn error_weight(x: u64, maxweight: u32) -> u32 {
    let mut shift = floor_log2(x + 1) - 5;
    if shift < 0 {
        shift = 0;
    }
    (4 + ((maxweight as u64 * div_lookup((x >> shift) as u32)) >> shift)) as u32
}

impl Wp {
    fn new(p: &WpParams, xsize: usize) -> Wp {
        Wp {
            p: p.clone(),
            xsize,
            pred_errors: [vec![0; (xsize + 2) * 2], vec![0; (xsize + 2) * 2], vec![0; (xsize + 2) * 2], vec![0; (xsize + 2) * 2]],
            error: vec![0; (xsize + 2) * 2],
            prediction: [0; 4],
            pred: 0,
        }
    }

    /// returns (prediction, max_error property)
    fn predict(&mut self, x: usize, y: usize, n: i32, w: i32, ne: i32, nw: i32, nn: i32) -> (i64, i32) {
        let xs = self.xsize;
        let cur_row = if y & 1 == 1 { 0 } else { xs + 2 };
        let prev_row = if y & 1 == 1 { xs + 2 } else { 0 };
        let pos_n = prev_row + x;
        let pos_ne = if x + 1 < xs { pos_n + 1 } else { pos_n };
        let pos_nw = if x > 0 { pos_n - 1 } else { pos_n };
        let mut weights = [0u32; 4];
        for i in 0..4 {
            let s = self.pred_errors[i][pos_n] as u64 + self.pred_errors[i][pos_ne] as u64 + self.pred_errors[i][pos_nw] as u64;
            weights[i] = error_weight(s, self.p.w[i]);
        }
        let n8 = (n as i64) << 3;
        let w8 = (w as i64) << 3;
        let ne8 = (ne as i64) << 3;
        let nw8 = (nw as i64) << 3;
        let nn8 = (nn as i64) << 3;
        let te_w = if x == 0 { 0 } else { self.error[cur_row + x - 1] as i64 };
        let te_n = self.error[pos_n] as i64;
        let te_nw = self.error[pos_nw] as i64;
        let te_ne = self.error[pos_ne] as i64;
        let sum_wn = te_n + te_w;
        // the one with the largest magnitude, ties resolved in the order W, N, NW, NE
        let mut p = te_w;
        if te_n.abs() > p.abs() {
            p = te_n;
        }
        if te_nw.abs() > p.abs() {
            p = te_nw;
        }
        if te_ne.abs() > p.abs() {
            p = te_ne;
        }
        self.prediction[0] = w8 + ne8 - n8;
        self.prediction[1] = n8 - (((sum_wn + te_ne) * self.p.p1 as i64) >> 5);
        self.prediction[2] = w8 - (((sum_wn + te_nw) * self.p.p2 as i64) >> 5);
        self.prediction[3] = n8
            - ((te_nw * self.p.p3[0] as i64
                + te_n * self.p.p3[1] as i64
                + te_ne * self.p.p3[2] as i64
                + (nn8 - n8) * self.p.p3[3] as i64
                + (nw8 - w8) * self.p.p3[4] as i64)
                >> 5);
        // weighted average
        let mut weight_sum: u32 = weights.iter().sum();
        let log_weight = floor_log2(weight_sum as u64);
        weight_sum = 0;
        for wv in weights.iter_mut() {
            *wv >>= log_weight - 4;
            weight_sum += *wv;
        }
        let mut sum: i64 = (weight_sum >> 1) as i64 - 1;
        for i in 0..4 {
            sum += self.prediction[i] * weights[i] as i64;
        }
        let mut pred = (sum * div_lookup(weight_sum - 1) as i64) >> 24;
        if ((te_n ^ te_w) | (te_n ^ te_nw)) <= 0 {
            let mx = w8.max(ne8).max(n8);
            let mn = w8.min(ne8).min(n8);
            pred = pred.clamp(mn, mx);
        }
        self.pred = pred;
        ((pred + 3) >> 3, p as i32)
    }

    fn update(&mut self, x: usize, y: usize, val: i32) {
        let xs = self.xsize;
        let cur_row = if y & 1 == 1 { 0 } else { xs + 2 };
        let prev_row = if y & 1 == 1 { xs + 2 } else { 0 };
        let v8 = (val as i64) << 3;
        self.error[cur_row + x] = (self.pred - v8) as i32;
        for i in 0..4 {
            let err = (((self.prediction[i] - v8).abs() + 3) >> 3) as u32;
            self.pred_errors[i][cur_row + x] = err;
            let idx = prev_row + x + 1;
            self.pred_errors[i][idx] = self.pred_errors[i][idx].wrapping_add(err);
        }
    }
}

// ------------------------------------------------------------------------------------------
// Residual tokeniser

pub struct Neighbours {
    pub w: i32,
    pub n: i32,
    pub nw: i32,
    pub ne: i32,
    pub nn: i32,
    pub ww: i32,
    pub nee: i32,
}

pub fn neighbours(c: &Channel, x: usize, y: usize) -> Neighbours {
    let w = if x > 0 {
        c.at(x - 1, y)
    } else if y > 0 {
        c.at(x, y - 1)
    } else {
        0
    };
    let n = if y > 0 { c.at(x, y - 1) } else { w };
    let nw = if x > 0 && y > 0 { c.at(x - 1, y - 1) } else { w };
    let ne = if x + 1 < c.w && y > 0 { c.at(x + 1, y - 1) } else { n };
    let nn = if y > 1 { c.at(x, y - 2) } else { n };
    let ww = if x > 1 { c.at(x - 2, y) } else { w };
    let nee = if x + 2 < c.w && y > 0 { c.at(x + 2, y - 1) } else { ne };
    Neighbours { w, n, nw, ne, nn, ww, nee }
}

fn clamp_grad(w: i64, n: i64, nw: i64) -> i64 {
    (w + n - nw).clamp(w.min(n), w.max(n))
}

pub fn predict(pred: u32, nb: &Neighbours, wp_pred: i64) -> i64 {
    let (w, n, nw, ne, nn, ww, nee) = (nb.w as i64, nb.n as i64, nb.nw as i64, nb.ne as i64, nb.nn as i64, nb.ww as i64, nb.nee as i64);
    match pred {
        0 => 0,
        1 => w,
        2 => n,
        3 => (w + n) / 2,
        4 => {
            let p = w + n - nw;
            if (p - w).abs() < (p - n).abs() {
                w
            } else {
                n
            }
        }
        5 => clamp_grad(w, n, nw),
        6 => wp_pred,
        7 => ne,
        8 => nw,
        9 => ww,
        10 => (w + nw) / 2,
        11 => (n + nw) / 2,
        12 => (n + ne) / 2,
        13 => (6 * n - 2 * nn + 7 * w + ww + nee + 3 * ne + 8) / 16,
        _ => panic!("predictor {pred}"),
    }
}

/// Encodes channels `range` of `channels` (a sub-bitstream's channel list) with `tree`.
/// Pixels whose residual is not a multiple of the leaf multiplier are *adjusted in place* to the
/// nearest reconstructable value; the returned channel data are therefore the ground truth.
pub fn tokenize_channels(
    channels: &mut [Channel],
    range: std::ops::Range<usize>,
    stream_index: u32,
    tree: &Tree,
    wp_params: &WpParams,
    out: &mut Vec<Sym>,
) {
    let nprops = (tree.max_prop as usize + 1).max(16);
    for i in range {
        let (w, h) = (channels[i].w, channels[i].h);
        if w == 0 || h == 0 {
            continue;
        }
        // previous channels usable for properties >= 16
        let mut refs: Vec<usize> = Vec::new();
        {
            let c = &channels[i];
            let mut j = i;
            while j > 0 && 16 + refs.len() * 4 < nprops {
                j -= 1;
                let r = &channels[j];
                if r.w == c.w && r.h == c.h && r.hshift == c.hshift && r.vshift == c.vshift {
                    refs.push(j);
                }
            }
        }
        let mut wp = Wp::new(wp_params, w);
        let mut props = vec![0i32; nprops.max(16 + refs.len() * 4)];
        for y in 0..h {
            let mut prev_grad = 0i32;
            for x in 0..w {
                let nb = neighbours(&channels[i], x, y);
                let (wp_pred, max_err) = if tree.uses_wp { wp.predict(x, y, nb.n, nb.w, nb.ne, nb.nw, nb.nn) } else { (0, 0) };
                props[0] = i as i32;
                props[1] = stream_index as i32;
                props[2] = y as i32;
                props[3] = x as i32;
                props[4] = nb.n.wrapping_abs();
                props[5] = nb.w.wrapping_abs();
                props[6] = nb.n;
                props[7] = nb.w;
                props[8] = if x > 0 { nb.w.wrapping_sub(prev_grad) } else { nb.w };
                let grad = nb.w.wrapping_add(nb.n).wrapping_sub(nb.nw);
                props[9] = grad;
                props[10] = nb.w.wrapping_sub(nb.nw);
                props[11] = nb.nw.wrapping_sub(nb.n);
                props[12] = nb.n.wrapping_sub(nb.ne);
                props[13] = nb.n.wrapping_sub(nb.nn);
                props[14] = nb.w.wrapping_sub(nb.ww);
                props[15] = max_err;
                prev_grad = grad;
                for (k, &j) in refs.iter().enumerate() {
                    let r = &channels[j];
                    let rc = r.at(x, y);
                    let rnb = neighbours(r, x, y);
                    // for reference channels the plain edge rule: W, N, NW with 0 when missing
                    let rw = if x > 0 { r.at(x - 1, y) } else { 0 };
                    let rn = if y > 0 { r.at(x, y - 1) } else { rw };
                    let rnw = if x > 0 && y > 0 { r.at(x - 1, y - 1) } else { rw };
                    let _ = rnb;
                    let rg = clamp_grad(rw as i64, rn as i64, rnw as i64) as i32;
                    let o = 16 + 4 * k;
                    if o + 3 < props.len() {
                        props[o] = rc.wrapping_abs();
                        props[o + 1] = rc;
                        props[o + 2] = rc.wrapping_sub(rg).wrapping_abs();
                        props[o + 3] = rc.wrapping_sub(rg);
                    }
                }
                let leaf = tree.lookup(&props);
                let pred = predict(leaf.predictor, &nb, wp_pred);
                let v = channels[i].at(x, y) as i64;
                let m = leaf.multiplier as i64;
                let diff = v - pred - leaf.offset as i64;
                let q = if m == 1 { diff } else { (diff as f64 / m as f64).round() as i64 };
                let v2 = pred + leaf.offset as i64 + q * m;
                assert!(v2 >= i32::MIN as i64 && v2 <= i32::MAX as i64, "sample out of i32 range");
                assert!(q >= i32::MIN as i64 + 1 && q <= i32::MAX as i64, "residual out of range");
                channels[i].data[y * w + x] = v2 as i32;
                if tree.uses_wp {
                    wp.update(x, y, v2 as i32);
                }
                out.push(Sym::Val { ctx: leaf.ctx, value: pack_signed(q as i32) });
            }
        }
    }
}

// ------------------------------------------------------------------------------------------
// Transforms

#[derive(Clone, Debug, PartialEq)]
pub struct SqueezeParam {
    pub horizontal: bool,
    pub in_place: bool,
    pub begin_c: u32,
    pub num_c: u32,
}

#[derive(Clone, Debug, PartialEq)]
pub enum Transform {
    Rct { begin_c: u32, rct_type: u32 },
    Palette { begin_c: u32, num_c: u32, nb_colours: u32, nb_deltas: u32, d_pred: u32 },
    /// empty list = default parameters
    Squeeze(Vec<SqueezeParam>),
}

impl Transform {
    pub fn write(&self, w: &mut BitWriter) {
        const BEGIN: [D; 4] = [D::Bits(3), D::BitsOffset(6, 8), D::BitsOffset(10, 72), D::BitsOffset(13, 1096)];
        match self {
            Transform::Rct { begin_c, rct_type } => {
                w.write(2, 0);
                w.u32(BEGIN, *begin_c);
                w.u32([D::Val(6), D::Bits(2), D::BitsOffset(4, 2), D::BitsOffset(6, 10)], *rct_type);
            }
            Transform::Palette { begin_c, num_c, nb_colours, nb_deltas, d_pred } => {
                w.write(2, 1);
                w.u32(BEGIN, *begin_c);
                w.u32([D::Val(1), D::Val(3), D::Val(4), D::BitsOffset(13, 1)], *num_c);
                w.u32([D::Bits(8), D::BitsOffset(10, 256), D::BitsOffset(12, 1280), D::BitsOffset(16, 5376)], *nb_colours);
                w.u32([D::Val(0), D::BitsOffset(8, 1), D::BitsOffset(10, 257), D::BitsOffset(16, 1281)], *nb_deltas);
                w.write(4, *d_pred as u64);
            }
            Transform::Squeeze(params) => {
                w.write(2, 2);
                w.u32([D::Val(0), D::BitsOffset(4, 1), D::BitsOffset(6, 9), D::BitsOffset(8, 41)], params.len() as u32);
                for p in params {
                    w.bool(p.horizontal);
                    w.bool(p.in_place);
                    w.u32(BEGIN, p.begin_c);
                    w.u32([D::Val(1), D::Val(2), D::Val(3), D::BitsOffset(4, 4)], p.num_c);
                }
            }
        }
    }
}

/// Forward RCT on channels begin_c..begin_c+3 (in place): afterwards the decoder's inverse restores them.
pub fn forward_rct(ch: &mut [Channel], begin_c: usize, rct_type: u32) {
    let perm = rct_type / 7;
    let kind = rct_type % 7;
    let n = ch[begin_c].data.len();
    let idx = [
        begin_c + (perm % 3) as usize,
        begin_c + ((perm + 1 + perm / 3) % 3) as usize,
        begin_c + ((perm + 2 - perm / 3) % 3) as usize,
    ];
    let mut out = [vec![0i32; n], vec![0i32; n], vec![0i32; n]];
    for i in 0..n {
        let d = ch[idx[0]].data[i];
        let e = ch[idx[1]].data[i];
        let f = ch[idx[2]].data[i];
        let (a, b, c);
        if kind == 6 {
            let bb = d.wrapping_sub(f);
            let tmp = f.wrapping_add(bb >> 1);
            let cc = e.wrapping_sub(tmp);
            a = tmp.wrapping_add(cc >> 1);
            b = bb;
            c = cc;
        } else {
            a = d;
            c = if kind & 1 != 0 { f.wrapping_sub(d) } else { f };
            b = match kind >> 1 {
                1 => e.wrapping_sub(d),
                2 => e.wrapping_sub(((d as i64 + f as i64) >> 1) as i32),
                _ => e,
            };
        }
        out[0][i] = a;
        out[1][i] = b;
        out[2][i] = c;
    }
    for k in 0..3 {
        ch[begin_c + k].data = std::mem::take(&mut out[k]);
    }
}

pub fn smooth_tendency(b: i64, a: i64, n: i64) -> i64 {
    let mut diff = 0;
    if b >= a && a >= n {
        diff = (4 * b - 3 * n - a + 6) / 12;
        if diff - (diff & 1) > 2 * (b - a) {
            diff = 2 * (b - a) + 1;
        }
        if diff + (diff & 1) > 2 * (a - n) {
            diff = 2 * (a - n);
        }
    } else if b <= a && a <= n {
        diff = (4 * b - 3 * n - a - 6) / 12;
        if diff + (diff & 1) < 2 * (b - a) {
            diff = 2 * (b - a) - 1;
        }
        if diff - (diff & 1) < 2 * (a - n) {
            diff = 2 * (a - n);
        }
    }
    diff
}

fn squeeze_h(c: &Channel) -> (Channel, Channel) {
    let aw = (c.w + 1) / 2;
    let rw = c.w / 2;
    let mut avg = Channel { w: aw, h: c.h, hshift: c.hshift + 1, vshift: c.vshift, data: vec![0; aw * c.h] };
    let mut res = Channel { w: rw, h: c.h, hshift: c.hshift + 1, vshift: c.vshift, data: vec![0; rw * c.h] };
    for y in 0..c.h {
        for x in 0..aw {
            let a = c.at(2 * x, y) as i64;
            if 2 * x + 1 < c.w {
                let b = c.at(2 * x + 1, y) as i64;
                avg.data[y * aw + x] = ((a + b + (a > b) as i64) >> 1) as i32;
            } else {
                avg.data[y * aw + x] = a as i32;
            }
        }
        for x in 0..rw {
            let a = c.at(2 * x, y) as i64;
            let b = c.at(2 * x + 1, y) as i64;
            let av = avg.data[y * aw + x] as i64;
            let left = if x > 0 { c.at(2 * x - 1, y) as i64 } else { av };
            let next = if x + 1 < aw { avg.data[y * aw + x + 1] as i64 } else { av };
            let t = smooth_tendency(left, av, next);
            res.data[y * rw + x] = ((a - b) - t) as i32;
        }
    }
    (avg, res)
}

fn squeeze_v(c: &Channel) -> (Channel, Channel) {
    let ah = (c.h + 1) / 2;
    let rh = c.h / 2;
    let mut avg = Channel { w: c.w, h: ah, hshift: c.hshift, vshift: c.vshift + 1, data: vec![0; c.w * ah] };
    let mut res = Channel { w: c.w, h: rh, hshift: c.hshift, vshift: c.vshift + 1, data: vec![0; c.w * rh] };
    for x in 0..c.w {
        for y in 0..ah {
            let a = c.at(x, 2 * y) as i64;
            if 2 * y + 1 < c.h {
                let b = c.at(x, 2 * y + 1) as i64;
                avg.data[y * c.w + x] = ((a + b + (a > b) as i64) >> 1) as i32;
            } else {
                avg.data[y * c.w + x] = a as i32;
            }
        }
        for y in 0..rh {
            let a = c.at(x, 2 * y) as i64;
            let b = c.at(x, 2 * y + 1) as i64;
            let av = avg.data[y * c.w + x] as i64;
            let top = if y > 0 { c.at(x, 2 * y - 1) as i64 } else { av };
            let next = if y + 1 < ah { avg.data[(y + 1) * c.w + x] as i64 } else { av };
            let t = smooth_tendency(top, av, next);
            res.data[y * c.w + x] = ((a - b) - t) as i32;
        }
    }
    (avg, res)
}

/// Default squeeze parameter sequence for the channel list (after `nb_meta` meta channels).
pub fn default_squeeze_params(ch: &[Channel], nb_meta: usize) -> Vec<SqueezeParam> {
    let first = nb_meta;
    let count = ch.len() - first;
    let mut w = ch[first].w;
    let mut h = ch[first].h;
    let mut out = Vec::new();
    if count > 2 && ch[first + 1].w == w && ch[first + 1].h == h {
        out.push(SqueezeParam { horizontal: true, in_place: false, begin_c: first as u32 + 1, num_c: 2 });
        out.push(SqueezeParam { horizontal: false, in_place: false, begin_c: first as u32 + 1, num_c: 2 });
    }
    let p = |horizontal| SqueezeParam { horizontal, in_place: true, begin_c: first as u32, num_c: count as u32 };
    let wide = w > h;
    if !wide && h > 8 {
        out.push(p(false));
        h = (h + 1) / 2;
    }
    while w > 8 || h > 8 {
        if w > 8 {
            out.push(p(true));
            w = (w + 1) / 2;
        }
        if h > 8 {
            out.push(p(false));
            h = (h + 1) / 2;
        }
    }
    out
}

pub fn forward_squeeze(ch: &mut Vec<Channel>, params: &[SqueezeParam]) {
    for p in params {
        let begin = p.begin_c as usize;
        let end = begin + p.num_c as usize - 1;
        let offset = if p.in_place { end + 1 } else { ch.len() };
        for c in begin..=end {
            let (avg, res) = if p.horizontal { squeeze_h(&ch[c]) } else { squeeze_v(&ch[c]) };
            ch[c] = avg;
            ch.insert(offset + (c - begin), res);
        }
    }
}

/// Implicit delta palette (Annex H.6.?): 72 entries.
pub const DELTA_PALETTE: [[i32; 3]; 72] = [
    [0, 0, 0], [4, 4, 4], [11, 0, 0], [0, 0, -13], [0, -12, 0], [-10, -10, -10], [-18, -18, -18], [-27, -27, -27],
    [-18, -18, 0], [0, 0, -32], [-32, 0, 0], [-37, -37, -37], [0, -32, -32], [24, 24, 45], [50, 50, 50], [-45, -24, -24],
    [-24, -45, -45], [0, -24, -24], [-34, -34, 0], [-24, 0, -24], [-45, -45, -24], [64, 64, 64], [-32, 0, -32], [0, -32, 0],
    [-32, 0, 32], [-24, -45, -24], [45, 24, 45], [24, -24, -45], [-45, -24, 24], [80, 80, 80], [64, 0, 0], [0, 0, -64],
    [0, -64, -64], [-24, -24, 45], [96, 96, 96], [64, 64, 0], [45, -24, -24], [34, -34, 0], [112, 112, 112], [24, -45, -45],
    [45, 45, -24], [0, -32, 32], [24, -24, 45], [0, 96, 96], [45, -24, 24], [24, -45, -24], [-24, -45, 24], [0, -64, 0],
    [96, 0, 0], [128, 128, 128], [64, 0, 64], [144, 144, 144], [96, 96, 0], [-36, -36, 36], [45, -24, -45], [45, -45, -24],
    [0, 0, -96], [0, 128, 128], [0, 96, 0], [45, 24, -45], [-128, 0, 0], [24, -45, 24], [-45, 24, -45], [64, 0, -64],
    [64, -64, -64], [96, 0, 96], [45, -45, 24], [24, 45, -45], [64, 64, -64], [128, 128, 0], [0, 0, -128], [-24, 45, -45],
];

/// Value of palette entry `index` for channel `c` (reference semantics of the inverse palette).
pub fn palette_value(palette: &Channel, index: i32, c: usize, nb_colours: i32, bit_depth: u32) -> i32 {
    if index < 0 {
        if c >= 3 {
            return 0;
        }
        let mut i = (-(index as i64 + 1)) as i64;
        i %= 143;
        let mut v = DELTA_PALETTE[((i + 1) >> 1) as usize][c] as i64;
        if i & 1 == 0 {
            v = -v;
        }
        if bit_depth > 8 {
            v <<= bit_depth.min(24) - 8;
        }
        v as i32
    } else if index < nb_colours {
        palette.at(index as usize, c)
    } else {
        let mut i = (index - nb_colours) as i64;
        let maxv = (1i64 << bit_depth) - 1;
        if i < 64 {
            (((i >> (2 * c)) % 4) * maxv / 4 + (1i64 << (bit_depth.max(3) - 3))) as i32
        } else {
            i -= 64;
            for _ in 0..c {
                i /= 5;
            }
            ((i % 5) * maxv / 4) as i32
        }
    }
}

/// Reference inverse palette: reconstructs `num_c` channels from the index channel.
pub fn inverse_palette(palette: &Channel, index: &Channel, num_c: usize, nb_colours: u32, nb_deltas: u32, d_pred: u32, bit_depth: u32, wp: &WpParams) -> Vec<Channel> {
    let mut out: Vec<Channel> = (0..num_c).map(|_| Channel { w: index.w, h: index.h, hshift: index.hshift, vshift: index.vshift, data: vec![0; index.w * index.h] }).collect();
    for c in 0..num_c {
        let mut wps = Wp::new(wp, index.w);
        for y in 0..index.h {
            for x in 0..index.w {
                let idx = index.at(x, y);
                let mut v = palette_value(palette, idx, c, nb_colours as i32, bit_depth) as i64;
                let is_delta = idx < nb_deltas as i32;
                let nb = neighbours(&out[c], x, y);
                let wp_pred = if d_pred == 6 { wps.predict(x, y, nb.n, nb.w, nb.ne, nb.nw, nb.nn).0 } else { 0 };
                if is_delta {
                    v += predict(d_pred, &nb, wp_pred);
                }
                out[c].data[y * index.w + x] = v as i32;
                if d_pred == 6 {
                    wps.update(x, y, v as i32);
                }
            }
        }
    }
    out
}

// ------------------------------------------------------------------------------------------
// Sub-bitstream header

#[derive(Clone, Debug)]
pub struct ModularHeader {
    pub use_global_tree: bool,
    pub wp: WpParams,
    pub transforms: Vec<Transform>,
}

impl ModularHeader {
    pub fn write(&self, w: &mut BitWriter) {
        w.bool(self.use_global_tree);
        self.wp.write(w);
        w.u32([D::Val(0), D::Val(1), D::BitsOffset(4, 2), D::BitsOffset(8, 18)], self.transforms.len() as u32);
        for t in &self.transforms {
            t.write(w);
        }
    }
}

// ------------------------------------------------------------------------------------------
// Reference inverse transforms (oracle side)

/// Inverse RCT as the format defines it (H.6.3).
pub fn inverse_rct(ch: &mut [Channel], begin_c: usize, rct_type: u32) {
    let perm = rct_type / 7;
    let kind = rct_type % 7;
    let n = ch[begin_c].data.len();
    let mut out = [vec![0i32; n], vec![0i32; n], vec![0i32; n]];
    for i in 0..n {
        let a = ch[begin_c].data[i];
        let mut b = ch[begin_c + 1].data[i];
        let mut c = ch[begin_c + 2].data[i];
        let (d, e, f);
        if kind == 6 {
            let tmp = a.wrapping_sub(c >> 1);
            e = c.wrapping_add(tmp);
            f = tmp.wrapping_sub(b >> 1);
            d = f.wrapping_add(b);
        } else {
            if kind & 1 != 0 {
                c = c.wrapping_add(a);
            }
            if kind >> 1 == 1 {
                b = b.wrapping_add(a);
            }
            if kind >> 1 == 2 {
                b = b.wrapping_add(((a as i64 + c as i64) >> 1) as i32);
            }
            d = a;
            e = b;
            f = c;
        }
        out[(perm % 3) as usize][i] = d;
        out[((perm + 1 + perm / 3) % 3) as usize][i] = e;
        out[((perm + 2 - perm / 3) % 3) as usize][i] = f;
    }
    for k in 0..3 {
        ch[begin_c + k].data = std::mem::take(&mut out[k]);
    }
}

fn unsqueeze_h(avg: &Channel, res: &Channel) -> Channel {
    let w = avg.w + res.w;
    let mut out = Channel { w, h: avg.h, hshift: avg.hshift - 1, vshift: avg.vshift, data: vec![0; w * avg.h] };
    for y in 0..avg.h {
        for x in 0..res.w {
            let av = avg.at(x, y) as i64;
            let left = if x > 0 { out.data[y * w + 2 * x - 1] as i64 } else { av };
            let next = if x + 1 < avg.w { avg.at(x + 1, y) as i64 } else { av };
            let diff = res.at(x, y) as i64 + smooth_tendency(left, av, next);
            let a = av + diff / 2;
            let b = a - diff;
            out.data[y * w + 2 * x] = a as i32;
            out.data[y * w + 2 * x + 1] = b as i32;
        }
        if avg.w > res.w {
            out.data[y * w + 2 * res.w] = avg.at(res.w, y);
        }
    }
    out
}

fn unsqueeze_v(avg: &Channel, res: &Channel) -> Channel {
    let h = avg.h + res.h;
    let w = avg.w;
    let mut out = Channel { w, h, hshift: avg.hshift, vshift: avg.vshift - 1, data: vec![0; w * h] };
    for y in 0..res.h {
        for x in 0..w {
            let av = avg.at(x, y) as i64;
            let top = if y > 0 { out.data[(2 * y - 1) * w + x] as i64 } else { av };
            let next = if y + 1 < avg.h { avg.at(x, y + 1) as i64 } else { av };
            let diff = res.at(x, y) as i64 + smooth_tendency(top, av, next);
            let a = av + diff / 2;
            let b = a - diff;
            out.data[2 * y * w + x] = a as i32;
            out.data[(2 * y + 1) * w + x] = b as i32;
        }
    }
    if avg.h > res.h {
        for x in 0..w {
            out.data[2 * res.h * w + x] = avg.at(x, res.h);
        }
    }
    out
}

pub fn inverse_squeeze(ch: &mut Vec<Channel>, params: &[SqueezeParam]) {
    for p in params.iter().rev() {
        let begin = p.begin_c as usize;
        let end = begin + p.num_c as usize - 1;
        let offset = if p.in_place { end + 1 } else { ch.len() - p.num_c as usize };
        for c in begin..=end {
            let res = ch[offset].clone();
            let merged = if p.horizontal { unsqueeze_h(&ch[c], &res) } else { unsqueeze_v(&ch[c], &res) };
            ch[c] = merged;
            ch.remove(offset);
        }
    }
}
