//! Container (ISO BMFF style) muxer and a one-pass reference demuxer (ISO/IEC 18181-2).

pub const CONTAINER_SIG: [u8; 12] = [0, 0, 0, 0xc, b'J', b'X', b'L', b' ', 0xd, 0xa, 0x87, 0xa];
pub const FTYP_PAYLOAD: [u8; 12] = *b"jxl \0\0\0\0jxl ";

#[derive(Clone, Copy, Debug, PartialEq, Eq)]
pub enum SizeForm {
    /// 32-bit size field
    S32,
    /// size field 1, 64-bit extended size
    S64,
    /// size field 0: box runs to end of file
    ToEof,
    /// deliberately broken: 32-bit size field with this raw value (2..=7)
    Raw32(u32),
    /// deliberately broken: extended size with this raw value (< 16)
    Raw64(u64),
}

#[derive(Clone, Debug)]
pub struct BoxSpec {
    pub ty: [u8; 4],
    pub form: SizeForm,
    /// complete payload (for jxlp including the 4 index bytes, for brob including the inner type)
    pub payload: Vec<u8>,
}

impl BoxSpec {
    pub fn new(ty: &[u8; 4], form: SizeForm, payload: &[u8]) -> Self {
        BoxSpec { ty: *ty, form, payload: payload.to_vec() }
    }

    pub fn jxlp(index: u32, last: bool, form: SizeForm, data: &[u8]) -> Self {
        let mut p = (index | if last { 0x8000_0000 } else { 0 }).to_be_bytes().to_vec();
        p.extend_from_slice(data);
        BoxSpec { ty: *b"jxlp", form, payload: p }
    }

    pub fn brob(inner: &[u8; 4], form: SizeForm, raw: &[u8]) -> Self {
        let mut p = inner.to_vec();
        p.extend_from_slice(&brotli_stored(raw));
        BoxSpec { ty: *b"brob", form, payload: p }
    }

    pub fn write(&self, out: &mut Vec<u8>) {
        match self.form {
            SizeForm::S32 => {
                out.extend_from_slice(&((self.payload.len() + 8) as u32).to_be_bytes());
                out.extend_from_slice(&self.ty);
            }
            SizeForm::S64 => {
                out.extend_from_slice(&1u32.to_be_bytes());
                out.extend_from_slice(&self.ty);
                out.extend_from_slice(&((self.payload.len() + 16) as u64).to_be_bytes());
            }
            SizeForm::ToEof => {
                out.extend_from_slice(&0u32.to_be_bytes());
                out.extend_from_slice(&self.ty);
            }
            SizeForm::Raw32(v) => {
                out.extend_from_slice(&v.to_be_bytes());
                out.extend_from_slice(&self.ty);
            }
            SizeForm::Raw64(v) => {
                out.extend_from_slice(&1u32.to_be_bytes());
                out.extend_from_slice(&self.ty);
                out.extend_from_slice(&v.to_be_bytes());
            }
        }
        out.extend_from_slice(&self.payload);
    }
}

pub fn mux(boxes: &[BoxSpec]) -> Vec<u8> {
    let mut out = CONTAINER_SIG.to_vec();
    for b in boxes {
        b.write(&mut out);
    }
    out
}

/// Brotli stream made only of uncompressed meta-blocks (RFC 7932 section 9.2), WBITS = 16.
/// Layout: WBITS "0" (1 bit); for each chunk: ISLAST=0, MNIBBLES=4 (2 bits: 00), MLEN-1 (16 bits),
/// ISUNCOMPRESSED=1, pad to byte, raw bytes; finally ISLAST=1, ISLASTEMPTY=1.
pub fn brotli_stored(data: &[u8]) -> Vec<u8> {
    let mut w = crate::bits::BitWriter::new();
    w.write(1, 0); // WBITS = 16
    for chunk in data.chunks(65536) {
        w.write(1, 0); // ISLAST
        w.write(2, 0); // MNIBBLES = 4
        w.write(16, (chunk.len() - 1) as u64);
        w.write(1, 1); // ISUNCOMPRESSED
        w.zero_pad_to_byte();
        w.append_bytes(chunk);
    }
    w.write(1, 1); // ISLAST
    w.write(1, 1); // ISLASTEMPTY
    w.finish()
}

/// Inverse of `brotli_stored` (reference side only understands what the writer emits).
pub fn brotli_unstore(b: &[u8]) -> Option<Vec<u8>> {
    let mut pos = 0usize; // bit position
    let bit = |pos: &mut usize, n: u32| -> Option<u64> {
        let mut v = 0u64;
        for i in 0..n {
            let byte = *b.get(*pos / 8)?;
            v |= (((byte >> (*pos % 8)) & 1) as u64) << i;
            *pos += 1;
        }
        Some(v)
    };
    if bit(&mut pos, 1)? != 0 {
        return None;
    }
    let mut out = Vec::new();
    loop {
        if bit(&mut pos, 1)? == 1 {
            if bit(&mut pos, 1)? == 1 {
                return Some(out);
            }
            return None;
        }
        if bit(&mut pos, 2)? != 0 {
            return None;
        }
        let len = bit(&mut pos, 16)? as usize + 1;
        if bit(&mut pos, 1)? != 1 {
            return None;
        }
        pos = (pos + 7) / 8 * 8;
        let s = pos / 8;
        out.extend_from_slice(b.get(s..s + len)?);
        pos += 8 * len;
    }
}

#[derive(Clone, Debug, PartialEq, Eq)]
pub struct AuxBox {
    pub ty: [u8; 4],
    pub brotli: bool,
    /// payload as stored (for brob: the compressed bytes after the inner type)
    pub stored: Vec<u8>,
    /// whether the box ran to end of file
    pub to_eof: bool,
}

#[derive(Clone, Debug, PartialEq, Eq)]
pub enum Demux {
    Ok { codestream: Vec<u8>, aux: Vec<AuxBox> },
    Reject(&'static str),
}

/// Reference demuxer for a *complete* file that starts with the container signature.
pub fn reference_demux(file: &[u8]) -> Demux {
    assert!(file.starts_with(&CONTAINER_SIG));
    let mut p = CONTAINER_SIG.len();
    let mut codestream = Vec::new();
    let mut aux = Vec::new();
    let mut seen_jxlc = false;
    let mut jxlp_next: Option<u32> = None; // Some(n): n boxes seen
    let mut jxlp_done = false;
    while p < file.len() {
        if file.len() - p < 8 {
            // incomplete header at EOF: nothing more is delivered (not generated by the muxer)
            break;
        }
        let s32 = u32::from_be_bytes(file[p..p + 4].try_into().unwrap());
        let ty: [u8; 4] = file[p + 4..p + 8].try_into().unwrap();
        let (hdr, payload_len): (usize, Option<usize>) = if s32 == 1 {
            if file.len() - p < 16 {
                break;
            }
            let x = u64::from_be_bytes(file[p + 8..p + 16].try_into().unwrap());
            if x < 16 {
                return Demux::Reject("extended size < 16");
            }
            (16, Some((x - 16) as usize))
        } else if s32 == 0 {
            (8, None)
        } else if s32 < 8 {
            return Demux::Reject("size < 8");
        } else {
            (8, Some(s32 as usize - 8))
        };
        let start = p + hdr;
        let end = match payload_len {
            Some(n) => (start + n).min(file.len()),
            None => file.len(),
        };
        let payload = &file[start..end];
        let to_eof = payload_len.is_none();
        match &ty {
            b"jxlc" => {
                if seen_jxlc {
                    return Demux::Reject("duplicate jxlc");
                }
                if jxlp_next.is_some() {
                    return Demux::Reject("jxlc after jxlp");
                }
                seen_jxlc = true;
                codestream.extend_from_slice(payload);
            }
            b"jxlp" => {
                if seen_jxlc {
                    return Demux::Reject("jxlp after jxlc");
                }
                if jxlp_done {
                    return Demux::Reject("jxlp after last jxlp");
                }
                if let Some(n) = payload_len {
                    if n < 4 {
                        return Demux::Reject("jxlp smaller than its index");
                    }
                }
                if payload.len() < 4 {
                    // to-EOF box without a complete index: nothing delivered, cannot be judged
                    break;
                }
                let idx = u32::from_be_bytes(payload[..4].try_into().unwrap());
                let expected = jxlp_next.unwrap_or(0);
                if idx & 0x7fff_ffff != expected {
                    return Demux::Reject("jxlp out of order");
                }
                jxlp_next = Some(expected + 1);
                if idx & 0x8000_0000 != 0 {
                    jxlp_done = true;
                }
                codestream.extend_from_slice(&payload[4..]);
            }
            b"brob" => {
                if let Some(n) = payload_len {
                    if n < 4 {
                        return Demux::Reject("brob smaller than its inner type");
                    }
                }
                if payload.len() < 4 {
                    break;
                }
                let inner: [u8; 4] = payload[..4].try_into().unwrap();
                if &inner[..3] == b"jxl" || &inner == b"brob" || &inner == b"jbrd" {
                    return Demux::Reject("reserved type inside brob");
                }
                aux.push(AuxBox { ty: inner, brotli: true, stored: payload[4..].to_vec(), to_eof });
            }
            _ => {
                aux.push(AuxBox { ty, brotli: false, stored: payload.to_vec(), to_eof });
            }
        }
        p = end;
        if to_eof {
            break;
        }
    }
    Demux::Ok { codestream, aux }
}
