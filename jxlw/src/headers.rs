//! Image header, frame header and TOC writers (ISO/IEC 18181-1 Annex A/B/F), written from the
//! format definition.  Every U32 can be forced to a particular selector through `Sel`.

use crate::bits::{BitWriter, D};
use crate::entropy::{encode_stream, CodeOpts, Sym};

/// Optional selector override list: (field path, selector).  Fields consult it by name.
#[derive(Clone, Debug, Default)]
pub struct Sel(pub Vec<(String, usize)>);

impl Sel {
    pub fn get(&self, name: &str) -> Option<usize> {
        self.0.iter().find(|(n, _)| n == name).map(|x| x.1)
    }
}

fn u32f(w: &mut BitWriter, sel: &Sel, name: &str, d: [D; 4], v: u32) {
    match sel.get(name) {
        Some(s) => w.u32_sel(d, s, v),
        None => w.u32(d, v),
    }
}

fn u64f(w: &mut BitWriter, sel: &Sel, name: &str, v: u64) {
    match sel.get(name) {
        Some(s) => w.u64_sel(s, v),
        None => w.u64(v),
    }
}

// ------------------------------------------------------------------------------------------

#[derive(Clone, Debug, PartialEq)]
pub struct SizeHeader {
    pub width: u32,
    pub height: u32,
    /// force the div8 form (requires both divisible by 8 and <= 256) / force explicit
    pub div8: bool,
    /// ratio code 0..7 (0 = explicit width)
    pub ratio: u32,
}

pub fn ratio_width(ratio: u32, h: u32) -> u32 {
    let h = h as u64;
    (match ratio {
        1 => h,
        2 => h * 12 / 10,
        3 => h * 4 / 3,
        4 => h * 3 / 2,
        5 => h * 16 / 9,
        6 => h * 5 / 4,
        7 => h * 2,
        _ => unreachable!(),
    }) as u32
}

impl SizeHeader {
    pub fn new(width: u32, height: u32) -> Self {
        SizeHeader { width, height, div8: false, ratio: 0 }
    }
    pub fn write(&self, w: &mut BitWriter, sel: &Sel, p: &str) {
        const DD: [D; 4] = [D::BitsOffset(9, 1), D::BitsOffset(13, 1), D::BitsOffset(18, 1), D::BitsOffset(30, 1)];
        w.bool(self.div8);
        if self.div8 {
            assert!(self.height % 8 == 0 && self.height / 8 >= 1 && self.height / 8 <= 32);
            w.write(5, (self.height / 8 - 1) as u64);
        } else {
            u32f(w, sel, &format!("{p}.height"), DD, self.height);
        }
        w.write(3, self.ratio as u64);
        if self.ratio == 0 {
            if self.div8 {
                assert!(self.width % 8 == 0 && self.width / 8 >= 1 && self.width / 8 <= 32);
                w.write(5, (self.width / 8 - 1) as u64);
            } else {
                u32f(w, sel, &format!("{p}.width"), DD, self.width);
            }
        } else {
            assert_eq!(self.width, ratio_width(self.ratio, self.height));
        }
    }
}

#[derive(Clone, Debug, PartialEq)]
pub struct PreviewHeader {
    pub width: u32,
    pub height: u32,
    pub div8: bool,
    pub ratio: u32,
}

impl PreviewHeader {
    pub fn write(&self, w: &mut BitWriter, sel: &Sel) {
        const D8: [D; 4] = [D::Val(16), D::Val(32), D::BitsOffset(5, 1), D::BitsOffset(9, 33)];
        const DD: [D; 4] = [D::BitsOffset(6, 1), D::BitsOffset(8, 65), D::BitsOffset(10, 321), D::BitsOffset(12, 1345)];
        w.bool(self.div8);
        if self.div8 {
            assert!(self.height % 8 == 0);
            u32f(w, sel, "preview.height", D8, self.height / 8);
        } else {
            u32f(w, sel, "preview.height", DD, self.height);
        }
        w.write(3, self.ratio as u64);
        if self.ratio == 0 {
            if self.div8 {
                assert!(self.width % 8 == 0);
                u32f(w, sel, "preview.width", D8, self.width / 8);
            } else {
                u32f(w, sel, "preview.width", DD, self.width);
            }
        } else {
            assert_eq!(self.width, ratio_width(self.ratio, self.height));
        }
    }
}

#[derive(Clone, Debug, PartialEq)]
pub struct AnimationHeader {
    pub tps_numerator: u32,
    pub tps_denominator: u32,
    pub num_loops: u32,
    pub have_timecodes: bool,
}

impl AnimationHeader {
    pub fn write(&self, w: &mut BitWriter, sel: &Sel) {
        u32f(w, sel, "anim.num", [D::Val(100), D::Val(1000), D::BitsOffset(10, 1), D::BitsOffset(30, 1)], self.tps_numerator);
        u32f(w, sel, "anim.den", [D::Val(1), D::Val(1001), D::BitsOffset(8, 1), D::BitsOffset(10, 1)], self.tps_denominator);
        u32f(w, sel, "anim.loops", [D::Val(0), D::Bits(3), D::Bits(16), D::Bits(32)], self.num_loops);
        w.bool(self.have_timecodes);
    }
}

#[derive(Clone, Copy, Debug, PartialEq)]
pub struct BitDepth {
    pub float: bool,
    pub bits: u32,
    pub exp_bits: u32,
}

impl BitDepth {
    pub fn int(bits: u32) -> Self {
        BitDepth { float: false, bits, exp_bits: 0 }
    }
    pub fn float(bits: u32, exp_bits: u32) -> Self {
        BitDepth { float: true, bits, exp_bits }
    }
    pub fn write(&self, w: &mut BitWriter, sel: &Sel, p: &str) {
        w.bool(self.float);
        if !self.float {
            u32f(w, sel, &format!("{p}.bits"), [D::Val(8), D::Val(10), D::Val(12), D::BitsOffset(6, 1)], self.bits);
        } else {
            u32f(w, sel, &format!("{p}.bits"), [D::Val(32), D::Val(16), D::Val(24), D::BitsOffset(6, 1)], self.bits);
            w.write(4, (self.exp_bits - 1) as u64);
        }
    }
}

pub const EC_ALPHA: u32 = 0;
pub const EC_DEPTH: u32 = 1;
pub const EC_SPOT: u32 = 2;
pub const EC_SELECTION: u32 = 3;
pub const EC_BLACK: u32 = 4;
pub const EC_CFA: u32 = 5;
pub const EC_THERMAL: u32 = 6;
pub const EC_NONOPTIONAL: u32 = 15;
pub const EC_OPTIONAL: u32 = 16;

#[derive(Clone, Debug, PartialEq)]
pub struct ExtraChannelInfo {
    /// d_alpha: all-default alpha channel (8 bit, no shift, no name, not associated)
    pub all_default: bool,
    pub ty: u32,
    pub bit_depth: BitDepth,
    pub dim_shift: u32,
    pub name: Vec<u8>,
    pub alpha_associated: bool,
    pub spot: [u16; 4],
    pub cfa_channel: u32,
}

impl ExtraChannelInfo {
    pub fn default_alpha() -> Self {
        ExtraChannelInfo {
            all_default: true,
            ty: EC_ALPHA,
            bit_depth: BitDepth::int(8),
            dim_shift: 0,
            name: vec![],
            alpha_associated: false,
            spot: [0; 4],
            cfa_channel: 1,
        }
    }
    pub fn new(ty: u32, bit_depth: BitDepth) -> Self {
        ExtraChannelInfo { all_default: false, ty, bit_depth, ..Self::default_alpha() }
    }
    pub fn write(&self, w: &mut BitWriter, sel: &Sel, p: &str) {
        w.bool(self.all_default);
        if self.all_default {
            return;
        }
        w.enum_(self.ty);
        self.bit_depth.write(w, sel, &format!("{p}.depth"));
        u32f(w, sel, &format!("{p}.dim_shift"), [D::Val(0), D::Val(3), D::Val(4), D::BitsOffset(3, 1)], self.dim_shift);
        write_name(w, sel, &format!("{p}.name"), &self.name);
        if self.ty == EC_ALPHA {
            w.bool(self.alpha_associated);
        }
        if self.ty == EC_SPOT {
            for v in self.spot {
                w.f16_bits(v);
            }
        }
        if self.ty == EC_CFA {
            u32f(w, sel, &format!("{p}.cfa"), [D::Val(1), D::Bits(2), D::BitsOffset(4, 3), D::BitsOffset(8, 19)], self.cfa_channel);
        }
    }
}

pub fn write_name(w: &mut BitWriter, sel: &Sel, p: &str, name: &[u8]) {
    u32f(w, sel, p, [D::Val(0), D::Bits(4), D::BitsOffset(5, 16), D::BitsOffset(10, 48)], name.len() as u32);
    for &b in name {
        w.write(8, b as u64);
    }
}

pub const CS_RGB: u32 = 0;
pub const CS_GREY: u32 = 1;
pub const CS_XYB: u32 = 2;
pub const CS_UNKNOWN: u32 = 3;
pub const WP_D65: u32 = 1;
pub const WP_CUSTOM: u32 = 2;
pub const WP_E: u32 = 10;
pub const WP_DCI: u32 = 11;
pub const PR_SRGB: u32 = 1;
pub const PR_CUSTOM: u32 = 2;
pub const PR_2100: u32 = 9;
pub const PR_P3: u32 = 11;
pub const TF_709: u32 = 1;
pub const TF_UNKNOWN: u32 = 2;
pub const TF_LINEAR: u32 = 8;
pub const TF_SRGB: u32 = 13;
pub const TF_PQ: u32 = 16;
pub const TF_DCI: u32 = 17;
pub const TF_HLG: u32 = 18;

#[derive(Clone, Debug, PartialEq)]
pub struct ColourEncoding {
    pub all_default: bool,
    pub want_icc: bool,
    pub colour_space: u32,
    pub white_point: u32,
    pub white: (i32, i32),
    pub primaries: u32,
    pub red: (i32, i32),
    pub green: (i32, i32),
    pub blue: (i32, i32),
    pub have_gamma: bool,
    pub gamma: u32,
    pub transfer_function: u32,
    pub rendering_intent: u32,
}

impl ColourEncoding {
    pub fn srgb() -> Self {
        ColourEncoding {
            all_default: true,
            want_icc: false,
            colour_space: CS_RGB,
            white_point: WP_D65,
            white: (0, 0),
            primaries: PR_SRGB,
            red: (0, 0),
            green: (0, 0),
            blue: (0, 0),
            have_gamma: false,
            gamma: 0,
            transfer_function: TF_SRGB,
            rendering_intent: 1,
        }
    }
    pub fn grey() -> Self {
        ColourEncoding { all_default: false, colour_space: CS_GREY, ..Self::srgb() }
    }
    pub fn has_primaries(&self) -> bool {
        self.colour_space != CS_GREY && self.colour_space != CS_XYB
    }
    fn customxy(w: &mut BitWriter, sel: &Sel, p: &str, xy: (i32, i32)) {
        const DD: [D; 4] = [D::Bits(19), D::BitsOffset(19, 524288), D::BitsOffset(20, 1048576), D::BitsOffset(21, 2097152)];
        u32f(w, sel, &format!("{p}.x"), DD, crate::entropy::pack_signed(xy.0));
        u32f(w, sel, &format!("{p}.y"), DD, crate::entropy::pack_signed(xy.1));
    }
    pub fn write(&self, w: &mut BitWriter, sel: &Sel) {
        w.bool(self.all_default);
        if self.all_default {
            return;
        }
        w.bool(self.want_icc);
        w.enum_(self.colour_space);
        if !self.want_icc {
            if self.colour_space != CS_XYB {
                w.enum_(self.white_point);
                if self.white_point == WP_CUSTOM {
                    Self::customxy(w, sel, "white", self.white);
                }
            }
            if self.has_primaries() {
                w.enum_(self.primaries);
                if self.primaries == PR_CUSTOM {
                    Self::customxy(w, sel, "red", self.red);
                    Self::customxy(w, sel, "green", self.green);
                    Self::customxy(w, sel, "blue", self.blue);
                }
            }
            w.bool(self.have_gamma);
            if self.have_gamma {
                w.write(24, self.gamma as u64);
            } else {
                w.enum_(self.transfer_function);
            }
            w.enum_(self.rendering_intent);
        }
    }
}

#[derive(Clone, Debug, PartialEq)]
pub struct ToneMapping {
    pub all_default: bool,
    pub intensity_target: u16,
    pub min_nits: u16,
    pub relative_to_max_display: bool,
    pub linear_below: u16,
}

impl ToneMapping {
    pub fn default_() -> Self {
        ToneMapping { all_default: true, intensity_target: 0x5bf8, min_nits: 0, relative_to_max_display: false, linear_below: 0 }
    }
    pub fn write(&self, w: &mut BitWriter) {
        w.bool(self.all_default);
        if !self.all_default {
            w.f16_bits(self.intensity_target);
            w.f16_bits(self.min_nits);
            w.bool(self.relative_to_max_display);
            w.f16_bits(self.linear_below);
        }
    }
}

/// Extensions: (bit index, payload bit string as (nbits, value bits LSB-first in a BitWriter)).
#[derive(Clone, Debug, Default)]
pub struct Extensions {
    pub items: Vec<(u32, BitWriter)>,
}

impl Extensions {
    pub fn write(&self, w: &mut BitWriter, sel: &Sel, p: &str) {
        let mut mask = 0u64;
        for (i, _) in &self.items {
            mask |= 1u64 << i;
        }
        u64f(w, sel, &format!("{p}.mask"), mask);
        if mask == 0 {
            return;
        }
        let mut items = self.items.clone();
        items.sort_by_key(|x| x.0);
        for (k, (_, pl)) in items.iter().enumerate() {
            u64f(w, sel, &format!("{p}.bits{k}"), pl.bit_len() as u64);
        }
        for (_, pl) in &items {
            w.append(pl);
        }
    }
}

#[derive(Clone, Debug)]
pub struct OpsinInverseMatrix {
    pub all_default: bool,
    pub inv_mat: [u16; 9],
    pub opsin_bias: [u16; 3],
    pub quant_bias: [u16; 3],
    pub quant_bias_numerator: u16,
}

impl OpsinInverseMatrix {
    pub fn default_() -> Self {
        OpsinInverseMatrix { all_default: true, inv_mat: [0; 9], opsin_bias: [0; 3], quant_bias: [0; 3], quant_bias_numerator: 0 }
    }
    pub fn write(&self, w: &mut BitWriter) {
        w.bool(self.all_default);
        if !self.all_default {
            for v in self.inv_mat {
                w.f16_bits(v);
            }
            for v in self.opsin_bias {
                w.f16_bits(v);
            }
            for v in self.quant_bias {
                w.f16_bits(v);
            }
            w.f16_bits(self.quant_bias_numerator);
        }
    }
}

#[derive(Clone, Debug)]
pub struct ImageHeader {
    pub size: SizeHeader,
    pub all_default: bool,
    pub extra_fields: bool,
    pub orientation: u32,
    pub intrinsic_size: Option<SizeHeader>,
    pub preview: Option<PreviewHeader>,
    pub animation: Option<AnimationHeader>,
    pub bit_depth: BitDepth,
    pub modular_16bit_buffers: bool,
    pub ec_info: Vec<ExtraChannelInfo>,
    pub xyb_encoded: bool,
    pub colour_encoding: ColourEncoding,
    pub tone_mapping: ToneMapping,
    pub extensions: Extensions,
    pub default_m: bool,
    pub opsin_inverse_matrix: OpsinInverseMatrix,
    pub cw_mask: u32,
    pub up2_weight: Vec<u16>,
    pub up4_weight: Vec<u16>,
    pub up8_weight: Vec<u16>,
    /// embedded ICC stream already encoded (bits), written when colour_encoding.want_icc
    pub icc_stream: Option<BitWriter>,
}

impl ImageHeader {
    /// Non-XYB integer image, sRGB (or grey), for lossless Modular.
    pub fn simple(width: u32, height: u32, grey: bool, bits: u32) -> Self {
        ImageHeader {
            size: SizeHeader::new(width, height),
            all_default: false,
            extra_fields: false,
            orientation: 1,
            intrinsic_size: None,
            preview: None,
            animation: None,
            bit_depth: BitDepth::int(bits),
            modular_16bit_buffers: bits <= 12,
            ec_info: vec![],
            xyb_encoded: false,
            colour_encoding: if grey { ColourEncoding::grey() } else { ColourEncoding::srgb() },
            tone_mapping: ToneMapping::default_(),
            extensions: Extensions::default(),
            default_m: true,
            opsin_inverse_matrix: OpsinInverseMatrix::default_(),
            cw_mask: 0,
            up2_weight: vec![],
            up4_weight: vec![],
            up8_weight: vec![],
            icc_stream: None,
        }
    }

    pub fn num_colour_channels(&self) -> usize {
        if !self.xyb_encoded && self.colour_encoding.colour_space == CS_GREY && !self.colour_encoding.all_default {
            1
        } else {
            3
        }
    }

    /// Writes signature + SizeHeader + ImageMetadata (+ ICC) and pads to a byte.
    pub fn write(&self, w: &mut BitWriter, sel: &Sel) {
        w.write(8, 0xff);
        w.write(8, 0x0a);
        self.write_no_sig(w, sel);
        if self.colour_encoding.want_icc && !self.colour_encoding.all_default {
            if let Some(icc) = &self.icc_stream {
                w.append(icc);
            }
        }
        w.zero_pad_to_byte();
    }

    /// SizeHeader + ImageMetadata only (no signature, no ICC, no padding).
    pub fn write_no_sig(&self, w: &mut BitWriter, sel: &Sel) {
        self.size.write(w, sel, "size");
        w.bool(self.all_default);
        if !self.all_default {
            w.bool(self.extra_fields);
            if self.extra_fields {
                w.write(3, (self.orientation - 1) as u64);
                w.bool(self.intrinsic_size.is_some());
                if let Some(s) = &self.intrinsic_size {
                    s.write(w, sel, "intrinsic");
                }
                w.bool(self.preview.is_some());
                if let Some(p) = &self.preview {
                    p.write(w, sel);
                }
                w.bool(self.animation.is_some());
                if let Some(a) = &self.animation {
                    a.write(w, sel);
                }
            }
            self.bit_depth.write(w, sel, "depth");
            w.bool(self.modular_16bit_buffers);
            u32f(w, sel, "num_extra", [D::Val(0), D::Val(1), D::BitsOffset(4, 2), D::BitsOffset(12, 1)], self.ec_info.len() as u32);
            for (i, ec) in self.ec_info.iter().enumerate() {
                ec.write(w, sel, &format!("ec{i}"));
            }
            w.bool(self.xyb_encoded);
            self.colour_encoding.write(w, sel);
            if self.extra_fields {
                self.tone_mapping.write(w);
            }
            self.extensions.write(w, sel, "ext");
        }
        w.bool(self.default_m);
        if !self.default_m {
            // xyb_encoded defaults to true when the metadata is all_default
            if self.all_default || self.xyb_encoded {
                self.opsin_inverse_matrix.write(w);
            }
            w.write(3, self.cw_mask as u64);
            if self.cw_mask & 1 != 0 {
                assert_eq!(self.up2_weight.len(), 15);
                for &v in &self.up2_weight {
                    w.f16_bits(v);
                }
            }
            if self.cw_mask & 2 != 0 {
                assert_eq!(self.up4_weight.len(), 55);
                for &v in &self.up4_weight {
                    w.f16_bits(v);
                }
            }
            if self.cw_mask & 4 != 0 {
                assert_eq!(self.up8_weight.len(), 210);
                for &v in &self.up8_weight {
                    w.f16_bits(v);
                }
            }
        }
    }
}

// ------------------------------------------------------------------------------------------
// Frame header

pub const FT_REGULAR: u32 = 0;
pub const FT_LF: u32 = 1;
pub const FT_REFERENCE_ONLY: u32 = 2;
pub const FT_SKIP_PROGRESSIVE: u32 = 3;
pub const ENC_VARDCT: u32 = 0;
pub const ENC_MODULAR: u32 = 1;
pub const FLAG_NOISE: u64 = 1;
pub const FLAG_PATCHES: u64 = 2;
pub const FLAG_SPLINES: u64 = 16;
pub const FLAG_USE_LF_FRAME: u64 = 32;
pub const FLAG_SKIP_ADAPTIVE_LF_SMOOTHING: u64 = 128;

pub const BLEND_REPLACE: u32 = 0;
pub const BLEND_ADD: u32 = 1;
pub const BLEND_BLEND: u32 = 2;
pub const BLEND_MULADD: u32 = 3;
pub const BLEND_MUL: u32 = 4;

#[derive(Clone, Debug, PartialEq)]
pub struct BlendingInfo {
    pub mode: u32,
    pub alpha_channel: u32,
    pub clamp: bool,
    pub source: u32,
}

impl BlendingInfo {
    pub fn replace() -> Self {
        BlendingInfo { mode: BLEND_REPLACE, alpha_channel: 0, clamp: false, source: 0 }
    }
    pub fn write(&self, w: &mut BitWriter, sel: &Sel, p: &str, num_extra: usize, full_frame: bool) {
        u32f(w, sel, &format!("{p}.mode"), [D::Val(0), D::Val(1), D::Val(2), D::BitsOffset(2, 3)], self.mode);
        if num_extra > 0 {
            if self.mode == BLEND_BLEND || self.mode == BLEND_MULADD {
                u32f(w, sel, &format!("{p}.alpha"), [D::Val(0), D::Val(1), D::Val(2), D::BitsOffset(3, 3)], self.alpha_channel);
            }
            if self.mode == BLEND_BLEND || self.mode == BLEND_MULADD || self.mode == BLEND_MUL {
                w.bool(self.clamp);
            }
        }
        if self.mode != BLEND_REPLACE || !full_frame {
            w.write(2, self.source as u64);
        }
    }
}

#[derive(Clone, Debug, PartialEq)]
pub struct Passes {
    pub num_passes: u32,
    pub shift: Vec<u32>,
    pub downsample: Vec<u32>,
    pub last_pass: Vec<u32>,
}

impl Passes {
    pub fn one() -> Self {
        Passes { num_passes: 1, shift: vec![], downsample: vec![], last_pass: vec![] }
    }
    pub fn write(&self, w: &mut BitWriter, sel: &Sel) {
        u32f(w, sel, "passes.num", [D::Val(1), D::Val(2), D::Val(3), D::BitsOffset(3, 4)], self.num_passes);
        if self.num_passes != 1 {
            u32f(w, sel, "passes.num_ds", [D::Val(0), D::Val(1), D::Val(2), D::BitsOffset(1, 3)], self.downsample.len() as u32);
            assert_eq!(self.shift.len() as u32, self.num_passes - 1);
            for &s in &self.shift {
                w.write(2, s as u64);
            }
            for &d in &self.downsample {
                w.u32([D::Val(1), D::Val(2), D::Val(4), D::Val(8)], d);
            }
            assert_eq!(self.last_pass.len(), self.downsample.len());
            for &l in &self.last_pass {
                u32f(w, sel, "passes.last", [D::Val(0), D::Val(1), D::Val(2), D::Bits(3)], l);
            }
        }
    }
}

#[derive(Clone, Debug)]
pub struct RestorationFilter {
    pub all_default: bool,
    pub gab: bool,
    pub gab_custom: Option<[u16; 6]>,
    pub epf_iters: u32,
    pub epf_sharp_custom: Option<[u16; 8]>,
    pub epf_weight_custom: Option<[u16; 3]>,
    pub epf_sigma_custom: Option<Vec<u16>>,
    pub epf_sigma_for_modular: u16,
    pub extensions: Extensions,
}

impl RestorationFilter {
    pub fn none() -> Self {
        RestorationFilter {
            all_default: false,
            gab: false,
            gab_custom: None,
            epf_iters: 0,
            epf_sharp_custom: None,
            epf_weight_custom: None,
            epf_sigma_custom: None,
            epf_sigma_for_modular: 0x3c00,
            extensions: Extensions::default(),
        }
    }
    pub fn default_() -> Self {
        RestorationFilter { all_default: true, gab: true, epf_iters: 2, ..Self::none() }
    }
    pub fn write(&self, w: &mut BitWriter, sel: &Sel, encoding: u32) {
        w.bool(self.all_default);
        if self.all_default {
            return;
        }
        w.bool(self.gab);
        if self.gab {
            w.bool(self.gab_custom.is_some());
            if let Some(g) = &self.gab_custom {
                for &v in g {
                    w.f16_bits(v);
                }
            }
        }
        w.write(2, self.epf_iters as u64);
        if self.epf_iters > 0 {
            if encoding == ENC_VARDCT {
                w.bool(self.epf_sharp_custom.is_some());
                if let Some(g) = &self.epf_sharp_custom {
                    for &v in g {
                        w.f16_bits(v);
                    }
                }
            }
            w.bool(self.epf_weight_custom.is_some());
            if let Some(g) = &self.epf_weight_custom {
                for &v in g {
                    w.f16_bits(v);
                }
                w.write(32, 0);
            }
            w.bool(self.epf_sigma_custom.is_some());
            if let Some(g) = &self.epf_sigma_custom {
                // VarDCT: quant_mul, pass0_sigma_scale, pass2_sigma_scale, border_sad_mul ; Modular: last three
                let want = if encoding == ENC_VARDCT { 4 } else { 3 };
                assert_eq!(g.len(), want);
                for &v in g {
                    w.f16_bits(v);
                }
            }
            if encoding == ENC_MODULAR {
                w.f16_bits(self.epf_sigma_for_modular);
            }
        }
        self.extensions.write(w, sel, "rf.ext");
    }
}

#[derive(Clone, Debug)]
pub struct FrameHeader {
    pub all_default: bool,
    pub frame_type: u32,
    pub encoding: u32,
    pub flags: u64,
    pub do_ycbcr: bool,
    pub jpeg_upsampling: [u32; 3],
    pub upsampling: u32,
    pub ec_upsampling: Vec<u32>,
    pub group_size_shift: u32,
    pub x_qm_scale: u32,
    pub b_qm_scale: u32,
    pub passes: Passes,
    pub lf_level: u32,
    pub have_crop: bool,
    pub x0: i32,
    pub y0: i32,
    pub width: u32,
    pub height: u32,
    pub blending_info: BlendingInfo,
    pub ec_blending_info: Vec<BlendingInfo>,
    pub duration: u32,
    pub timecode: u32,
    pub is_last: bool,
    pub save_as_reference: u32,
    pub save_before_ct: bool,
    pub name: Vec<u8>,
    pub restoration_filter: RestorationFilter,
    pub extensions: Extensions,
}

impl FrameHeader {
    pub fn modular_lossless(img: &ImageHeader) -> Self {
        FrameHeader {
            all_default: false,
            frame_type: FT_REGULAR,
            encoding: ENC_MODULAR,
            flags: 0,
            do_ycbcr: false,
            jpeg_upsampling: [0; 3],
            upsampling: 1,
            ec_upsampling: vec![1; img.ec_info.len()],
            group_size_shift: 1,
            x_qm_scale: 3,
            b_qm_scale: 2,
            passes: Passes::one(),
            lf_level: 0,
            have_crop: false,
            x0: 0,
            y0: 0,
            width: 0,
            height: 0,
            blending_info: BlendingInfo::replace(),
            ec_blending_info: vec![BlendingInfo::replace(); img.ec_info.len()],
            duration: 0,
            timecode: 0,
            is_last: true,
            save_as_reference: 0,
            save_before_ct: false,
            name: vec![],
            restoration_filter: RestorationFilter::none(),
            extensions: Extensions::default(),
        }
    }

    /// Frame dimensions before upsampling / after crop.
    pub fn frame_size(&self, img: &ImageHeader) -> (u32, u32) {
        let (w, h) = if self.eff_have_crop() { (self.width, self.height) } else { (img.size.width, img.size.height) };
        if self.frame_type == FT_LF {
            // an LF frame codes the image downsampled by 8 per level
            let s = 3 * self.lf_level;
            return ((w + (1 << s) - 1) >> s, (h + (1 << s) - 1) >> s);
        }
        (w, h)
    }

    pub fn is_full_frame(&self, img: &ImageHeader) -> bool {
        if !self.eff_have_crop() {
            return true;
        }
        let (x0, y0) = if self.frame_type == FT_REFERENCE_ONLY { (0, 0) } else { (self.x0, self.y0) };
        x0 <= 0
            && y0 <= 0
            && (x0 as i64 + self.width as i64) >= img.size.width as i64
            && (y0 as i64 + self.height as i64) >= img.size.height as i64
    }

    pub fn normal_frame(&self) -> bool {
        self.frame_type == FT_REGULAR || self.frame_type == FT_SKIP_PROGRESSIVE
    }

    /// is_last as the format reads it back: only coded for normal frames, default `frame_type == Regular`.
    pub fn eff_is_last(&self) -> bool {
        if self.normal_frame() {
            self.is_last
        } else {
            self.frame_type == FT_REGULAR
        }
    }

    /// have_crop is not coded for LF frames.
    pub fn eff_have_crop(&self) -> bool {
        self.have_crop && self.frame_type != FT_LF
    }

    /// Whether save_before_ct is signalled explicitly.
    pub fn save_before_ct_signalled(&self, img: &ImageHeader) -> bool {
        if self.frame_type == FT_LF {
            return false;
        }
        let full = self.is_full_frame(img);
        let normal = self.normal_frame();
        let mode = if normal { self.blending_info.mode } else { BLEND_REPLACE };
        let duration = if normal && img.animation.is_some() { self.duration } else { 0 };
        let resets_canvas = full && mode == BLEND_REPLACE;
        let can_reference = !self.eff_is_last() && (duration == 0 || self.save_as_reference != 0);
        self.frame_type == FT_REFERENCE_ONLY || (self.normal_frame() && resets_canvas && can_reference)
    }

    pub fn write(&self, w: &mut BitWriter, sel: &Sel, img: &ImageHeader) {
        w.bool(self.all_default);
        if self.all_default {
            return;
        }
        let num_extra = img.ec_info.len();
        w.write(2, self.frame_type as u64);
        w.write(1, self.encoding as u64);
        u64f(w, sel, "flags", self.flags);
        if !img.xyb_encoded {
            w.bool(self.do_ycbcr);
        }
        let use_lf = self.flags & FLAG_USE_LF_FRAME != 0;
        let do_ycbcr = self.do_ycbcr && !img.xyb_encoded;
        if !use_lf {
            if do_ycbcr {
                for v in self.jpeg_upsampling {
                    w.write(2, v as u64);
                }
            }
            w.u32([D::Val(1), D::Val(2), D::Val(4), D::Val(8)], self.upsampling);
            for &e in &self.ec_upsampling {
                w.u32([D::Val(1), D::Val(2), D::Val(4), D::Val(8)], e);
            }
        }
        if self.encoding == ENC_MODULAR {
            w.write(2, self.group_size_shift as u64);
        }
        if self.encoding == ENC_VARDCT && img.xyb_encoded {
            w.write(3, self.x_qm_scale as u64);
            w.write(3, self.b_qm_scale as u64);
        }
        if self.frame_type != FT_REFERENCE_ONLY {
            self.passes.write(w, sel);
        }
        if self.frame_type == FT_LF {
            w.write(2, (self.lf_level - 1) as u64);
        } else {
            w.bool(self.have_crop);
        }
        if self.eff_have_crop() {
            const DD: [D; 4] = [D::Bits(8), D::BitsOffset(11, 256), D::BitsOffset(14, 2304), D::BitsOffset(30, 18688)];
            if self.frame_type != FT_REFERENCE_ONLY {
                u32f(w, sel, "x0", DD, crate::entropy::pack_signed(self.x0));
                u32f(w, sel, "y0", DD, crate::entropy::pack_signed(self.y0));
            }
            u32f(w, sel, "width", DD, self.width);
            u32f(w, sel, "height", DD, self.height);
        }
        if self.normal_frame() {
            let full = self.is_full_frame(img);
            self.blending_info.write(w, sel, "blend", num_extra, full);
            for (i, b) in self.ec_blending_info.iter().enumerate() {
                b.write(w, sel, &format!("ecblend{i}"), num_extra, full);
            }
            if let Some(a) = &img.animation {
                u32f(w, sel, "duration", [D::Val(0), D::Val(1), D::Bits(8), D::Bits(32)], self.duration);
                if a.have_timecodes {
                    w.write(32, self.timecode as u64);
                }
            }
            w.bool(self.is_last);
        }
        if self.frame_type != FT_LF && !self.eff_is_last() {
            w.write(2, self.save_as_reference as u64);
        }
        if self.save_before_ct_signalled(img) {
            w.bool(self.save_before_ct);
        }
        write_name(w, sel, "name", &self.name);
        self.restoration_filter.write(w, sel, self.encoding);
        self.extensions.write(w, sel, "fh.ext");
    }
}

// ------------------------------------------------------------------------------------------
// TOC

/// Lehmer code of a permutation `perm` (perm[i] = index of the element placed at i).
pub fn lehmer(perm: &[u32]) -> Vec<u32> {
    let n = perm.len();
    let mut temp: Vec<u32> = (0..n as u32).collect();
    let mut out = Vec::with_capacity(n);
    for &p in perm {
        let idx = temp.iter().position(|&x| x == p).unwrap();
        out.push(idx as u32);
        temp.remove(idx);
    }
    out
}

fn perm_ctx(x: u32) -> u32 {
    // context for permutation coding: min(7, ceil(log2(x + 1)))
    let mut n = 0;
    while (1u64 << n) < x as u64 + 1 {
        n += 1;
    }
    n.min(7)
}

/// Writes a permutation (Annex C.? "permutation decoding"): `end` = number of coded lehmer entries after `skip`.
pub fn write_permutation(w: &mut BitWriter, perm: &[u32], skip: usize, opts: &CodeOpts) {
    let size = perm.len();
    for i in 0..skip {
        assert_eq!(perm[i], i as u32);
    }
    let lehmer_full = lehmer(perm);
    let l = &lehmer_full[skip..];
    // strip trailing zeros
    let end = l.iter().rposition(|&x| x != 0).map(|p| p + 1).unwrap_or(0);
    let mut syms = vec![Sym::Val { ctx: perm_ctx(size as u32), value: end as u32 }];
    let mut prev = 0u32;
    for &v in &l[..end] {
        syms.push(Sym::Val { ctx: perm_ctx(prev), value: v });
        prev = v;
    }
    encode_stream(w, 8, &syms, opts);
}

/// Writes the TOC: `sizes` are section byte sizes in *bitstream order*; `perm` (if any) is the
/// permutation such that the section stored at position i of the bitstream is logical section perm[i]
/// hmm — see `Toc` in frame.rs for the convention used; this function just writes what it is given.
pub fn write_toc(w: &mut BitWriter, sel: &Sel, sizes: &[u32], permutation: Option<&[u32]>, opts: &CodeOpts) {
    w.bool(permutation.is_some());
    if let Some(p) = permutation {
        write_permutation(w, p, 0, opts);
    }
    w.zero_pad_to_byte();
    for (i, &s) in sizes.iter().enumerate() {
        u32f(
            w,
            sel,
            &format!("toc{i}"),
            [D::Bits(10), D::BitsOffset(14, 1024), D::BitsOffset(22, 17408), D::BitsOffset(30, 4211712)],
            s,
        );
    }
    w.zero_pad_to_byte();
}
