//! jxlw — independent reference writer / reference semantics for JPEG XL (no code shared with /repo).
pub mod bits;
pub mod container;
pub mod entropy;
pub mod headers;
pub mod modular;
pub mod frame;
pub mod model;
pub mod patches;
pub mod icc;
pub mod jpeg;
pub mod afv_table;
pub mod transforms;
