//! Baseline JPEG writer, and its lossless transcoding to JPEG XL (VarDCT, DCT8 only, raw quantisation
//! tables, YCbCr 4:4:4) together with the `jbrd` reconstruction box.  The JPEG bytes written here are
//! the oracle for C17: reconstruction must reproduce them exactly.

use crate::bits::{BitWriter, D};
use crate::container::{brotli_stored, mux, BoxSpec, SizeForm, FTYP_PAYLOAD};
use crate::entropy::{pack_signed, CodeOpts, CodeSpec, HybridCfg, Sym};
use crate::modular::{tokenize_channels, Channel, ModularHeader, Node, Tree, WpParams};

#[derive(Clone, Debug)]
pub struct HuffTable {
    /// counts[i] = number of codes of length i + 1 (16 entries)
    pub counts: [u8; 16],
    pub values: Vec<u8>,
}

impl HuffTable {
    pub fn codes(&self) -> Vec<Option<(u32, u8)>> {
        let mut out = vec![None; 256];
        let mut code = 0u32;
        let mut k = 0;
        for len in 1..=16u8 {
            for _ in 0..self.counts[len as usize - 1] {
                out[self.values[k] as usize] = Some((code, len));
                code += 1;
                k += 1;
            }
            code <<= 1;
        }
        out
    }

    pub fn std_dc_lum() -> Self {
        HuffTable { counts: [0, 1, 5, 1, 1, 1, 1, 1, 1, 0, 0, 0, 0, 0, 0, 0], values: (0..12).collect() }
    }
    pub fn std_dc_chr() -> Self {
        HuffTable { counts: [0, 3, 1, 1, 1, 1, 1, 1, 1, 1, 1, 0, 0, 0, 0, 0], values: (0..12).collect() }
    }
    /// A valid AC table covering every (run, size <= 10) symbol, EOB and ZRL (162 symbols).
    pub fn full_ac(variant: u32) -> Self {
        let mut syms: Vec<u8> = vec![0x00, 0xf0];
        for r in 0..16u8 {
            for s in 1..=10u8 {
                syms.push((r << 4) | s);
            }
        }
        let cost = |s: u8| -> i32 {
            if s == 0 {
                -1
            } else if s == 0xf0 {
                90
            } else {
                (s >> 4) as i32 * (13 + variant as i32) + (s & 15) as i32 * 17
            }
        };
        syms.sort_by_key(|&s| (cost(s), s));
        let counts = if variant % 2 == 0 { [0, 2, 1, 3, 3, 2, 4, 3, 5, 5, 4, 4, 0, 0, 1, 0x7d] } else { [0, 2, 1, 2, 4, 4, 3, 4, 7, 5, 4, 4, 0, 1, 2, 0x77] };
        HuffTable { counts, values: syms }
    }
    /// Minimal custom tables: only the symbols that occur, lengths from a Huffman construction (max 16).
    pub fn minimal(used: &[u64; 256]) -> Self {
        let mut counts64: Vec<u64> = used.to_vec();
        // JPEG forbids the all-ones code: add a dummy symbol with the smallest weight
        let n_used = counts64.iter().filter(|&&c| c > 0).count();
        if n_used == 0 {
            counts64[0] = 1;
        }
        if counts64.iter().filter(|&&c| c > 0).count() == 1 {
            let other = (0..256).find(|&i| counts64[i] == 0).unwrap();
            counts64[other] = 1;
        }
        // reserve the all-ones code: pretend there is an extra, least frequent symbol (index 256)
        counts64.push(1);
        let lengths = crate::entropy::huffman_lengths(&counts64, 16);
        let mut pairs: Vec<(u8, u16)> = (0..257u16).filter(|&i| lengths[i as usize] > 0).map(|i| (lengths[i as usize], i)).collect();
        // the reserved symbol must get the longest code and come last
        pairs.sort_by_key(|&(l, s)| (l, if s == 256 { 1 } else { 0 }, s));
        let maxl = pairs.last().unwrap().0;
        // make sure symbol 256 is among the longest; swap lengths if needed
        if let Some(p) = pairs.iter().position(|&(_, s)| s == 256) {
            let l = pairs[p].0;
            if l != maxl {
                let q = pairs.iter().position(|&(l2, _)| l2 == maxl).unwrap();
                pairs[q].0 = l;
                pairs[p].0 = maxl;
                pairs.sort_by_key(|&(l, s)| (l, if s == 256 { 1 } else { 0 }, s));
            }
        }
        let mut counts = [0u8; 16];
        let mut values = vec![];
        for &(l, s) in &pairs {
            if s == 256 {
                continue;
            }
            counts[l as usize - 1] += 1;
            values.push(s as u8);
        }
        HuffTable { counts, values }
    }
}

#[derive(Clone, Debug)]
pub enum Segment {
    /// APPn with raw payload (marker 0xe0..=0xef)
    App(u8, Vec<u8>),
    /// APP2 "ICC_PROFILE" chunk: this part of the profile (chunk index / count follow from the layout)
    Icc(Vec<u8>),
    /// APP1 "Exif\0\0" + payload (TIFF data)
    Exif(Vec<u8>),
    /// APP1 "http://ns.adobe.com/xap/1.0/\0" + payload
    Xmp(Vec<u8>),
    Com(Vec<u8>),
    Dqt,
    Sof,
    Dht,
    Dri,
    Sos,
}

#[derive(Clone, Debug)]
pub struct JpegSpec {
    pub w: usize,
    pub h: usize,
    pub ncomp: usize,
    /// quantisation tables in zigzag order
    pub quant: Vec<[u16; 64]>,
    pub comp_q: Vec<usize>,
    pub dc_tables: Vec<HuffTable>,
    pub ac_tables: Vec<HuffTable>,
    /// per component: (dc table, ac table)
    pub comp_tbl: Vec<(usize, usize)>,
    /// coef[c][block] = 64 coefficients in zigzag order (DC is the actual, not differential, value)
    pub coef: Vec<Vec<[i32; 64]>>,
    pub restart_interval: u32,
    pub layout: Vec<Segment>,
    /// bit used to fill the last byte before a marker
    pub pad_bit: u8,
    pub tail: Vec<u8>,
    /// (block index in scan order, number of explicit ZRL symbols written in front of its EOB)
    pub extra_zrl: Vec<(usize, usize)>,
    /// scan script; empty = one baseline scan of all components (the n-th `Segment::Sos` writes scan n)
    pub scans: Vec<Scan>,
    /// SOF2 (progressive) instead of SOF0
    pub progressive: bool,
    /// component identifiers in SOF / SOS; empty = 1, 2, 3 (or 1 for grey)
    pub comp_ids: Vec<u8>,
    /// sampling factors (H, V) per component; empty = 1x1 everywhere.  `coef[c]` is then laid out on
    /// the component's padded block grid `comp_grid(c)`.  Needs scripted scans.
    pub samp: Vec<(usize, usize)>,
}

/// One scan of a scripted JPEG.
#[derive(Clone, Debug)]
pub struct Scan {
    /// component indices, in scan order
    pub comps: Vec<usize>,
    pub ss: u8,
    pub se: u8,
    pub ah: u8,
    pub al: u8,
    /// progressive AC scans: the pending end-of-band run is written out before these blocks
    /// (block index in scan order) instead of being extended; recorded as reset points
    pub flush_before: Vec<usize>,
}

#[derive(Clone, Debug)]
enum Tok {
    Dc { tbl: usize, sym: u8, bits: u32, n: u32 },
    Ac { tbl: usize, sym: u8, bits: u32, n: u32 },
    Raw { bits: u32, n: u32 },
    Restart,
}

pub fn zigzag() -> [(usize, usize); 64] {
    // (col, row) of zigzag index k
    let mut out = [(0usize, 0usize); 64];
    let (mut x, mut y) = (0i32, 0i32);
    for k in 0..64 {
        out[k] = (x as usize, y as usize);
        if (x + y) % 2 == 0 {
            if x == 7 {
                y += 1;
            } else if y == 0 {
                x += 1;
            } else {
                x += 1;
                y -= 1;
            }
        } else if y == 7 {
            x += 1;
        } else if x == 0 {
            y += 1;
        } else {
            x -= 1;
            y += 1;
        }
    }
    out
}

struct MsbWriter {
    out: Vec<u8>,
    cur: u32,
    n: u32,
    pad_bits: Vec<u8>,
}

impl MsbWriter {
    fn put(&mut self, v: u32, n: u32) {
        for i in (0..n).rev() {
            self.cur = (self.cur << 1) | ((v >> i) & 1);
            self.n += 1;
            if self.n == 8 {
                self.out.push(self.cur as u8);
                if self.cur == 0xff {
                    self.out.push(0);
                }
                self.cur = 0;
                self.n = 0;
            }
        }
    }
    /// `bit`: 0 or 1 = constant fill; 2 = alternating 1, 0, 1, ... ; 3 = alternating 0, 1, 0, ...
    fn align(&mut self, bit: u8) {
        let mut k = 0u8;
        while self.n != 0 {
            let b = match bit {
                0 | 1 => bit,
                2 => (k + 1) % 2,
                _ => k % 2,
            };
            k += 1;
            self.pad_bits.push(b);
            self.put(b as u32, 1);
        }
    }
}

fn bitlen(v: i32) -> u32 {
    32 - (v.unsigned_abs()).leading_zeros()
}

/// Options of the VarDCT (JPEG-style) codestream writer.
pub const APP_ICC_TAG: &[u8] = b"ICC_PROFILE\0";
pub const APP_EXIF_TAG: &[u8] = b"Exif\0\0";
pub const APP_XMP_TAG: &[u8] = b"http://ns.adobe.com/xap/1.0/\0";

#[derive(Clone, Debug, Default)]
pub struct StreamOpts {
    /// ANS instead of prefix codes for the coefficient stream
    pub ans: bool,
    /// restoration filters: default Gabor + EPF, or Gabor + `epf_iters` iterations when non-zero
    pub filters: bool,
    pub epf_iters: u32,
    /// image is `cw x ch` and the frame is cropped at `(x0, y0)`
    pub canvas: Option<(u32, u32, i32, i32)>,
    pub no_ycbcr: bool,
    /// noise parameters (8 x 10 bit) and the kNoise frame flag
    pub noise: Option<[u32; 8]>,
    /// frame upsampling factor 1 / 2 / 4 / 8 (the image is that much larger)
    pub upsampling: u32,
    /// encoded ICC stream (output of `icc::write_icc_stream`) to embed; sets want_icc
    pub icc_stream: Option<BitWriter>,
    /// image has an animation header (needed for `duration`)
    pub animation: bool,
    pub duration: u32,
    /// frame is not the last one
    pub not_last: bool,
    pub save_as_reference: u32,
    /// blending of the frame onto reference slot `blend_source` (mode as in headers::BLEND_*; 0 = Replace)
    pub blend_mode: u32,
    pub blend_source: u32,
    /// patch dictionary (output of `patches::write_patches`) and the kPatches frame flag
    pub patches: Option<BitWriter>,
    /// spline dictionary (output of `patches::write_splines`) and the kSplines frame flag
    pub splines: Option<BitWriter>,
    /// add an 8-bit alpha extra channel (Modular-coded in the frame's global section; single-group frames)
    /// with `alpha_bits` bits per sample (0 = no alpha)
    pub alpha_bits: u32,
    /// HOSTILE streams only: value written as the transform type (DctSelect) of the first varblock instead of 0
    /// (DCT8); the coefficient data still describes 8x8 blocks
    pub hostile_dct_select: Option<i32>,
    /// write a Modular LF frame (lf_level 1, 1/8 size) first and let the VarDCT frame take its LF from it
    /// (flag kUseLfFrame; the LF coefficients are then not coded in the VarDCT frame)
    pub lf_frame: bool,
    /// tile the frame with varblocks of this transform type (DctSelect value, e.g. 21 = DCT128x128) wherever one fits
    /// entirely; the rest stays DCT8. The large blocks carry synthetic sparse coefficients (no JPEG meaning) and use
    /// the library-default quantisation matrices.
    pub big_blocks: Option<u8>,
    /// like `big_blocks`, but the transform type of each newly placed varblock is taken from this list in turn (a type
    /// that does not fit at the position falls back to DCT8)
    pub block_cycle: Vec<u8>,
    /// leave adaptive LF smoothing on (the kSkipAdaptiveLFSmoothing flag is not set)
    pub lf_smoothing: bool,
    /// non-zero chroma-from-luma maps (x_from_y, b_from_y per 64x64 tile)
    pub cfl: bool,
    /// HF quantisation multiplier varies from varblock to varblock (1..=5) instead of 1 everywhere
    pub hf_mul_varied: bool,
}

/// Size in 8x8 blocks (width, height) of a transform type (DctSelect value).
pub fn dct_select_size(t: u8) -> (usize, usize) {
    match t {
        0..=3 | 12..=17 => (1, 1),
        4 => (2, 2),
        5 => (4, 4),
        6 => (1, 2),
        7 => (2, 1),
        8 => (1, 4),
        9 => (4, 1),
        10 => (2, 4),
        11 => (4, 2),
        18 => (8, 8),
        19 => (4, 8),
        20 => (8, 4),
        21 => (16, 16),
        22 => (8, 16),
        23 => (16, 8),
        24 => (32, 32),
        25 => (16, 32),
        26 => (32, 16),
        _ => panic!("not a transform type"),
    }
}

impl JpegSpec {
    pub fn hv(&self, c: usize) -> (usize, usize) {
        self.samp.get(c).copied().unwrap_or((1, 1))
    }
    pub fn hv_max(&self) -> (usize, usize) {
        (0..self.ncomp).map(|c| self.hv(c)).fold((1, 1), |a, b| (a.0.max(b.0), a.1.max(b.1)))
    }
    /// number of MCUs of an interleaved scan, horizontally and vertically
    pub fn mcus(&self) -> (usize, usize) {
        let (hm, vm) = self.hv_max();
        ((self.w + 8 * hm - 1) / (8 * hm), (self.h + 8 * vm - 1) / (8 * vm))
    }
    /// block grid of component c including the blocks that only exist to fill the last MCUs
    pub fn comp_grid(&self, c: usize) -> (usize, usize) {
        let (mw, mh) = self.mcus();
        let (h, v) = self.hv(c);
        (mw * h, mh * v)
    }
    /// blocks of component c that cover its samples (what a non-interleaved scan codes)
    pub fn comp_blocks_real(&self, c: usize) -> (usize, usize) {
        let (hm, vm) = self.hv_max();
        let (h, v) = self.hv(c);
        let cw = (self.w * h + hm - 1) / hm;
        let ch = (self.h * v + vm - 1) / vm;
        ((cw + 7) / 8, (ch + 7) / 8)
    }
    /// full-resolution block grid (padded to whole MCUs)
    pub fn blocks_w(&self) -> usize {
        self.mcus().0 * self.hv_max().0
    }
    pub fn blocks_h(&self) -> usize {
        self.mcus().1 * self.hv_max().1
    }
    /// Blocks of a scan in coding order: (first block of an MCU?, component, index into `coef[c]`).
    fn scan_blocks(&self, comps: &[usize]) -> Vec<(bool, usize, usize)> {
        let mut out = vec![];
        if comps.len() > 1 {
            let (mw, mh) = self.mcus();
            for my in 0..mh {
                for mx in 0..mw {
                    let mut first = true;
                    for &c in comps {
                        let (h, v) = self.hv(c);
                        let gw = self.comp_grid(c).0;
                        for dy in 0..v {
                            for dx in 0..h {
                                out.push((first, c, (my * v + dy) * gw + mx * h + dx));
                                first = false;
                            }
                        }
                    }
                }
            }
        } else {
            let c = comps[0];
            let gw = self.comp_grid(c).0;
            let (rw, rh) = self.comp_blocks_real(c);
            for y in 0..rh {
                for x in 0..rw {
                    out.push((true, c, y * gw + x));
                }
            }
        }
        out
    }

    fn comp_id(&self, c: usize) -> u8 {
        self.comp_ids.get(c).copied().unwrap_or(c as u8 + 1)
    }

    /// Entropy-coding events of one scripted scan (sequential or progressive), per ITU-T T.81 F.1.2 / G.1.2.
    fn scan_tokens(&self, sc: &Scan) -> Vec<Tok> {
        let nb = self.blocks_w() * self.blocks_h();
        let mut t: Vec<Tok> = vec![];
        let mut pred = vec![0i32; self.ncomp];
        let vbits = |v: i32, size: u32| -> u32 { if v < 0 { (v + (1 << size) - 1) as u32 } else { v as u32 } };
        // progressive AC state
        let mut eobrun: u32 = 0;
        let mut be: Vec<u32> = vec![]; // buffered correction bits belonging to the pending EOB run
        let mut last_ac_tbl = 0usize;
        fn emit_eobrun(t: &mut Vec<Tok>, eobrun: &mut u32, be: &mut Vec<u32>, tbl: usize) {
            if *eobrun > 0 {
                let nbits = 31 - eobrun.leading_zeros();
                t.push(Tok::Ac { tbl, sym: (nbits << 4) as u8, bits: *eobrun & ((1 << nbits) - 1), n: nbits });
                *eobrun = 0;
                for b in be.drain(..) {
                    t.push(Tok::Raw { bits: b, n: 1 });
                }
            }
        }
        let _ = nb;
        let mut mcu_count = 0usize;
        for (this_block, (mcu_start, c, bi)) in self.scan_blocks(&sc.comps).into_iter().enumerate() {
            if mcu_start {
                if self.restart_interval > 0 && mcu_count > 0 && mcu_count as u32 % self.restart_interval == 0 {
                    emit_eobrun(&mut t, &mut eobrun, &mut be, last_ac_tbl);
                    t.push(Tok::Restart);
                    pred.iter_mut().for_each(|p| *p = 0);
                }
                mcu_count += 1;
            }
            {
                let blk = &self.coef[c][bi];
                let (dt, at) = self.comp_tbl[c];
                if !self.progressive {
                    // sequential: DC difference, then run/size pairs, EOB
                    let diff = blk[0] - pred[c];
                    pred[c] = blk[0];
                    let size = bitlen(diff);
                    t.push(Tok::Dc { tbl: dt, sym: size as u8, bits: vbits(diff, size), n: size });
                    let last_nz = (1..64).rev().find(|&k| blk[k] != 0).unwrap_or(0);
                    let mut run = 0u32;
                    for k in 1..=last_nz {
                        if blk[k] == 0 {
                            run += 1;
                            continue;
                        }
                        while run >= 16 {
                            t.push(Tok::Ac { tbl: at, sym: 0xf0, bits: 0, n: 0 });
                            run -= 16;
                        }
                        let size = bitlen(blk[k]);
                        t.push(Tok::Ac { tbl: at, sym: ((run << 4) | size) as u8, bits: vbits(blk[k], size), n: size });
                        run = 0;
                    }
                    if last_nz < 63 {
                        t.push(Tok::Ac { tbl: at, sym: 0, bits: 0, n: 0 });
                    }
                    continue;
                }
                let al = sc.al as u32;
                if sc.ss == 0 {
                    // DC scan (may be interleaved)
                    let v = blk[0] >> al; // arithmetic shift (point transform)
                    if sc.ah == 0 {
                        let diff = v - pred[c];
                        pred[c] = v;
                        let size = bitlen(diff);
                        t.push(Tok::Dc { tbl: dt, sym: size as u8, bits: vbits(diff, size), n: size });
                    } else {
                        t.push(Tok::Raw { bits: (v & 1) as u32, n: 1 });
                    }
                    continue;
                }
                // AC scan: one component, band ss..=se
                if sc.flush_before.contains(&this_block) {
                    emit_eobrun(&mut t, &mut eobrun, &mut be, last_ac_tbl);
                }
                if eobrun == 0 {
                    last_ac_tbl = at;
                }
                let (ss, se) = (sc.ss as usize, sc.se as usize);
                if sc.ah == 0 {
                    let mut r = 0u32;
                    for k in ss..=se {
                        let mag = (blk[k].unsigned_abs() >> al) as i32;
                        if mag == 0 {
                            r += 1;
                            continue;
                        }
                        emit_eobrun(&mut t, &mut eobrun, &mut be, last_ac_tbl);
                        last_ac_tbl = at;
                        while r > 15 {
                            t.push(Tok::Ac { tbl: at, sym: 0xf0, bits: 0, n: 0 });
                            r -= 16;
                        }
                        let size = bitlen(mag);
                        let bits = if blk[k] < 0 { (!mag as u32) & ((1 << size) - 1) } else { mag as u32 };
                        t.push(Tok::Ac { tbl: at, sym: ((r << 4) | size) as u8, bits, n: size });
                        r = 0;
                    }
                    if r > 0 {
                        eobrun += 1;
                        if eobrun == 0x7fff {
                            emit_eobrun(&mut t, &mut eobrun, &mut be, last_ac_tbl);
                        }
                    }
                } else {
                    // refinement: coefficients already non-zero send one correction bit, newly non-zero
                    // ones (magnitude exactly 1 after the point transform) a run/1 symbol and a sign bit
                    let abs: Vec<u32> = (0..64).map(|k| blk[k].unsigned_abs() >> al).collect();
                    let eob = (ss..=se).rev().find(|&k| abs[k] == 1).unwrap_or(0);
                    let mut r = 0u32;
                    let mut br: Vec<u32> = vec![];
                    for k in ss..=se {
                        if abs[k] == 0 {
                            r += 1;
                            continue;
                        }
                        while r > 15 && k <= eob {
                            emit_eobrun(&mut t, &mut eobrun, &mut be, last_ac_tbl);
                            last_ac_tbl = at;
                            t.push(Tok::Ac { tbl: at, sym: 0xf0, bits: 0, n: 0 });
                            r -= 16;
                            for b in br.drain(..) {
                                t.push(Tok::Raw { bits: b, n: 1 });
                            }
                        }
                        if abs[k] > 1 {
                            br.push(abs[k] & 1);
                            continue;
                        }
                        emit_eobrun(&mut t, &mut eobrun, &mut be, last_ac_tbl);
                        last_ac_tbl = at;
                        t.push(Tok::Ac { tbl: at, sym: ((r << 4) | 1) as u8, bits: if blk[k] < 0 { 0 } else { 1 }, n: 1 });
                        for b in br.drain(..) {
                            t.push(Tok::Raw { bits: b, n: 1 });
                        }
                        r = 0;
                    }
                    if r > 0 || !br.is_empty() {
                        eobrun += 1;
                        be.extend(br.drain(..));
                        // (libjpeg also ends a run when more than 937 correction bits are pending; such an early end would
                        // have to be recorded as a reset point in the jbrd data - the scripted reset points cover that case)
                        if eobrun == 0x7fff {
                            emit_eobrun(&mut t, &mut eobrun, &mut be, last_ac_tbl);
                        }
                    }
                }
            }
        }
        emit_eobrun(&mut t, &mut eobrun, &mut be, last_ac_tbl);
        t
    }

    /// Replaces the Huffman tables by minimal ones built from the symbol statistics of all scripted
    /// scans (progressive scans need end-of-band-run symbols that the standard tables do not have).
    pub fn rebuild_tables_for_scans(&mut self) {
        let mut dcu = vec![[0u64; 256]; self.dc_tables.len()];
        let mut acu = vec![[0u64; 256]; self.ac_tables.len()];
        for sc in &self.scans {
            for tk in self.scan_tokens(sc) {
                match tk {
                    Tok::Dc { tbl, sym, .. } => dcu[tbl][sym as usize] += 1,
                    Tok::Ac { tbl, sym, .. } => acu[tbl][sym as usize] += 1,
                    _ => {}
                }
            }
        }
        self.dc_tables = dcu.iter().map(HuffTable::minimal).collect();
        self.ac_tables = acu.iter().map(HuffTable::minimal).collect();
    }

    /// The JPEG file and the padding bits used (in order of the alignment events).
    pub fn write_jpeg(&self) -> (Vec<u8>, Vec<u8>) {
        let mut out = vec![0xff, 0xd8];
        let mut pad_bits_all = vec![];
        let mut icc_seen = 0u8;
        let mut scans_written = 0usize;
        for seg in &self.layout {
            match seg {
                Segment::App(m, data) => {
                    out.extend_from_slice(&[0xff, *m]);
                    out.extend_from_slice(&((data.len() + 2) as u16).to_be_bytes());
                    out.extend_from_slice(data);
                }
                Segment::Icc(data) => {
                    let total = self.layout.iter().filter(|s| matches!(s, Segment::Icc(_))).count() as u8;
                    icc_seen += 1;
                    out.extend_from_slice(&[0xff, 0xe2]);
                    out.extend_from_slice(&((data.len() + 2 + APP_ICC_TAG.len() + 2) as u16).to_be_bytes());
                    out.extend_from_slice(APP_ICC_TAG);
                    out.extend_from_slice(&[icc_seen, total]);
                    out.extend_from_slice(data);
                }
                Segment::Exif(data) => {
                    out.extend_from_slice(&[0xff, 0xe1]);
                    out.extend_from_slice(&((data.len() + 2 + APP_EXIF_TAG.len()) as u16).to_be_bytes());
                    out.extend_from_slice(APP_EXIF_TAG);
                    out.extend_from_slice(data);
                }
                Segment::Xmp(data) => {
                    out.extend_from_slice(&[0xff, 0xe1]);
                    out.extend_from_slice(&((data.len() + 2 + APP_XMP_TAG.len()) as u16).to_be_bytes());
                    out.extend_from_slice(APP_XMP_TAG);
                    out.extend_from_slice(data);
                }
                Segment::Com(data) => {
                    out.extend_from_slice(&[0xff, 0xfe]);
                    out.extend_from_slice(&((data.len() + 2) as u16).to_be_bytes());
                    out.extend_from_slice(data);
                }
                Segment::Dqt => {
                    let mut s = vec![];
                    for (i, q) in self.quant.iter().enumerate() {
                        let p16 = q.iter().any(|&v| v > 255);
                        s.push(i as u8 | if p16 { 0x10 } else { 0 });
                        for &v in q.iter() {
                            if p16 {
                                s.extend_from_slice(&v.to_be_bytes());
                            } else {
                                s.push(v as u8);
                            }
                        }
                    }
                    out.extend_from_slice(&[0xff, 0xdb]);
                    out.extend_from_slice(&((s.len() + 2) as u16).to_be_bytes());
                    out.extend_from_slice(&s);
                }
                Segment::Sof => {
                    let mut s = vec![8];
                    s.extend_from_slice(&(self.h as u16).to_be_bytes());
                    s.extend_from_slice(&(self.w as u16).to_be_bytes());
                    s.push(self.ncomp as u8);
                    for c in 0..self.ncomp {
                        let (hh, vv) = self.hv(c);
                        s.extend_from_slice(&[self.comp_id(c), ((hh << 4) | vv) as u8, self.comp_q[c] as u8]);
                    }
                    out.extend_from_slice(&[0xff, if self.progressive { 0xc2 } else { 0xc0 }]);
                    out.extend_from_slice(&((s.len() + 2) as u16).to_be_bytes());
                    out.extend_from_slice(&s);
                }
                Segment::Dht => {
                    let mut s = vec![];
                    for (i, t) in self.dc_tables.iter().enumerate() {
                        s.push(i as u8);
                        s.extend_from_slice(&t.counts);
                        s.extend_from_slice(&t.values);
                    }
                    for (i, t) in self.ac_tables.iter().enumerate() {
                        s.push(0x10 | i as u8);
                        s.extend_from_slice(&t.counts);
                        s.extend_from_slice(&t.values);
                    }
                    out.extend_from_slice(&[0xff, 0xc4]);
                    out.extend_from_slice(&((s.len() + 2) as u16).to_be_bytes());
                    out.extend_from_slice(&s);
                }
                Segment::Dri => {
                    out.extend_from_slice(&[0xff, 0xdd, 0, 4]);
                    out.extend_from_slice(&(self.restart_interval as u16).to_be_bytes());
                }
                Segment::Sos if !self.scans.is_empty() => {
                    let sc = &self.scans[scans_written];
                    scans_written += 1;
                    let mut s = vec![sc.comps.len() as u8];
                    for &c in &sc.comps {
                        s.extend_from_slice(&[self.comp_id(c), ((self.comp_tbl[c].0 as u8) << 4) | self.comp_tbl[c].1 as u8]);
                    }
                    s.extend_from_slice(&[sc.ss, sc.se, (sc.ah << 4) | sc.al]);
                    out.extend_from_slice(&[0xff, 0xda]);
                    out.extend_from_slice(&((s.len() + 2) as u16).to_be_bytes());
                    out.extend_from_slice(&s);
                    let dc_codes: Vec<_> = self.dc_tables.iter().map(|t| t.codes()).collect();
                    let ac_codes: Vec<_> = self.ac_tables.iter().map(|t| t.codes()).collect();
                    let mut bw = MsbWriter { out: vec![], cur: 0, n: 0, pad_bits: vec![] };
                    let mut rst = 0u8;
                    for tk in self.scan_tokens(sc) {
                        match tk {
                            Tok::Dc { tbl, sym, bits, n } => {
                                let (code, len) = dc_codes[tbl][sym as usize].expect("DC symbol has no code");
                                bw.put(code, len as u32);
                                bw.put(bits, n);
                            }
                            Tok::Ac { tbl, sym, bits, n } => {
                                let (code, len) = ac_codes[tbl][sym as usize].expect("AC symbol has no code");
                                bw.put(code, len as u32);
                                bw.put(bits, n);
                            }
                            Tok::Raw { bits, n } => bw.put(bits, n),
                            Tok::Restart => {
                                bw.align(self.pad_bit);
                                bw.out.extend_from_slice(&[0xff, 0xd0 + rst]);
                                rst = (rst + 1) % 8;
                            }
                        }
                    }
                    bw.align(self.pad_bit);
                    out.extend_from_slice(&bw.out);
                    pad_bits_all.extend_from_slice(&bw.pad_bits);
                }
                Segment::Sos => {
                    let mut s = vec![self.ncomp as u8];
                    for c in 0..self.ncomp {
                        s.extend_from_slice(&[self.comp_id(c), ((self.comp_tbl[c].0 as u8) << 4) | self.comp_tbl[c].1 as u8]);
                    }
                    s.extend_from_slice(&[0, 63, 0]);
                    out.extend_from_slice(&[0xff, 0xda]);
                    out.extend_from_slice(&((s.len() + 2) as u16).to_be_bytes());
                    out.extend_from_slice(&s);
                    // entropy-coded segment
                    let dc_codes: Vec<_> = self.dc_tables.iter().map(|t| t.codes()).collect();
                    let ac_codes: Vec<_> = self.ac_tables.iter().map(|t| t.codes()).collect();
                    let mut bw = MsbWriter { out: vec![], cur: 0, n: 0, pad_bits: vec![] };
                    let nb = self.blocks_w() * self.blocks_h();
                    let mut pred = vec![0i32; self.ncomp];
                    let mut rst = 0u8;
                    for mcu in 0..nb {
                        if self.restart_interval > 0 && mcu > 0 && mcu as u32 % self.restart_interval == 0 {
                            bw.align(self.pad_bit);
                            bw.out.extend_from_slice(&[0xff, 0xd0 + rst]);
                            rst = (rst + 1) % 8;
                            pred.iter_mut().for_each(|p| *p = 0);
                        }
                        for c in 0..self.ncomp {
                            let blk = &self.coef[c][mcu];
                            let (dt, at) = self.comp_tbl[c];
                            let diff = blk[0] - pred[c];
                            pred[c] = blk[0];
                            let size = bitlen(diff);
                            let (code, len) = dc_codes[dt][size as usize].expect("DC size has no code");
                            bw.put(code, len as u32);
                            if size > 0 {
                                let v = if diff < 0 { (diff + (1 << size) - 1) as u32 } else { diff as u32 };
                                bw.put(v, size);
                            }
                            let last_nz = (1..64).rev().find(|&k| blk[k] != 0).unwrap_or(0);
                            let mut run = 0;
                            for k in 1..=last_nz {
                                let v = blk[k];
                                if v == 0 {
                                    run += 1;
                                    continue;
                                }
                                while run >= 16 {
                                    let (code, len) = ac_codes[at][0xf0].expect("ZRL has no code");
                                    bw.put(code, len as u32);
                                    run -= 16;
                                }
                                let size = bitlen(v);
                                let (code, len) = ac_codes[at][((run << 4) | size as usize) & 0xff].expect("AC symbol has no code");
                                bw.put(code, len as u32);
                                let vv = if v < 0 { (v + (1 << size) - 1) as u32 } else { v as u32 };
                                bw.put(vv, size);
                                run = 0;
                            }
                            let block_idx = mcu * self.ncomp + c;
                            let nz = self.extra_zrl.iter().find(|e| e.0 == block_idx).map(|e| e.1).unwrap_or(0);
                            assert!(nz == 0 || 63 - last_nz > 16 * nz, "extra ZRLs do not fit");
                            for _ in 0..nz {
                                let (code, len) = ac_codes[at][0xf0].expect("ZRL has no code");
                                bw.put(code, len as u32);
                            }
                            if last_nz < 63 {
                                let (code, len) = ac_codes[at][0x00].expect("EOB has no code");
                                bw.put(code, len as u32);
                            }
                        }
                    }
                    bw.align(self.pad_bit);
                    out.extend_from_slice(&bw.out);
                    pad_bits_all.extend_from_slice(&bw.pad_bits);
                }
            }
        }
        out.extend_from_slice(&[0xff, 0xd9]);
        out.extend_from_slice(&self.tail);
        (out, pad_bits_all)
    }

    /// The `jbrd` box payload.
    pub fn write_jbrd(&self, pad_bits: &[u8]) -> Vec<u8> {
        let mut b = BitWriter::new();
        b.bool(self.ncomp == 1);
        let mut app_data: Vec<u8> = vec![];
        let mut com_data: Vec<u8> = vec![];
        for seg in &self.layout {
            let m: u8 = match seg {
                Segment::App(m, _) => *m,
                Segment::Icc(_) => 0xe2,
                Segment::Exif(_) | Segment::Xmp(_) => 0xe1,
                Segment::Com(_) => 0xfe,
                Segment::Dqt => 0xdb,
                Segment::Sof => if self.progressive { 0xc2 } else { 0xc0 },
                Segment::Dht => 0xc4,
                Segment::Dri => 0xdd,
                Segment::Sos => 0xda,
            };
            b.write(6, (m - 0xc0) as u64);
        }
        b.write(6, 0xd9 - 0xc0);
        for seg in &self.layout {
            let ty_sel = [D::Val(0), D::Val(1), D::BitsOffset(1, 2), D::BitsOffset(2, 4)];
            match seg {
                Segment::App(m, data) => {
                    b.u32(ty_sel, 0);
                    b.write(16, (data.len() + 3 - 1) as u64);
                    app_data.push(*m);
                    app_data.extend_from_slice(&((data.len() + 2) as u16).to_be_bytes());
                    app_data.extend_from_slice(data);
                }
                // typed markers: the payload lives in the codestream's ICC / the Exif box / the xml box;
                // the coded length is the JPEG segment length field
                Segment::Icc(data) => {
                    b.u32(ty_sel, 1);
                    b.write(16, (data.len() + 2 + APP_ICC_TAG.len() + 2) as u64);
                }
                Segment::Exif(data) => {
                    b.u32(ty_sel, 2);
                    b.write(16, (data.len() + 2 + APP_EXIF_TAG.len()) as u64);
                }
                Segment::Xmp(data) => {
                    b.u32(ty_sel, 3);
                    b.write(16, (data.len() + 2 + APP_XMP_TAG.len()) as u64);
                }
                _ => {}
            }
        }
        for seg in &self.layout {
            if let Segment::Com(data) = seg {
                b.write(16, (data.len() + 2 - 1) as u64);
                com_data.extend_from_slice(&((data.len() + 2) as u16).to_be_bytes());
                com_data.extend_from_slice(data);
            }
        }
        b.write(2, (self.quant.len() - 1) as u64);
        for (i, q) in self.quant.iter().enumerate() {
            b.write(1, q.iter().any(|&v| v > 255) as u64);
            b.write(2, i as u64);
            b.bool(i + 1 == self.quant.len());
        }
        // component type: 0 = gray (id 1), 1 = YCbCr (ids 1,2,3), 3 = explicit ids
        let ids: Vec<u8> = (0..self.ncomp).map(|c| self.comp_id(c)).collect();
        if ids == [1] {
            b.write(2, 0);
        } else if ids == [1, 2, 3] {
            b.write(2, 1);
        } else {
            b.write(2, 3);
            b.write(2, (self.ncomp - 1) as u64);
            for &i in &ids {
                b.write(8, i as u64);
            }
        }
        for c in 0..self.ncomp {
            b.write(2, self.comp_q[c] as u64);
        }
        let nh = self.dc_tables.len() + self.ac_tables.len();
        b.u32([D::Val(4), D::BitsOffset(3, 2), D::BitsOffset(4, 10), D::BitsOffset(6, 26)], nh as u32);
        let all: Vec<(bool, usize, &HuffTable)> = self.dc_tables.iter().enumerate().map(|(i, t)| (false, i, t)).chain(self.ac_tables.iter().enumerate().map(|(i, t)| (true, i, t))).collect();
        for (k, (is_ac, id, t)) in all.iter().enumerate() {
            b.bool(*is_ac);
            b.write(2, *id as u64);
            b.bool(k + 1 == all.len());
            let mut cnt = [0u32; 17];
            for i in 0..16 {
                cnt[i + 1] = t.counts[i] as u32;
            }
            // sentinel symbol (256) at the largest used depth
            let maxd = (1..=16).rev().find(|&d| cnt[d] > 0).unwrap_or(1);
            cnt[maxd] += 1;
            for x in cnt {
                b.u32([D::Val(0), D::Val(1), D::BitsOffset(3, 2), D::Bits(8)], x);
            }
            for v in t.values.iter().map(|&v| v as u32).chain([256u32]) {
                b.u32([D::Bits(2), D::BitsOffset(2, 4), D::BitsOffset(4, 8), D::BitsOffset(8, 1)], v);
            }
        }
        let legacy = [Scan { comps: (0..self.ncomp).collect(), ss: 0, se: 63, ah: 0, al: 0, flush_before: vec![] }];
        let scans: &[Scan] = if self.scans.is_empty() { &legacy } else { &self.scans };
        for sc in scans {
            b.write(2, (sc.comps.len() - 1) as u64);
            b.write(6, sc.ss as u64);
            b.write(6, sc.se as u64);
            b.write(4, sc.al as u64);
            b.write(4, sc.ah as u64);
            for &c in &sc.comps {
                b.write(2, c as u64);
                b.write(2, self.comp_tbl[c].1 as u64);
                b.write(2, self.comp_tbl[c].0 as u64);
            }
            b.u32([D::Val(0), D::Val(1), D::Val(2), D::BitsOffset(3, 3)], 0);
        }
        if self.layout.iter().any(|s| matches!(s, Segment::Dri)) {
            b.write(16, self.restart_interval as u64);
        }
        // scan more info of scripted scans: reset points (sorted, delta coded), no extra zero runs
        for sc in &self.scans {
            let mut rp = sc.flush_before.clone();
            rp.sort();
            rp.dedup();
            b.u32([D::Val(0), D::BitsOffset(2, 1), D::BitsOffset(4, 4), D::BitsOffset(16, 20)], rp.len() as u32);
            let mut last: Option<usize> = None;
            for bi in rp {
                let delta = match last {
                    None => bi,
                    Some(l) => bi - l - 1,
                };
                b.u32([D::Val(0), D::BitsOffset(3, 1), D::BitsOffset(5, 9), D::BitsOffset(28, 41)], delta as u32);
                last = Some(bi);
            }
            b.u32([D::Val(0), D::BitsOffset(2, 1), D::BitsOffset(4, 4), D::BitsOffset(16, 20)], 0);
        }
        if !self.scans.is_empty() {
            return self.finish_jbrd(b, app_data, com_data, pad_bits);
        }
        // scan more info: no reset points; explicit zero runs in front of EOB
        b.u32([D::Val(0), D::BitsOffset(2, 1), D::BitsOffset(4, 4), D::BitsOffset(16, 20)], 0);
        b.u32([D::Val(0), D::BitsOffset(2, 1), D::BitsOffset(4, 4), D::BitsOffset(16, 20)], self.extra_zrl.len() as u32);
        let mut ez = self.extra_zrl.clone();
        ez.sort();
        let mut last: Option<usize> = None;
        for (bi, n) in ez {
            b.u32([D::Val(1), D::BitsOffset(2, 2), D::BitsOffset(4, 5), D::BitsOffset(8, 20)], n as u32);
            let delta = match last {
                None => bi,
                Some(l) => bi - l - 1,
            };
            b.u32([D::Val(0), D::BitsOffset(3, 1), D::BitsOffset(5, 9), D::BitsOffset(28, 41)], delta as u32);
            last = Some(bi);
        }
        self.finish_jbrd(b, app_data, com_data, pad_bits)
    }

    fn finish_jbrd(&self, mut b: BitWriter, app_data: Vec<u8>, com_data: Vec<u8>, pad_bits: &[u8]) -> Vec<u8> {
        // (no intermarker data)
        b.u32([D::Val(0), D::BitsOffset(8, 1), D::BitsOffset(16, 257), D::BitsOffset(22, 65793)], self.tail.len() as u32);
        let non_default_padding = pad_bits.iter().any(|&x| x != 1);
        b.bool(non_default_padding);
        if non_default_padding {
            b.write(24, pad_bits.len() as u64);
            for &p in pad_bits {
                b.write(1, p as u64);
            }
        }
        let mut out = b.finish();
        let mut data = app_data;
        data.extend_from_slice(&com_data);
        data.extend_from_slice(&self.tail);
        out.extend_from_slice(&brotli_stored(&data));
        out
    }

    /// The JPEG XL codestream carrying the same coefficients (VarDCT, DCT8, YCbCr).
    pub fn write_codestream(&self, ans: bool) -> Vec<u8> {
        self.write_codestream_opts(ans, false, 0)
    }

    /// `filters`: Gabor + EPF with default parameters; `epf_iters` overrides the iteration count when non-zero.
    pub fn write_codestream_opts(&self, ans: bool, filters: bool, epf_iters: u32) -> Vec<u8> {
        self.write_codestream_cropped(ans, filters, epf_iters, None, true)
    }

    /// As `write_codestream_opts`; with `canvas = Some((cw, ch, x0, y0))` the image is cw x ch and the
    /// (single, last) frame is a cropped frame of this spec's size placed at (x0, y0).
    pub fn write_codestream_cropped(&self, ans: bool, filters: bool, epf_iters: u32, canvas: Option<(u32, u32, i32, i32)>, ycbcr: bool) -> Vec<u8> {
        self.write_codestream_with(&StreamOpts { ans, filters, epf_iters, canvas, no_ycbcr: !ycbcr, ..Default::default() })
    }

    /// General form: see `StreamOpts`.
    pub fn write_codestream_with(&self, o: &StreamOpts) -> Vec<u8> {
        let (_, mut out, frame) = self.stream_parts(o);
        out.extend_from_slice(&frame);
        out
    }

    /// The image header this spec + options imply, its serialisation, and the frame (preceded by its LF frame when
    /// `lf_frame` is set).  Frames of several calls with options that imply the same image header can be concatenated
    /// after one header (animations, reference frame + patched frame).
    pub fn stream_parts(&self, o: &StreamOpts) -> (crate::headers::ImageHeader, Vec<u8>, Vec<u8>) {
        use crate::headers::*;
        let StreamOpts { ans, filters, epf_iters, canvas, .. } = *o;
        let ycbcr = !o.no_ycbcr;
        let zz = zigzag();
        let (bw, bh) = (self.blocks_w(), self.blocks_h());
        let nb = bw * bh;
        // groups of 256x256 samples = 32x32 blocks (VarDCT frames have no other group size); an LF group is 8x8 groups, so
        // an image wider or taller than 2048 has several LF groups
        let gb = 32usize;
        let lfb = gb * 8;
        let (gcols, grows) = ((bw + gb - 1) / gb, (bh + gb - 1) / gb);
        let num_groups = gcols * grows;
        let (lfcols, lfrows) = ((bw + lfb - 1) / lfb, (bh + lfb - 1) / lfb);
        let nlf = lfcols * lfrows;
        assert!(nlf == 1 || (self.samp.is_empty() && o.big_blocks.is_none() && o.block_cycle.is_empty() && !o.lf_frame && o.hostile_dct_select.is_none()), "several LF groups: plain DCT8 frames only");
        let up = o.upsampling.max(1);
        assert!(up == 1 || canvas.is_none(), "upsampling is only written for uncropped frames");
        let (cw, ch) = canvas.map(|c| (c.0, c.1)).unwrap_or((self.w as u32 * up, self.h as u32 * up));
        let mut img = ImageHeader::simple(cw, ch, false, 8);
        img.modular_16bit_buffers = true;
        if o.animation {
            img.extra_fields = true;
            img.animation = Some(AnimationHeader { tps_numerator: 10, tps_denominator: 1, num_loops: 0, have_timecodes: false });
        }
        if o.alpha_bits > 0 {
            assert!(num_groups == 1 && canvas.is_none() && up == 1, "alpha: plain single-group frames only");
            img.ec_info = vec![ExtraChannelInfo::new(EC_ALPHA, BitDepth::int(o.alpha_bits))];
        }
        if let Some(icc) = &o.icc_stream {
            img.colour_encoding = ColourEncoding { all_default: false, want_icc: true, ..ColourEncoding::srgb() };
            img.icc_stream = Some(icc.clone());
        }
        let mut fh = FrameHeader::modular_lossless(&img);
        if let Some((_, _, x0, y0)) = canvas {
            fh.have_crop = true;
            fh.x0 = x0;
            fh.y0 = y0;
            fh.width = self.w as u32;
            fh.height = self.h as u32;
        }
        fh.encoding = ENC_VARDCT;
        fh.flags = if o.lf_smoothing { 0 } else { FLAG_SKIP_ADAPTIVE_LF_SMOOTHING } | if o.noise.is_some() { FLAG_NOISE } else { 0 } | if o.lf_frame { FLAG_USE_LF_FRAME } else { 0 } | if o.splines.is_some() { FLAG_SPLINES } else { 0 };
        assert!(!o.lf_frame || (self.samp.is_empty() && up == 1 && canvas.is_none()), "LF frame: plain frames only");
        fh.do_ycbcr = ycbcr;
        fh.upsampling = up;
        fh.is_last = !o.not_last;
        fh.duration = o.duration;
        fh.save_as_reference = o.save_as_reference;
        fh.blending_info = BlendingInfo { mode: o.blend_mode, alpha_channel: 0, clamp: false, source: o.blend_source };
        if o.alpha_bits > 0 {
            fh.ec_blending_info = vec![fh.blending_info.clone()];
        }
        if o.patches.is_some() {
            fh.flags |= FLAG_PATCHES;
        }
        if !self.samp.is_empty() {
            assert!(ycbcr && self.ncomp == 3, "chroma subsampling needs YCbCr");
            // coded in the codestream's channel order Cb, Y, Cr: 0 = 1x1, 1 = 2x2, 2 = 2x1, 3 = 1x2 samples per MCU
            let mode = |c: usize| match self.hv(c) {
                (1, 1) => 0,
                (2, 2) => 1,
                (2, 1) => 2,
                (1, 2) => 3,
                hv => panic!("sampling factors {hv:?} cannot be expressed"),
            };
            fh.jpeg_upsampling = [mode(1), mode(0), mode(2)];
        }
        if filters {
            fh.restoration_filter = RestorationFilter::default_();
            if epf_iters != 0 {
                fh.restoration_filter = RestorationFilter { gab: true, epf_iters, ..RestorationFilter::none() };
            }
        }
        let mut w = BitWriter::new();
        img.write(&mut w, &Sel::default());
        let header_bytes = w.finish();
        let mut out: Vec<u8> = vec![];
        let mut fw = BitWriter::new();
        fh.write(&mut fw, &Sel::default(), &img);

        // ---- modular sub-streams (global tree: single leaf, Zero predictor)
        let tree = Tree::new(&Node::leaf(0));
        let wp = WpParams::default();
        let comp_of_channel = |ch: usize| -> Option<usize> {
            // stream channel order Y, X(Cb), B(Cr)
            match (self.ncomp, ch) {
                (_, 0) => Some(0),
                (3, 1) => Some(1),
                (3, 2) => Some(2),
                _ => None,
            }
        };
        let (hm, vm) = self.hv_max();
        let mut lf: Vec<Channel> = (0..3)
            .map(|ch| match comp_of_channel(ch) {
                Some(c) => {
                    let (gw, gh) = self.comp_grid(c);
                    Channel::from_fn(gw, gh, |x, y| self.coef[c][y * gw + x][0])
                }
                None => Channel::new(bw, bh),
            })
            .collect();
        // block regions (x0, y0, w, h) of the LF groups
        let lf_regions: Vec<(usize, usize, usize, usize)> = (0..nlf).map(|g| ((g % lfcols) * lfb, (g / lfcols) * lfb)).map(|(x0, y0)| (x0, y0, (bw - x0).min(lfb), (bh - y0).min(lfb))).collect();
        let mut lf_syms_g: Vec<Vec<Sym>> = vec![];
        if nlf == 1 {
            let mut v = vec![];
            tokenize_channels(&mut lf, 0..3, 1, &tree, &wp, &mut v);
            lf_syms_g.push(v);
        } else {
            for (g, &(x0, y0, w, h)) in lf_regions.iter().enumerate() {
                let mut part: Vec<Channel> = lf.iter().map(|c| c.crop(x0, y0, w, h)).collect();
                let mut v = vec![];
                tokenize_channels(&mut part, 0..3, 1 + g as u32, &tree, &wp, &mut v);
                lf_syms_g.push(v);
            }
        }
        let (cw, chh) = ((self.w + 63) / 64, (self.h + 63) / 64);
        // varblock layout: `vb_of[block]` = transform type at the top-left block of a varblock, None where covered
        let mut vb_of: Vec<Option<u8>> = vec![Some(0); nb];
        if o.big_blocks.is_some() || !o.block_cycle.is_empty() {
            assert!(self.samp.is_empty(), "large varblocks: no chroma subsampling");
            let cycle: Vec<u8> = match o.big_blocks {
                Some(t) => vec![t],
                None => o.block_cycle.clone(),
            };
            let mut placed = 0usize;
            let mut occupied = vec![false; nb];
            for y in 0..bh {
                for x in 0..bw {
                    if occupied[y * bw + x] {
                        vb_of[y * bw + x] = None;
                        continue;
                    }
                    let t = cycle[placed % cycle.len()];
                    placed += 1;
                    let (tw, th) = dct_select_size(t);
                    let free = (0..th).all(|dy| (0..tw).all(|dx| x + dx < bw && y + dy < bh && !occupied[(y + dy) * bw + x + dx]));
                    if x % tw == 0 && y % th == 0 && x + tw <= bw && y + th <= bh && free {
                        vb_of[y * bw + x] = Some(t);
                        for dy in 0..th {
                            for dx in 0..tw {
                                occupied[(y + dy) * bw + x + dx] = true;
                            }
                        }
                    }
                }
            }
        }
        let vb_types: Vec<u8> = vb_of.iter().flatten().copied().collect();
        let nb = vb_types.len();
        let mut meta: Vec<Channel> = vec![Channel::new(cw, chh), Channel::new(cw, chh), Channel::new(nb, 2), Channel::new(bw, bh)];
        for (i, t) in vb_types.iter().enumerate() {
            meta[2].data[i] = *t as i32;
            if o.hf_mul_varied {
                meta[2].data[nb + i] = ((i * 7 + 3) % 5) as i32;
            }
        }
        if o.cfl {
            for k in 0..cw * chh {
                meta[0].data[k] = (k as i32 * 7) % 23 - 11;
                meta[1].data[k] = 9 - (k as i32 * 5) % 19;
            }
        }
        if let Some(v) = o.hostile_dct_select {
            meta[2].data[0] = v;
        }
        if filters {
            // EPF sharpness varies from block to block (it only steers the filter strength, not the coefficients)
            for y in 0..bh {
                for x in 0..bw {
                    meta[3].data[y * bw + x] = ((x * 3 + y * 5 + 1) % 8) as i32;
                }
            }
        }
        let mut meta_syms_g: Vec<Vec<Sym>> = vec![];
        let mut nb_g: Vec<usize> = vec![];
        if nlf == 1 {
            let mut v = vec![];
            tokenize_channels(&mut meta, 0..4, 1 + 2, &tree, &wp, &mut v);
            meta_syms_g.push(v);
            nb_g.push(nb);
        } else {
            // DCT8 only: the varblock index of a block is its raster index
            for (g, &(x0, y0, w, h)) in lf_regions.iter().enumerate() {
                let mut info = Channel::new(w * h, 2);
                for y in 0..h {
                    for x in 0..w {
                        info.data[w * h + y * w + x] = meta[2].data[nb + (y0 + y) * bw + x0 + x];
                    }
                }
                let mut part = vec![meta[0].crop(x0 / 8, y0 / 8, (w + 7) / 8, (h + 7) / 8), meta[1].crop(x0 / 8, y0 / 8, (w + 7) / 8, (h + 7) / 8), info, meta[3].crop(x0, y0, w, h)];
                let mut v = vec![];
                tokenize_channels(&mut part, 0..4, 1 + 2 * nlf as u32 + g as u32, &tree, &wp, &mut v);
                meta_syms_g.push(v);
                nb_g.push(w * h);
            }
        }
        // raw quantisation matrices for DCT8: channels X (Cb table), Y (luma table), B (Cr table)
        let table_of = |c: usize| -> &[u16; 64] {
            let comp = if self.ncomp == 1 { 0 } else { c };
            &self.quant[self.comp_q[comp]]
        };
        let mut qm: Vec<Channel> = [1usize, 0, 2]
            .iter()
            .map(|&c| {
                let t = table_of(c);
                let mut raw = [0i32; 64];
                for k in 0..64 {
                    let (cx, cy) = zz[k];
                    raw[cx * 8 + cy] = t[k] as i32;
                }
                Channel { w: 8, h: 8, hshift: 0, vshift: 0, data: raw.to_vec() }
            })
            .collect();
        let mut qm_syms = vec![];
        tokenize_channels(&mut qm, 0..3, 1 + 3 * nlf as u32, &tree, &wp, &mut qm_syms);
        // the alpha channel lives in GlobalModular (stream index 0)
        let mut alpha_syms = vec![];
        if o.alpha_bits > 0 {
            let maxv = (1i64 << o.alpha_bits) - 1;
            let mut a = vec![Channel::from_fn(self.w, self.h, |x, y| (((x * 29 + y * 53 + x * y * 7) % 97) as i64 * maxv / 96) as i32)];
            tokenize_channels(&mut a, 0..1, 0, &tree, &wp, &mut alpha_syms);
        }
        let mut all: Vec<Sym> = lf_syms_g.iter().flatten().copied().collect();
        all.extend_from_slice(&alpha_syms);
        all.extend(meta_syms_g.iter().flatten().copied());
        all.extend_from_slice(&qm_syms);
        let opts = CodeOpts { use_prefix: !ans, cfg: Some(HybridCfg::new(4, 2, 0)), ..Default::default() };
        let mcode = CodeSpec::build(1, &all, &opts);
        let tree_syms = tree.tokens();
        let tcode = CodeSpec::build(6, &tree_syms, &CodeOpts { use_prefix: true, ..Default::default() });
        let mhdr = ModularHeader { use_global_tree: true, wp: wp.clone(), transforms: vec![] };

        let mut s = BitWriter::new();
        // LfGlobal
        if let Some(p) = &o.patches {
            s.append(p);
        }
        if let Some(sp) = &o.splines {
            s.append(sp);
        }
        if let Some(n) = &o.noise {
            for &v in n {
                s.write(10, v as u64);
            }
        }
        s.bool(true); // lf dequant all_default
        s.u32([D::BitsOffset(11, 1), D::BitsOffset(11, 2049), D::BitsOffset(12, 4097), D::BitsOffset(16, 8193)], 1); // global_scale
        s.u32([D::Val(16), D::BitsOffset(5, 1), D::BitsOffset(8, 1), D::BitsOffset(16, 1)], 16); // quant_lf
        s.bool(true); // default HfBlockContext
        s.bool(false); // LfChannelCorrelation not all default
        s.u32([D::Val(84), D::Val(256), D::BitsOffset(8, 2), D::BitsOffset(16, 258)], 84);
        s.f16_bits(0);
        s.f16_bits(0);
        s.write(8, 128);
        s.write(8, 128);
        // GlobalModular: tree + code; no channels
        s.bool(true);
        tcode.write_header(&mut s);
        tcode.write_symbols(&mut s, &tree_syms);
        mcode.write_header(&mut s);
        if o.alpha_bits > 0 {
            mhdr.write(&mut s);
            mcode.write_symbols(&mut s, &alpha_syms);
        }
        let mut sections: Vec<BitWriter> = vec![];
        if num_groups > 1 {
            sections.push(std::mem::replace(&mut s, BitWriter::new()));
        }
        for g in 0..nlf {
            // LfGroup: LfCoeff (absent when the LF comes from an LF frame)
            if !o.lf_frame {
                s.write(2, 0);
                mhdr.write(&mut s);
                mcode.write_symbols(&mut s, &lf_syms_g[g]);
            }
            // HfMetadata
            let blocks = lf_regions[g].2 * lf_regions[g].3;
            let nbits = if blocks <= 1 { 0 } else { 32 - ((blocks - 1) as u32).leading_zeros() };
            s.write(nbits, (nb_g[g] - 1) as u64);
            mhdr.write(&mut s);
            mcode.write_symbols(&mut s, &meta_syms_g[g]);
            if num_groups > 1 {
                sections.push(std::mem::replace(&mut s, BitWriter::new()));
            }
        }
        // HfGlobal: dequant matrices
        s.bool(false);
        s.write(3, 7); // DCT8: RAW
        s.f16_bits(0x1004); // 1 / (8 * 255)
        mhdr.write(&mut s);
        mcode.write_symbols(&mut s, &qm_syms);
        for _ in 0..16 {
            s.write(3, 0);
        }
        // num_hf_presets - 1 in ceil(log2(num_groups)) bits: one preset
        let preset_bits = if num_groups <= 1 { 0 } else { 32 - ((num_groups - 1) as u32).leading_zeros() };
        s.write(preset_bits, 0);
        // HfPass: used_orders = 0
        s.u32([D::Val(0x5f), D::Val(0x13), D::Val(0), D::Bits(13)], 0);
        // HF coefficient tokens: every context goes to cluster 0
        let nctx = 495 * 15;
        let mut hf_syms: Vec<Sym> = vec![];
        // blocks group by group (raster inside each 32x32-block group); with one group this is plain raster order
        let mut group_sym_ranges: Vec<(usize, usize)> = vec![];
        let block_order: Vec<usize> = (0..num_groups)
            .flat_map(|g| {
                let (gx, gy) = (g % gcols, g / gcols);
                let (x1, y1) = (((gx + 1) * gb).min(bw), ((gy + 1) * gb).min(bh));
                (gy * gb..y1).flat_map(move |y| (gx * gb..x1).map(move |x| y * bw + x)).collect::<Vec<_>>()
            })
            .collect();
        let mut cur_group = usize::MAX;
        for blk in block_order {
            let (bx, by) = (blk % bw, blk / bw);
            let g = (by / gb) * gcols + bx / gb;
            if g != cur_group {
                if let Some(last) = group_sym_ranges.last_mut() {
                    last.1 = hf_syms.len();
                }
                group_sym_ranges.push((hf_syms.len(), hf_syms.len()));
                cur_group = g;
            }
            let Some(vt) = vb_of[blk] else { continue };
            if vt != 0 {
                // a large varblock: synthetic sparse coefficients after the LLF corner, in coefficient order
                let (tw, th) = dct_select_size(vt);
                let n = tw * th;
                for ch in 0..3usize {
                    let len = 64 * n - n;
                    let mut seq = vec![0i32; len];
                    let mut j = (blk * 7 + ch * 3) % 11;
                    while j < len.min(5 * n + 40) {
                        seq[j] = [1, -1, 2, -3, 1, 4, -2][(j + blk + ch) % 7];
                        j += 5 + (j * 13 + blk + ch) % 23;
                    }
                    if ch != 0 && blk % 3 == 1 {
                        seq.iter_mut().for_each(|v| *v = 0);
                    }
                    let nz = seq.iter().filter(|&&v| v != 0).count();
                    hf_syms.push(Sym::Val { ctx: 0, value: nz as u32 });
                    let mut left = nz;
                    for &v in seq.iter() {
                        if left == 0 {
                            break;
                        }
                        hf_syms.push(Sym::Val { ctx: 0, value: pack_signed(v) });
                        if v != 0 {
                            left -= 1;
                        }
                    }
                }
                continue;
            }
            for ch in 0..3usize {
                // channel order Y, X, B
                let comp = comp_of_channel(ch);
                let mut seq = [0i32; 63];
                if let Some(c) = comp {
                    // a subsampled channel has a block only at every (hs, vs)-th position
                    let (h, v) = self.hv(c);
                    let (hs, vs) = (hm / h, vm / v);
                    if bx % hs != 0 || by % vs != 0 {
                        continue;
                    }
                    let gw = self.comp_grid(c).0;
                    let b = &self.coef[c][(by / vs) * gw + bx / hs];
                    // coefficient at natural position (x, y) is the JPEG coefficient at (col = y, row = x)
                    let mut k_of = [[0usize; 8]; 8];
                    for k in 0..64 {
                        k_of[zz[k].1][zz[k].0] = k; // [row][col]
                    }
                    for j in 1..64 {
                        let (x, y) = zz[j];
                        seq[j - 1] = b[k_of[x][y]];
                    }
                }
                let nz = seq.iter().filter(|&&v| v != 0).count();
                hf_syms.push(Sym::Val { ctx: 0, value: nz as u32 });
                let mut left = nz;
                for &v in seq.iter() {
                    if left == 0 {
                        break;
                    }
                    hf_syms.push(Sym::Val { ctx: 0, value: pack_signed(v) });
                    if v != 0 {
                        left -= 1;
                    }
                }
            }
        }
        let hopts = CodeOpts { use_prefix: !ans, cluster_map: Some(vec![0; nctx]), cfg: Some(HybridCfg::new(4, 2, 0)), ..Default::default() };
        let hcode = CodeSpec::build(nctx, &hf_syms, &hopts);
        hcode.write_header(&mut s);
        if let Some(last) = group_sym_ranges.last_mut() {
            last.1 = hf_syms.len();
        }
        if num_groups == 1 {
            // PassGroup in the same (only) section
            hcode.write_symbols(&mut s, &hf_syms);
            sections.push(s);
        } else {
            sections.push(s);
            // one PassGroup section per group (hf preset selector: 0 bits for one preset)
            let mut states: Vec<BitWriter> = vec![];
            for &(a, b) in &group_sym_ranges {
                let mut g = BitWriter::new();
                hcode.write_symbols(&mut g, &hf_syms[a..b]);
                states.push(g);
            }
            sections.extend(states);
        }
        let sections: Vec<Vec<u8>> = sections.into_iter().map(|w| w.finish()).collect();
        let sizes: Vec<u32> = sections.iter().map(|b| b.len() as u32).collect();
        write_toc(&mut fw, &Sel::default(), &sizes, None, &CodeOpts::default());
        if o.lf_frame {
            // the LF frame: Modular, three channels of ceil(w/8) x ceil(h/8) samples derived from the DC values
            let mut lfh = FrameHeader::modular_lossless(&img);
            lfh.frame_type = FT_LF;
            lfh.lf_level = 1;
            lfh.is_last = false;
            let chans: Vec<Channel> = (0..3).map(|ch| Channel::from_fn(bw, bh, |x, y| (comp_of_channel(ch).map(|c| self.coef[c][y * bw + x][0]).unwrap_or(0) / 8 + 128).clamp(0, 255))).collect();
            let spec = crate::frame::ModularFrameSpec::new(lfh, chans);
            out.extend_from_slice(&crate::frame::write_modular_frame(&img, &spec).bytes);
        }
        out.extend_from_slice(&fw.finish());
        for sec in &sections {
            out.extend_from_slice(sec);
        }
        (img, header_bytes, out)
    }

    /// Container: ftyp, jbrd, jxlc (order selectable).
    /// The ICC profile carried by the APP2 chunks (concatenated), if any.
    pub fn icc_profile(&self) -> Option<Vec<u8>> {
        let mut v = vec![];
        let mut any = false;
        for s in &self.layout {
            if let Segment::Icc(d) = s {
                any = true;
                v.extend_from_slice(d);
            }
        }
        any.then_some(v)
    }

    /// ftyp + jbrd + jxlc (either order) + Exif / xml boxes for typed APP1 segments; the ICC profile of
    /// APP2 chunks goes into the codestream (`icc_stream` = its encoded form).  Returns (container, JPEG).
    pub fn write_container(&self, ans: bool, jbrd_first: bool) -> (Vec<u8>, Vec<u8>) {
        self.write_container_icc(ans, jbrd_first, None)
    }

    pub fn write_container_icc(&self, ans: bool, jbrd_first: bool, icc_stream: Option<BitWriter>) -> (Vec<u8>, Vec<u8>) {
        let (jpeg, pads) = self.write_jpeg();
        let jbrd = self.write_jbrd(&pads);
        assert_eq!(self.icc_profile().is_some(), icc_stream.is_some(), "ICC chunks need the encoded ICC stream");
        let cs = self.write_codestream_with(&StreamOpts { ans, icc_stream, ..Default::default() });
        let ftyp = BoxSpec::new(b"ftyp", SizeForm::S32, &FTYP_PAYLOAD);
        let jb = BoxSpec::new(b"jbrd", SizeForm::S32, &jbrd);
        let jc = BoxSpec::new(b"jxlc", SizeForm::S32, &cs);
        let mut meta = vec![];
        for s in &self.layout {
            match s {
                Segment::Exif(d) => {
                    let mut p = vec![0u8; 4]; // TIFF header offset
                    p.extend_from_slice(d);
                    meta.push(BoxSpec::new(b"Exif", SizeForm::S32, &p));
                }
                Segment::Xmp(d) => meta.push(BoxSpec::new(b"xml ", SizeForm::S32, d)),
                _ => {}
            }
        }
        let mut boxes = vec![ftyp];
        if jbrd_first {
            boxes.push(jb);
            boxes.extend(meta);
            boxes.push(jc);
        } else {
            boxes.push(jc);
            boxes.push(jb);
            boxes.extend(meta);
        }
        (mux(&boxes), jpeg)
    }
}
