//! Frame assembly: LfGlobal / group sections / TOC for Modular-encoded frames, and whole codestreams.

use crate::bits::BitWriter;
use crate::entropy::{CodeOpts, CodeSpec, Sym};
use crate::headers::*;
use crate::modular::*;

#[derive(Clone, Debug)]
pub struct ModularFrameSpec {
    pub header: FrameHeader,
    /// coded-domain channel list (after forward transforms, including meta channels)
    pub channels: Vec<Channel>,
    pub nb_meta: usize,
    /// transform headers for the global sub-bitstream, in bitstream order
    pub transforms: Vec<Transform>,
    pub tree: Node,
    /// tree + code signalled once in LfGlobal (else every sub-bitstream carries its own copy)
    pub global_tree: bool,
    pub wp: WpParams,
    pub code: CodeOpts,
    pub tree_code: CodeOpts,
    /// TOC permutation: bitstream position i holds logical section perm[i]
    pub toc_perm: Option<Vec<u32>>,
    pub toc_code: CodeOpts,
    /// extra bits written in LfGlobal before lf_dequant (patches / splines / noise dictionaries)
    pub lf_global_prefix: Option<BitWriter>,
    pub sel: Sel,
    /// with local trees: group streams in odd TOC sections use this tree instead
    pub alt_tree: Option<Node>,
    /// with `code.lz77` set: replace repeated runs of symbol values by LZ77 copies (0 = never; 1 = greedy, distances
    /// written with the special two-dimensional codes where one denotes the distance; 2 = greedy, distances always
    /// written as plain values >= 120)
    pub lz77_copies: u32,
    /// HOSTILE streams: replace `len` symbols of the global sub-bitstream starting at `pos` by one copy with this
    /// distance value, whether or not the window holds the same values: (pos, len, dist_value)
    pub lz77_force: Option<(usize, u32, u32)>,
}

/// Greedy LZ77 pass over the symbols of one sub-bitstream (`mult` = its distance multiplier, the largest channel width).
pub fn lz77_compress(syms: &[Sym], mult: u32, lz: &crate::entropy::Lz77, mode: u32) -> Vec<Sym> {
    let val = |s: &Sym| match *s {
        Sym::Val { value, .. } => value,
        Sym::Copy { .. } => unreachable!(),
    };
    let mut cands: Vec<u32> = vec![1, 2, 3, mult, mult + 1, mult.saturating_sub(1), 2 * mult, 2 * mult + 1, 7, 8 * mult + 7, 121, 130];
    cands.retain(|&d| d >= 1);
    cands.dedup();
    let mut out = Vec::with_capacity(syms.len());
    let mut i = 0usize;
    while i < syms.len() {
        let mut best = (0usize, 0u32);
        for &d in &cands {
            let d = d as usize;
            if d > i {
                continue;
            }
            let mut k = 0;
            while i + k < syms.len() && val(&syms[i + k]) == val(&syms[i + k - d]) {
                k += 1;
            }
            if k > best.0 {
                best = (k, d as u32);
            }
        }
        if best.0 >= lz.min_length as usize && best.0 >= 1 {
            let d = best.1;
            let special = if mode == 1 && mult != 0 { (0..120u32).find(|&v| crate::entropy::lz77_distance(v, mult) == d) } else { None };
            let dist_value = match special {
                Some(v) => v,
                None if mult == 0 => d - 1,
                None => d + 119,
            };
            let ctx = match syms[i] {
                Sym::Val { ctx, .. } => ctx,
                _ => unreachable!(),
            };
            out.push(Sym::Copy { ctx, len: best.0 as u32, dist_value });
            i += best.0;
        } else {
            out.push(syms[i]);
            i += 1;
        }
    }
    out
}

impl ModularFrameSpec {
    pub fn new(header: FrameHeader, channels: Vec<Channel>) -> Self {
        ModularFrameSpec {
            header,
            channels,
            nb_meta: 0,
            transforms: vec![],
            tree: Node::leaf(0),
            global_tree: true,
            wp: WpParams::default(),
            code: CodeOpts { use_prefix: true, ..Default::default() },
            tree_code: CodeOpts { use_prefix: true, ..Default::default() },
            toc_perm: None,
            toc_code: CodeOpts { use_prefix: true, ..Default::default() },
            lf_global_prefix: None,
            sel: Sel::default(),
            alt_tree: None,
            lz77_copies: 0,
            lz77_force: None,
        }
    }
}

struct Stream {
    /// logical TOC index
    section: usize,
    stream_index: u32,
    /// indices into the frame channel list + crop rect
    parts: Vec<(usize, usize, usize, usize, usize)>,
}

fn shift_bracket(passes: &Passes, pass: u32) -> (i32, i32) {
    let mut max_shift = 2i32;
    let mut min_shift = 3i32;
    let mut i = 0u32;
    loop {
        for (j, &lp) in passes.last_pass.iter().enumerate() {
            if lp == i {
                min_shift = match passes.downsample[j] {
                    8 => 3,
                    4 => 2,
                    2 => 1,
                    _ => 0,
                };
            }
        }
        if i == passes.num_passes - 1 {
            min_shift = 0;
        }
        if i == pass {
            return (min_shift, max_shift);
        }
        max_shift = min_shift - 1;
        i += 1;
    }
}

pub struct EncodedFrame {
    pub bytes: Vec<u8>,
    /// ground truth of the coded-domain channels (after multiplier adjustment)
    pub channels: Vec<Channel>,
    pub num_sections: usize,
    pub section_sizes: Vec<u32>,
    pub header_bytes: usize,
    /// LZ77 copies written (all sub-bitstreams)
    pub lz77_copies: usize,
}

/// Writes one Modular-encoded frame (header, TOC, sections).  `frame_w`/`frame_h`: frame size in
/// samples after dividing by `upsampling` (what the group grid is computed from).
pub fn write_modular_frame(img: &ImageHeader, spec: &ModularFrameSpec) -> EncodedFrame {
    let fh = &spec.header;
    let (fw, fh_) = fh.frame_size(img);
    let up = fh.upsampling.max(1);
    let frame_w = ((fw + up - 1) / up) as usize;
    let frame_h = ((fh_ + up - 1) / up) as usize;
    let gd = 128usize << fh.group_size_shift;
    let gcols = (frame_w + gd - 1) / gd;
    let grows = (frame_h + gd - 1) / gd;
    let num_groups = gcols * grows;
    let lgd = gd * 8;
    let lgcols = (frame_w + lgd - 1) / lgd;
    let lgrows = (frame_h + lgd - 1) / lgd;
    let num_lf_groups = lgcols * lgrows;
    let num_passes = fh.passes.num_passes as usize;
    let single = num_groups == 1 && num_passes == 1;

    let mut channels = spec.channels.clone();
    // global part
    let mut global_end = channels.len();
    for (c, ch) in channels.iter().enumerate() {
        if c >= spec.nb_meta && (ch.w > gd || ch.h > gd) {
            global_end = c;
            break;
        }
    }
    let tree = Tree::new(&spec.tree);
    let alt = spec.alt_tree.as_ref().filter(|_| !spec.global_tree).map(Tree::new);
    let tree_for = |section: usize| -> &Tree {
        match &alt {
            Some(a) if section % 2 == 1 => a,
            _ => &tree,
        }
    };

    // streams
    let mut streams: Vec<Stream> = Vec::new();
    for lg in 0..num_lf_groups {
        let (lgx, lgy) = (lg % lgcols, lg / lgcols);
        let mut parts = Vec::new();
        for c in global_end..channels.len() {
            let ch = &channels[c];
            if ch.w == 0 || ch.h == 0 {
                continue;
            }
            if !(ch.hshift >= 3 && ch.vshift >= 3) {
                continue;
            }
            let x0 = (lgx * lgd) >> ch.hshift;
            let y0 = (lgy * lgd) >> ch.vshift;
            if x0 >= ch.w || y0 >= ch.h {
                continue;
            }
            let w = (lgd >> ch.hshift).min(ch.w - x0);
            let h = (lgd >> ch.vshift).min(ch.h - y0);
            if w == 0 || h == 0 {
                continue;
            }
            parts.push((c, x0, y0, w, h));
        }
        streams.push(Stream { section: 1 + lg, stream_index: (1 + num_lf_groups + lg) as u32, parts });
    }
    for pass in 0..num_passes {
        let (min_shift, max_shift) = shift_bracket(&fh.passes, pass as u32);
        for g in 0..num_groups {
            let (gx, gy) = (g % gcols, g / gcols);
            let mut parts = Vec::new();
            for c in global_end..channels.len() {
                let ch = &channels[c];
                if ch.w == 0 || ch.h == 0 {
                    continue;
                }
                if ch.hshift >= 3 && ch.vshift >= 3 {
                    continue;
                }
                let shift = ch.hshift.min(ch.vshift);
                if shift > max_shift || shift < min_shift {
                    continue;
                }
                let x0 = (gx * gd) >> ch.hshift;
                let y0 = (gy * gd) >> ch.vshift;
                if x0 >= ch.w || y0 >= ch.h {
                    continue;
                }
                let w = (gd >> ch.hshift).min(ch.w - x0);
                let h = (gd >> ch.vshift).min(ch.h - y0);
                if w == 0 || h == 0 {
                    continue;
                }
                parts.push((c, x0, y0, w, h));
            }
            streams.push(Stream {
                section: 1 + num_lf_groups + 1 + pass * num_groups + g,
                stream_index: (1 + 3 * num_lf_groups + 17 + num_groups * pass + g) as u32,
                parts,
            });
        }
    }

    // tokenise: global stream, then every group stream
    let mut global_syms: Vec<Sym> = Vec::new();
    tokenize_channels(&mut channels, 0..global_end, 0, &tree, &spec.wp, &mut global_syms);
    let mut stream_syms: Vec<Vec<Sym>> = Vec::new();
    for s in &streams {
        let mut sub: Vec<Channel> = s.parts.iter().map(|&(c, x0, y0, w, h)| channels[c].crop(x0, y0, w, h)).collect();
        let mut syms = Vec::new();
        let n = sub.len();
        tokenize_channels(&mut sub, 0..n, s.stream_index, tree_for(s.section), &spec.wp, &mut syms);
        // write back adjusted samples
        for (k, &(c, x0, y0, w, h)) in s.parts.iter().enumerate() {
            for y in 0..h {
                for x in 0..w {
                    let cw = channels[c].w;
                    channels[c].data[(y0 + y) * cw + x0 + x] = sub[k].data[y * w + x];
                }
            }
        }
        if let (Some(lz), true) = (&spec.code.lz77, spec.lz77_copies != 0) {
            // the multiplier is the largest width over the channel list of the sub-bitstream, channels without samples (zero
            // height) included: this is what libjxl's loop does as well
            let mult = sub.iter().map(|c| c.w as u32).max().unwrap_or(0);
            syms = lz77_compress(&syms, mult, lz, spec.lz77_copies);
        }
        stream_syms.push(syms);
    }
    if let (Some(lz), true) = (&spec.code.lz77, spec.lz77_copies != 0) {
        let mult = channels[..global_end].iter().map(|c| c.w as u32).max().unwrap_or(0);
        global_syms = lz77_compress(&global_syms, mult, lz, spec.lz77_copies);
    }

    if let (Some(_), Some((pos, len, dv))) = (&spec.code.lz77, spec.lz77_force) {
        if pos + len as usize <= global_syms.len() {
            let ctx = match global_syms[pos] {
                Sym::Val { ctx, .. } | Sym::Copy { ctx, .. } => ctx,
            };
            global_syms.splice(pos..pos + len as usize, [Sym::Copy { ctx, len, dist_value: dv }]);
        }
    }
    let lz77_copies = global_syms.iter().chain(stream_syms.iter().flatten()).filter(|s| matches!(s, Sym::Copy { .. })).count();
    let tree_syms = tree.tokens();
    let tree_spec = CodeSpec::build(6, &tree_syms, &spec.tree_code);
    let write_tree = |w: &mut BitWriter, syms_for_code: &[Sym]| -> CodeSpec {
        tree_spec.write_header(w);
        tree_spec.write_symbols(w, &tree_syms);
        let code = CodeSpec::build(tree.num_leaves, syms_for_code, &spec.code);
        code.write_header(w);
        code
    };

    // sections
    let n_sections = if single { 1 } else { 1 + num_lf_groups + 1 + num_passes * num_groups };
    let mut sections: Vec<BitWriter> = (0..n_sections).map(|_| BitWriter::new()).collect();
    {
        let w = &mut sections[0];
        if let Some(p) = &spec.lf_global_prefix {
            w.append(p);
        }
        w.bool(true); // lf_dequant.all_default
        let mut global_code: Option<CodeSpec> = None;
        w.bool(spec.global_tree);
        if spec.global_tree {
            let mut all: Vec<Sym> = global_syms.clone();
            for s in &stream_syms {
                all.extend_from_slice(s);
            }
            global_code = Some(write_tree(w, &all));
        }
        let hdr = ModularHeader { use_global_tree: spec.global_tree, wp: spec.wp.clone(), transforms: spec.transforms.clone() };
        hdr.write(w);
        let code = match &global_code {
            Some(c) => c.clone(),
            None => write_tree(w, &global_syms),
        };
        // channel data of the global stream.  The symbol reader is initialised (ANS: 32-bit state) even when
        // no channel is small enough to be coded here; only an empty channel list writes nothing.
        if !channels.is_empty() {
            code.write_symbols(w, &global_syms);
        }
        for (s, syms) in streams.iter().zip(&stream_syms) {
            if s.parts.is_empty() {
                continue;
            }
            let mut sw = BitWriter::new();
            let hdr = ModularHeader { use_global_tree: spec.global_tree, wp: spec.wp.clone(), transforms: vec![] };
            hdr.write(&mut sw);
            let c = match &global_code {
                Some(c) => c.clone(),
                None => {
                    let t = tree_for(s.section);
                    let tsyms = t.tokens();
                    let tspec = CodeSpec::build(6, &tsyms, &spec.tree_code);
                    tspec.write_header(&mut sw);
                    tspec.write_symbols(&mut sw, &tsyms);
                    let code = CodeSpec::build(t.num_leaves, syms, &spec.code);
                    code.write_header(&mut sw);
                    code
                }
            };
            c.write_symbols(&mut sw, syms);
            let target = if single { 0 } else { s.section };
            sections[target].append(&sw);
        }
    }
    let section_bytes: Vec<Vec<u8>> = sections.into_iter().map(|s| s.finish()).collect();

    // frame header + TOC
    let mut w = BitWriter::new();
    fh.write(&mut w, &spec.sel, img);
    // spec.toc_perm gives the bitstream order (position i holds logical section order[i]); the coded
    // permutation maps logical index -> bitstream position, i.e. it is the inverse.
    let (order, perm): (Vec<usize>, Option<Vec<u32>>) = match &spec.toc_perm {
        Some(p) if !single => {
            assert_eq!(p.len(), n_sections);
            let order: Vec<usize> = p.iter().map(|&x| x as usize).collect();
            let mut inv = vec![0u32; n_sections];
            for (pos, &logical) in order.iter().enumerate() {
                inv[logical] = pos as u32;
            }
            (order, Some(inv))
        }
        _ => ((0..n_sections).collect(), None),
    };
    // TOC entry i describes the section stored at bitstream position i; the coded permutation maps
    // logical section index -> position?  Convention (F.3.3): the decoder reads sizes in bitstream order and
    // section with logical index perm[i] is the i-th in the bitstream.
    let sizes: Vec<u32> = order.iter().map(|&s| section_bytes[s].len() as u32).collect();
    write_toc(&mut w, &spec.sel, &sizes, perm.as_deref(), &spec.toc_code);
    let header_bytes = w.bit_len() / 8;
    let mut bytes = w.finish();
    for &s in &order {
        bytes.extend_from_slice(&section_bytes[s]);
    }
    EncodedFrame { bytes, channels, num_sections: n_sections, section_sizes: sizes, header_bytes, lz77_copies }
}

/// Whole bare codestream: image header + frames.
pub fn write_codestream(img: &ImageHeader, sel: &Sel, frames: &[Vec<u8>]) -> Vec<u8> {
    let mut w = BitWriter::new();
    img.write(&mut w, sel);
    let mut out = w.finish();
    for f in frames {
        out.extend_from_slice(f);
    }
    out
}
