//! Entropy coding (ISO/IEC 18181-1 Annex C) — writer side, written from the format definition.
//! Prefix codes (Brotli style headers), ANS (all four histogram header forms, own alias table),
//! hybrid integers, context clustering, LZ77.

use crate::bits::{BitWriter, D};

// ------------------------------------------------------------------------------------------
// Hybrid unsigned integers

#[derive(Clone, Copy, Debug, PartialEq, Eq)]
pub struct HybridCfg {
    pub split_exponent: u32,
    pub msb: u32,
    pub lsb: u32,
}

fn ceil_log2(x: u32) -> u32 {
    // smallest n with 2^n >= x
    let mut n = 0;
    while (1u64 << n) < x as u64 {
        n += 1;
    }
    n
}

impl HybridCfg {
    pub fn new(split_exponent: u32, msb: u32, lsb: u32) -> Self {
        HybridCfg { split_exponent, msb, lsb }
    }

    pub fn write(&self, w: &mut BitWriter, log_alpha: u32) {
        w.write(ceil_log2(log_alpha + 1), self.split_exponent as u64);
        if self.split_exponent != log_alpha {
            w.write(ceil_log2(self.split_exponent + 1), self.msb as u64);
            w.write(ceil_log2(self.split_exponent - self.msb + 1), self.lsb as u64);
        } else {
            assert!(self.msb == 0 && self.lsb == 0);
        }
    }

    /// value -> (token, number of extra bits, extra bits)
    pub fn encode(&self, v: u32) -> (u32, u32, u32) {
        let split = 1u32 << self.split_exponent;
        if v < split {
            return (v, 0, 0);
        }
        let n = 31 - v.leading_zeros(); // position of the top bit
        let m = v - (1 << n);
        let token = split
            + ((n - self.split_exponent) << (self.msb + self.lsb))
            + ((m >> (n - self.msb)) << self.lsb)
            + (m & ((1 << self.lsb) - 1));
        let nbits = n - self.msb - self.lsb;
        let bits = (m >> self.lsb) & ((1u32 << nbits).wrapping_sub(1) | if nbits == 32 { u32::MAX } else { 0 });
        (token, nbits, bits)
    }

    /// reference decode of a token given extra bits (for self-tests)
    pub fn decode(&self, token: u32, bits: u32) -> u32 {
        let split = 1u32 << self.split_exponent;
        if token < split {
            return token;
        }
        let ml = self.msb + self.lsb;
        let n = self.split_exponent - ml + ((token - split) >> ml);
        let low = token & ((1 << self.lsb) - 1);
        let hi = ((token >> self.lsb) & ((1 << self.msb) - 1)) | (1 << self.msb);
        ((((hi as u64) << n) | bits as u64) << self.lsb) as u32 | low
    }

    pub fn nbits_of_token(&self, token: u32) -> u32 {
        let split = 1u32 << self.split_exponent;
        if token < split {
            0
        } else {
            let ml = self.msb + self.lsb;
            self.split_exponent - ml + ((token - split) >> ml)
        }
    }
}

// ------------------------------------------------------------------------------------------
// Prefix codes

#[derive(Clone, Debug)]
pub enum PrefixHeader {
    /// alphabet of one symbol (count == 1): nothing is written, no bits per symbol
    Trivial,
    /// hskip == 1; symbols in the order they are written; tree_select only for 4 symbols
    Simple { symbols: Vec<u32>, tree_select: bool },
    /// explicit code lengths (0..=15) for every symbol of the alphabet; `hskip` in {0,2,3};
    /// `rle`: use codes 16/17 for runs
    Complex { lengths: Vec<u8>, hskip: u32, rle: bool },
}

#[derive(Clone, Debug)]
pub struct PrefixCode {
    pub alphabet_size: u32,
    pub header: PrefixHeader,
    /// per symbol: (code bits MSB-first value, length); length 0 = unused (or sole symbol)
    pub codes: Vec<(u32, u8)>,
}

fn canonical_codes(lengths: &[u8]) -> Vec<(u32, u8)> {
    let mut codes = vec![(0u32, 0u8); lengths.len()];
    let mut code = 0u32;
    for len in 1..=15u8 {
        for (s, &l) in lengths.iter().enumerate() {
            if l == len {
                codes[s] = (code, len);
                code += 1;
            }
        }
        code <<= 1;
    }
    codes
}

fn write_code(w: &mut BitWriter, code: (u32, u8)) {
    // first bit of the code (MSB) goes first into the stream
    for i in (0..code.1).rev() {
        w.write(1, ((code.0 >> i) & 1) as u64);
    }
}

/// Huffman code lengths limited to `max_len` (simple flatten-and-retry heuristic).
pub fn huffman_lengths(counts: &[u64], max_len: u8) -> Vec<u8> {
    let n_used = counts.iter().filter(|&&c| c > 0).count();
    let mut lengths = vec![0u8; counts.len()];
    if n_used == 0 {
        return lengths;
    }
    if n_used == 1 {
        // caller handles the single-symbol case; give it length 0
        return lengths;
    }
    let mut floor = 0u64;
    loop {
        // nodes: (weight, left, right) ; leaves first
        let mut weight: Vec<u64> = Vec::new();
        let mut kids: Vec<Option<(usize, usize)>> = Vec::new();
        let mut sym: Vec<usize> = Vec::new();
        for (s, &c) in counts.iter().enumerate() {
            if c > 0 {
                weight.push(c.max(floor));
                kids.push(None);
                sym.push(s);
            }
        }
        let mut alive: Vec<usize> = (0..weight.len()).collect();
        while alive.len() > 1 {
            alive.sort_by(|&a, &b| weight[b].cmp(&weight[a]).then(b.cmp(&a)));
            let a = alive.pop().unwrap();
            let b = alive.pop().unwrap();
            weight.push(weight[a] + weight[b]);
            kids.push(Some((a, b)));
            alive.push(weight.len() - 1);
        }
        let mut depth = vec![0u8; weight.len()];
        let mut maxd = 0;
        for i in (0..weight.len()).rev() {
            if let Some((a, b)) = kids[i] {
                depth[a] = depth[i] + 1;
                depth[b] = depth[i] + 1;
            }
        }
        for i in 0..sym.len() {
            lengths[sym[i]] = depth[i];
            maxd = maxd.max(depth[i]);
        }
        if maxd <= max_len {
            return lengths;
        }
        let total: u64 = counts.iter().sum();
        floor = if floor == 0 { (total >> max_len).max(1) } else { floor * 2 };
    }
}

impl PrefixCode {
    pub fn trivial(alphabet_size: u32) -> Self {
        PrefixCode { alphabet_size, header: PrefixHeader::Trivial, codes: vec![(0, 0); alphabet_size as usize] }
    }

    pub fn simple(alphabet_size: u32, symbols: &[u32], tree_select: bool) -> Self {
        let mut codes = vec![(0u32, 0u8); alphabet_size as usize];
        let mut lengths = vec![0u8; alphabet_size as usize];
        match symbols.len() {
            1 => {}
            2 => {
                lengths[symbols[0] as usize] = 1;
                lengths[symbols[1] as usize] = 1;
            }
            3 => {
                lengths[symbols[0] as usize] = 1;
                lengths[symbols[1] as usize] = 2;
                lengths[symbols[2] as usize] = 2;
            }
            4 => {
                if !tree_select {
                    for &s in symbols {
                        lengths[s as usize] = 2;
                    }
                } else {
                    lengths[symbols[0] as usize] = 1;
                    lengths[symbols[1] as usize] = 2;
                    lengths[symbols[2] as usize] = 3;
                    lengths[symbols[3] as usize] = 3;
                }
            }
            _ => panic!("simple prefix code has 1..=4 symbols"),
        }
        if symbols.len() > 1 {
            codes = canonical_codes(&lengths);
        }
        PrefixCode { alphabet_size, header: PrefixHeader::Simple { symbols: symbols.to_vec(), tree_select }, codes }
    }

    pub fn complex(lengths: &[u8], hskip: u32, rle: bool) -> Self {
        PrefixCode {
            alphabet_size: lengths.len() as u32,
            header: PrefixHeader::Complex { lengths: lengths.to_vec(), hskip, rle },
            codes: canonical_codes(lengths),
        }
    }

    /// Chooses a header form automatically from symbol counts (alphabet = counts.len()).
    pub fn from_counts(counts: &[u64]) -> Self {
        let alphabet_size = counts.len() as u32;
        if alphabet_size == 1 {
            return Self::trivial(1);
        }
        let used: Vec<u32> = (0..counts.len()).filter(|&i| counts[i] > 0).map(|i| i as u32).collect();
        if used.is_empty() {
            return Self::simple(alphabet_size, &[0], false);
        }
        if used.len() == 1 {
            return Self::simple(alphabet_size, &used, false);
        }
        let lengths = huffman_lengths(counts, 15);
        if used.len() <= 4 {
            // order symbols so that the simple form reproduces these lengths
            let mut s = used.clone();
            s.sort_by_key(|&x| (lengths[x as usize], x));
            match s.len() {
                2 => return Self::simple(alphabet_size, &s, false),
                3 => return Self::simple(alphabet_size, &s, false),
                4 => {
                    let ts = lengths[s[0] as usize] == 1;
                    return Self::simple(alphabet_size, &s, ts);
                }
                _ => {}
            }
        }
        Self::complex(&lengths, 0, true)
    }

    pub fn write_header(&self, w: &mut BitWriter) {
        match &self.header {
            PrefixHeader::Trivial => {}
            PrefixHeader::Simple { symbols, tree_select } => {
                w.write(2, 1);
                w.write(2, (symbols.len() - 1) as u64);
                let bits = ceil_log2(self.alphabet_size);
                for &s in symbols {
                    w.write(bits, s as u64);
                }
                if symbols.len() == 4 {
                    w.write(1, *tree_select as u64);
                }
            }
            PrefixHeader::Complex { lengths, hskip, rle } => {
                assert!(*hskip == 0 || *hskip == 2 || *hskip == 3);
                w.write(2, *hskip as u64);
                // symbol stream over the code-length alphabet 0..=17
                let syms = code_length_symbols(lengths, *rle);
                let mut cl_counts = [0u64; 18];
                for &(s, _, _) in &syms {
                    cl_counts[s as usize] += 1;
                }
                const ORDER: [usize; 18] = [1, 2, 3, 4, 0, 5, 17, 6, 16, 7, 8, 9, 10, 11, 12, 13, 14, 15];
                // code-length-code lengths limited to 5
                let n_used = cl_counts.iter().filter(|&&c| c > 0).count();
                let mut cl_len = if n_used == 1 {
                    let mut v = vec![0u8; 18];
                    // single code length symbol: give it length... a lone symbol needs no bits; the header
                    // must still make the "space" computation terminate: the format reads lengths until
                    // space is exhausted or 18 entries; a single non-zero entry is allowed.
                    let s = cl_counts.iter().position(|&c| c > 0).unwrap();
                    v[s] = 1; // see below: with one non-zero length-code, symbols cost 0 bits
                    v
                } else {
                    huffman_lengths(&cl_counts, 5)
                };
                // entries skipped by hskip must be zero
                for i in 0..*hskip as usize {
                    assert!(cl_len[ORDER[i]] == 0, "hskip {} skips a used code-length symbol {}", hskip, ORDER[i]);
                }
                // write code length code lengths with the fixed code, until space exhausted
                let mut space: i32 = 32;
                let mut num_codes = 0;
                let single = n_used == 1;
                for i in *hskip as usize..18 {
                    let l = cl_len[ORDER[i]];
                    // fixed code: value -> (bits, nbits) written LSB-first
                    let (bits, nb): (u64, u32) = match l {
                        0 => (0b00, 2),
                        3 => (0b10, 2),
                        4 => (0b01, 2),
                        2 => (0b011, 3),
                        1 => (0b0111, 4),
                        5 => (0b1111, 4),
                        _ => unreachable!(),
                    };
                    w.write(nb, bits);
                    if l != 0 {
                        space -= 32 >> l;
                        num_codes += 1;
                        if space <= 0 {
                            break;
                        }
                    }
                }
                let _ = num_codes;
                if single {
                    // with a single non-zero code-length code the symbols are coded with zero bits
                    cl_len = cl_len.iter().map(|_| 0).collect();
                }
                let cl_codes = canonical_codes(&cl_len);
                for &(s, extra_bits, extra) in &syms {
                    write_code(w, cl_codes[s as usize]);
                    if extra_bits > 0 {
                        w.write(extra_bits, extra as u64);
                    }
                }
            }
        }
    }

    pub fn write_symbol(&self, w: &mut BitWriter, s: u32) {
        let c = self.codes[s as usize];
        match &self.header {
            PrefixHeader::Trivial => {}
            PrefixHeader::Simple { symbols, .. } if symbols.len() == 1 => {
                assert_eq!(symbols[0], s);
            }
            _ => {
                assert!(c.1 > 0, "symbol {s} has no code");
                write_code(w, c);
            }
        }
    }
}

/// Code-length symbol stream: (symbol 0..=17, number of extra bits, extra bits).
/// Trailing zeros are dropped when the Kraft sum is already complete.
fn code_length_symbols(lengths: &[u8], rle: bool) -> Vec<(u8, u32, u32)> {
    // the decoder stops once space is exhausted: find last non-zero
    let last = lengths.iter().rposition(|&l| l != 0).map(|p| p + 1).unwrap_or(0);
    let ls = &lengths[..last];
    let mut out = Vec::new();
    let mut i = 0;
    let mut prev_nonzero = 8u8;
    while i < ls.len() {
        let l = ls[i];
        let mut run = 1;
        while i + run < ls.len() && ls[i + run] == l {
            run += 1;
        }
        if rle && l == 0 && run >= 3 {
            // code 17, possibly chained: total = 3..10 for one; chained k: new = (old-2)*8 + 3 + extra
            emit_run(&mut out, 17, 3, run as u32);
            i += run;
            continue;
        }
        if rle && l != 0 {
            if l != prev_nonzero {
                out.push((l, 0, 0));
                prev_nonzero = l;
                i += 1;
                run -= 1;
            }
            if run >= 3 {
                emit_run(&mut out, 16, 2, run as u32);
                i += run;
                continue;
            }
            for _ in 0..run {
                out.push((l, 0, 0));
            }
            i += run;
            continue;
        }
        for _ in 0..run {
            out.push((l, 0, 0));
        }
        if l != 0 {
            prev_nonzero = l;
        }
        i += run;
    }
    out
}

/// Emits chained repeat codes so that the total repeat count is exactly `run`.
/// One code gives 3 + extra (extra < 2^ebits); a chain multiplies: new = (old - 2) << ebits + 3 + extra.
fn emit_run(out: &mut Vec<(u8, u32, u32)>, sym: u8, ebits: u32, run: u32) {
    let base = 1u32 << ebits;
    // find digits: run = f(d_k, f(d_{k-1}, ...)) with f(d, old) = (old-2)*base + 3 + d ; first: 3 + d
    // work backwards
    let mut digits = Vec::new();
    let mut r = run;
    loop {
        if r < 3 + base {
            digits.push(r - 3);
            break;
        }
        // r = (old-2)*base + 3 + d  => r - 3 = (old-2)*base + d
        let d = (r - 3) % base;
        let old = (r - 3) / base + 2;
        digits.push(d);
        r = old;
        if r < 3 {
            // cannot represent; fall back: split the run
            digits.clear();
            break;
        }
    }
    if digits.is_empty() {
        // fallback: single codes of maximal size followed by remainder (non-chained requires a separator,
        // so emit literal lengths instead is not possible here); use greedy chunks separated impossible ->
        // simply emit run as repeated minimal codes is chaining too. Use exact search over two-level chains.
        panic!("run {run} not representable");
    }
    digits.reverse();
    for d in digits {
        out.push((sym, ebits, d));
    }
}

// ------------------------------------------------------------------------------------------
// ANS

pub const ANS_TAB: u32 = 4096;

#[derive(Clone, Debug)]
pub enum HistHeader {
    Single,
    Binary,
    Flat,
    /// general form with this shift (0..=13); `rle_runs`: encode runs of equal logcounts (>= 4 + ...) with RLE
    General { shift: u32, rle: bool },
}

#[derive(Clone, Debug)]
pub struct AnsDist {
    /// frequencies, sum 4096, length <= 1 << log_alpha
    pub d: Vec<u16>,
    pub header: HistHeader,
}

fn write_u8(w: &mut BitWriter, v: u32) {
    if v == 0 {
        w.write(1, 0);
    } else {
        w.write(1, 1);
        let n = 31 - v.leading_zeros();
        w.write(3, n as u64);
        w.write(n, (v - (1 << n)) as u64);
    }
}

const LOGCOUNT_SYM: [u32; 14] = [17, 11, 15, 3, 9, 7, 4, 2, 5, 6, 0, 33, 1, 65];
const LOGCOUNT_LEN: [u32; 14] = [5, 4, 4, 4, 4, 4, 3, 3, 3, 3, 3, 6, 7, 7];

impl AnsDist {
    pub fn single(sym: u32) -> Self {
        let mut d = vec![0u16; sym as usize + 1];
        d[sym as usize] = 4096;
        AnsDist { d, header: HistHeader::Single }
    }
    pub fn binary(v1: u32, v2: u32, p1: u16) -> Self {
        let n = v1.max(v2) as usize + 1;
        let mut d = vec![0u16; n];
        d[v1 as usize] = p1;
        d[v2 as usize] = 4096 - p1;
        AnsDist { d, header: HistHeader::Binary }
    }
    pub fn flat(alphabet: u32) -> Self {
        let base = 4096 / alphabet;
        let rem = 4096 % alphabet;
        let d = (0..alphabet).map(|i| (base + if i < rem { 1 } else { 0 }) as u16).collect();
        AnsDist { d, header: HistHeader::Flat }
    }
    pub fn general(d: Vec<u16>, shift: u32, rle: bool) -> Self {
        assert_eq!(d.iter().map(|&x| x as u32).sum::<u32>(), 4096);
        AnsDist { d, header: HistHeader::General { shift, rle } }
    }

    /// Normalises counts to a distribution of total 4096 (every used symbol >= 1), picks a header form.
    pub fn from_counts(counts: &[u64], log_alpha: u32) -> Self {
        let used: Vec<usize> = (0..counts.len()).filter(|&i| counts[i] > 0).collect();
        assert!(counts.len() <= (1usize << log_alpha));
        if used.is_empty() {
            return Self::single(0);
        }
        if used.len() == 1 {
            return Self::single(used[0] as u32);
        }
        let total: u64 = counts.iter().sum();
        let mut d: Vec<u16> = counts
            .iter()
            .map(|&c| if c == 0 { 0 } else { ((c * 4096) / total).max(1) as u16 })
            .collect();
        // fix the sum on the largest entry
        loop {
            let s: i64 = d.iter().map(|&x| x as i64).sum();
            let diff = 4096 - s;
            if diff == 0 {
                break;
            }
            let (imax, _) = d.iter().enumerate().max_by_key(|(_, &x)| x).unwrap();
            let nv = d[imax] as i64 + diff;
            if nv >= 1 {
                d[imax] = nv as u16;
            } else {
                // spread the reduction
                for x in d.iter_mut() {
                    if *x > 1 {
                        *x -= 1;
                    }
                }
            }
        }
        if used.len() == 2 && used[1] < 256 {
            return AnsDist { d, header: HistHeader::Binary };
        }
        while d.last() == Some(&0) {
            d.pop();
        }
        while d.len() < 3 {
            d.push(0);
        }
        AnsDist { d, header: HistHeader::General { shift: 13, rle: true } }
    }

    pub fn write(&self, w: &mut BitWriter, log_alpha: u32) {
        let _ = log_alpha;
        match &self.header {
            HistHeader::Single => {
                w.write(1, 1);
                w.write(1, 0);
                let s = self.d.iter().position(|&x| x == 4096).unwrap();
                write_u8(w, s as u32);
            }
            HistHeader::Binary => {
                w.write(1, 1);
                w.write(1, 1);
                let idx: Vec<usize> = (0..self.d.len()).filter(|&i| self.d[i] > 0).collect();
                assert_eq!(idx.len(), 2);
                write_u8(w, idx[0] as u32);
                write_u8(w, idx[1] as u32);
                w.write(12, self.d[idx[0]] as u64);
            }
            HistHeader::Flat => {
                w.write(1, 0);
                w.write(1, 1);
                write_u8(w, self.d.len() as u32 - 1);
            }
            HistHeader::General { shift, rle } => {
                w.write(1, 0);
                w.write(1, 0);
                // shift: len = number of leading one-bits (max 3), then u(len): shift = u + (1<<len) - 1
                let shift = *shift;
                assert!(shift <= 13);
                let len = if shift == 0 { 0 } else { (32 - (shift + 1).leading_zeros() - 1).min(3) };
                for _ in 0..len {
                    w.write(1, 1);
                }
                if len < 3 {
                    w.write(1, 0);
                }
                w.write(len, (shift + 1 - (1 << len)) as u64);
                let n = self.d.len();
                assert!(n >= 3);
                write_u8(w, n as u32 - 3);
                let logcount: Vec<u32> = self.d.iter().map(|&x| if x == 0 { 0 } else { 32 - (x as u32).leading_zeros() }).collect();
                let maxlc = *logcount.iter().max().unwrap();
                let omit = logcount.iter().position(|&l| l == maxlc).unwrap();
                // logcounts with optional RLE (symbol 13 + u8(run-4)): repeats the previous logcount
                let mut i = 0;
                let mut rle_covered = vec![false; n];
                while i < n {
                    let put = |w: &mut BitWriter, s: u32| w.write(LOGCOUNT_LEN[s as usize], LOGCOUNT_SYM[s as usize] as u64);
                    put(w, logcount[i]);
                    let mut run = 0;
                    while i + 1 + run < n && logcount[i + 1 + run] == logcount[i] {
                        run += 1;
                    }
                    // RLE entries must all have identical *frequency* (they copy the previous D) and must not
                    // contain the omit position; an RLE symbol must not directly follow another.
                    if *rle && run >= 4 && logcount[i] != 13 {
                        let mut r = 0;
                        while r < run && self.d[i + 1 + r] == self.d[i] && i + 1 + r != omit && r < 255 + 4 {
                            r += 1;
                        }
                        if r >= 4 && i != omit {
                            put(w, 13);
                            write_u8(w, r as u32 - 4);
                            for k in 0..r {
                                rle_covered[i + 1 + k] = true;
                            }
                            i += 1 + r;
                            continue;
                        }
                    }
                    i += 1;
                }
                for i in 0..n {
                    if rle_covered[i] || i == omit {
                        continue;
                    }
                    let lc = logcount[i];
                    if lc <= 1 {
                        continue;
                    }
                    let bitcount = (shift as i32 - ((12 - lc as i32 + 1) >> 1)).max(0).min(lc as i32 - 1) as u32;
                    let rem = self.d[i] as u32 - (1 << (lc - 1));
                    let drop = lc - 1 - bitcount;
                    assert!(rem & ((1 << drop) - 1) == 0, "frequency {} not representable with shift {}", self.d[i], shift);
                    w.write(bitcount, (rem >> drop) as u64);
                }
            }
        }
    }
}

/// Alias table per the format's initialisation procedure.
#[derive(Clone, Debug)]
pub struct Alias {
    log_bucket: u32,
    symbols: Vec<u32>,
    offsets: Vec<u32>,
    cutoffs: Vec<u32>,
    /// reverse map: for symbol s, list of the 12-bit indices mapping to it ordered by offset
    rev: Vec<Vec<u16>>,
    d: Vec<u32>,
}

impl Alias {
    pub fn new(dist: &[u16], log_alpha: u32) -> Self {
        let table_size = 1usize << log_alpha;
        let log_bucket = 12 - log_alpha;
        let bucket = 1u32 << log_bucket;
        let mut d = vec![0u32; table_size];
        for (i, &x) in dist.iter().enumerate() {
            d[i] = x as u32;
        }
        let mut symbols = vec![0u32; table_size];
        let mut offsets = vec![0u32; table_size];
        let mut cutoffs = vec![0u32; table_size];
        if let Some(s) = d.iter().position(|&x| x == 4096) {
            for i in 0..table_size {
                symbols[i] = s as u32;
                offsets[i] = bucket * i as u32;
                cutoffs[i] = 0;
            }
        } else {
            let mut underfull = Vec::new();
            let mut overfull = Vec::new();
            for i in 0..table_size {
                cutoffs[i] = d[i];
                if cutoffs[i] > bucket {
                    overfull.push(i);
                } else if cutoffs[i] < bucket {
                    underfull.push(i);
                }
            }
            while let Some(o) = overfull.pop() {
                let u = underfull.pop().expect("alias: underfull empty");
                let by = bucket - cutoffs[u];
                cutoffs[o] -= by;
                symbols[u] = o as u32;
                offsets[u] = cutoffs[o];
                if cutoffs[o] < bucket {
                    underfull.push(o);
                } else if cutoffs[o] > bucket {
                    overfull.push(o);
                }
            }
            for i in 0..table_size {
                if cutoffs[i] == bucket {
                    symbols[i] = i as u32;
                    offsets[i] = 0;
                    cutoffs[i] = 0;
                } else {
                    offsets[i] = offsets[i].wrapping_sub(cutoffs[i]);
                }
            }
        }
        let mut a = Alias { log_bucket, symbols, offsets, cutoffs, rev: vec![Vec::new(); table_size], d };
        let mut tmp: Vec<Vec<(u32, u16)>> = vec![Vec::new(); table_size];
        for idx in 0..4096u32 {
            let (s, off) = a.lookup(idx);
            tmp[s as usize].push((off, idx as u16));
        }
        for (s, v) in tmp.iter_mut().enumerate() {
            v.sort();
            assert_eq!(v.len() as u32, a.d[s], "alias table: symbol {s} has {} slots, wants {}", v.len(), a.d[s]);
            for (k, (off, _)) in v.iter().enumerate() {
                assert_eq!(*off as usize, k);
            }
            a.rev[s] = v.iter().map(|x| x.1).collect();
        }
        a
    }

    pub fn lookup(&self, idx: u32) -> (u32, u32) {
        let i = (idx >> self.log_bucket) as usize;
        let pos = idx & ((1 << self.log_bucket) - 1);
        if pos >= self.cutoffs[i] {
            (self.symbols[i], self.offsets[i].wrapping_add(pos))
        } else {
            (i as u32, pos)
        }
    }
}

// ------------------------------------------------------------------------------------------
// Whole entropy-coded stream

#[derive(Clone, Debug)]
pub struct Lz77 {
    pub min_symbol: u32,
    pub min_length: u32,
    pub len_cfg: HybridCfg,
}

#[derive(Clone, Debug)]
pub enum ClusterCoding {
    /// nbits per entry (0..=3)
    Simple(u32),
    /// entropy coded, optionally move-to-front transformed
    Coded { mtf: bool },
}

#[derive(Clone, Debug)]
pub enum Dists {
    Prefix(Vec<PrefixCode>),
    Ans { log_alpha: u32, dists: Vec<AnsDist> },
}

#[derive(Clone, Debug)]
pub struct CodeSpec {
    /// number of contexts of the caller (without the LZ77 distance context)
    pub num_ctx: usize,
    pub lz77: Option<Lz77>,
    /// cluster of every context (length num_ctx + 1 if lz77 enabled)
    pub cluster_map: Vec<u8>,
    pub cluster_coding: ClusterCoding,
    pub cfgs: Vec<HybridCfg>,
    pub dists: Dists,
}

#[derive(Clone, Copy, Debug)]
pub enum Sym {
    /// literal value in context ctx
    Val { ctx: u32, value: u32 },
    /// LZ77 copy: `len` symbols, distance *value* as coded (after special-distance mapping), announced in ctx
    Copy { ctx: u32, len: u32, dist_value: u32 },
}

#[derive(Clone, Debug, Default)]
pub struct CodeOpts {
    pub use_prefix: bool,
    /// ANS log alphabet size (5..=8); 0 = smallest that fits
    pub log_alpha: u32,
    pub cfg: Option<HybridCfg>,
    pub lz77: Option<Lz77>,
    /// explicit cluster map (else one cluster per context, max 256, contexts merged round-robin beyond)
    pub cluster_map: Option<Vec<u8>>,
    pub cluster_coding: Option<ClusterCoding>,
    /// force general ANS form with this shift where possible
    pub ans_shift: Option<u32>,
    /// force flat prefix lengths / complex header even where simple would do
    pub force_complex_prefix: bool,
}

struct Tok {
    cluster: usize,
    token: u32,
    nbits: u32,
    bits: u32,
}

impl CodeSpec {
    fn num_clusters(&self) -> usize {
        self.cluster_map.iter().map(|&c| c as usize + 1).max().unwrap_or(1)
    }

    fn tokenize(&self, syms: &[Sym]) -> Vec<Tok> {
        let mut out = Vec::with_capacity(syms.len());
        for s in syms {
            match *s {
                Sym::Val { ctx, value } => {
                    let cl = self.cluster_map[ctx as usize] as usize;
                    let (token, nbits, bits) = self.cfgs[cl].encode(value);
                    if let Some(lz) = &self.lz77 {
                        assert!(token < lz.min_symbol, "literal token {token} collides with LZ77 min_symbol");
                    }
                    out.push(Tok { cluster: cl, token, nbits, bits });
                }
                Sym::Copy { ctx, len, dist_value } => {
                    let lz = self.lz77.as_ref().expect("copy without lz77");
                    let cl = self.cluster_map[ctx as usize] as usize;
                    let (t, nb, b) = lz.len_cfg.encode(len - lz.min_length);
                    out.push(Tok { cluster: cl, token: t + lz.min_symbol, nbits: nb, bits: b });
                    let dcl = self.cluster_map[self.num_ctx] as usize;
                    let (t, nb, b) = self.cfgs[dcl].encode(dist_value);
                    out.push(Tok { cluster: dcl, token: t, nbits: nb, bits: b });
                }
            }
        }
        out
    }

    /// Builds a code for the given symbols.
    pub fn build(num_ctx: usize, syms: &[Sym], opts: &CodeOpts) -> CodeSpec {
        let total_ctx = num_ctx + opts.lz77.is_some() as usize;
        let cluster_map: Vec<u8> = match &opts.cluster_map {
            Some(m) => {
                assert_eq!(m.len(), total_ctx);
                m.clone()
            }
            None => (0..total_ctx).map(|i| (i % 256) as u8).collect(),
        };
        let ncl = cluster_map.iter().map(|&c| c as usize + 1).max().unwrap_or(1);
        let log_alpha_cfg = if opts.use_prefix { 15 } else if opts.log_alpha == 0 { 8 } else { opts.log_alpha };
        let cfg = opts.cfg.unwrap_or(HybridCfg::new(4.min(log_alpha_cfg), 1.min(log_alpha_cfg), 0));
        let mut spec = CodeSpec {
            num_ctx,
            lz77: opts.lz77.clone(),
            cluster_map,
            cluster_coding: opts.cluster_coding.clone().unwrap_or(ClusterCoding::Simple(0)),
            cfgs: vec![cfg; ncl],
            dists: Dists::Prefix(vec![]),
        };
        // default cluster coding: simple with the smallest nbits if it fits, else coded
        if opts.cluster_coding.is_none() {
            let maxc = spec.cluster_map.iter().cloned().max().unwrap_or(0) as u32;
            spec.cluster_coding = if maxc < 8 {
                ClusterCoding::Simple(ceil_log2(maxc + 1))
            } else {
                ClusterCoding::Coded { mtf: false }
            };
        }
        let toks = spec.tokenize(syms);
        let mut counts: Vec<Vec<u64>> = vec![Vec::new(); ncl];
        for t in &toks {
            let c = &mut counts[t.cluster];
            if c.len() <= t.token as usize {
                c.resize(t.token as usize + 1, 0);
            }
            c[t.token as usize] += 1;
        }
        if opts.use_prefix {
            let codes = counts
                .iter()
                .map(|c| {
                    let mut c = c.clone();
                    if c.is_empty() {
                        c.push(0);
                    }
                    if opts.force_complex_prefix && c.iter().filter(|&&x| x > 0).count() >= 2 {
                        let l = huffman_lengths(&c, 15);
                        PrefixCode::complex(&l, 0, true)
                    } else {
                        PrefixCode::from_counts(&c)
                    }
                })
                .collect();
            spec.dists = Dists::Prefix(codes);
        } else {
            let maxtok = counts.iter().map(|c| c.len()).max().unwrap_or(1).max(1);
            let mut la = if opts.log_alpha == 0 { 5 } else { opts.log_alpha };
            while (1usize << la) < maxtok {
                la += 1;
            }
            assert!(la <= 8, "token {} does not fit an ANS alphabet", maxtok - 1);
            let dists = counts
                .iter()
                .map(|c| {
                    let mut c = c.clone();
                    if c.is_empty() {
                        c.push(0);
                    }
                    let mut d = AnsDist::from_counts(&c, la);
                    if let (Some(sh), HistHeader::General { .. }) = (opts.ans_shift, &d.header) {
                        d = requantise(&d.d, sh);
                    }
                    d
                })
                .collect();
            spec.dists = Dists::Ans { log_alpha: la, dists };
            // hybrid config must be valid for this log_alpha
            for c in spec.cfgs.iter_mut() {
                if c.split_exponent > la {
                    *c = HybridCfg::new(la, 0, 0);
                }
            }
            // re-tokenise not needed: cfg validity was ensured by the caller for ANS (default 4,1,0 fits la>=5)
        }
        spec
    }

    /// Writes the stream header (LZ77 params, clustering, configs, distributions).
    pub fn write_header(&self, w: &mut BitWriter) {
        let total_ctx = self.cluster_map.len();
        match &self.lz77 {
            None => w.write(1, 0),
            Some(lz) => {
                w.write(1, 1);
                w.u32([D::Val(224), D::Val(512), D::Val(4096), D::BitsOffset(15, 8)], lz.min_symbol);
                w.u32([D::Val(3), D::Val(4), D::BitsOffset(2, 5), D::BitsOffset(8, 9)], lz.min_length);
                lz.len_cfg.write(w, 8);
            }
        }
        if total_ctx > 1 {
            write_cluster_map(w, &self.cluster_map, &self.cluster_coding);
        }
        let ncl = self.num_clusters();
        match &self.dists {
            Dists::Prefix(codes) => {
                w.write(1, 1);
                for c in &self.cfgs {
                    c.write(w, 15);
                }
                assert_eq!(codes.len(), ncl);
                for code in codes {
                    let count = code.alphabet_size;
                    if count == 1 {
                        w.write(1, 0);
                    } else {
                        w.write(1, 1);
                        let n = 31 - (count - 1).leading_zeros();
                        w.write(4, n as u64);
                        w.write(n, (count - 1 - (1 << n)) as u64);
                    }
                }
                for code in codes {
                    if code.alphabet_size > 1 {
                        code.write_header(w);
                    }
                }
            }
            Dists::Ans { log_alpha, dists } => {
                w.write(1, 0);
                w.write(2, (*log_alpha - 5) as u64);
                for c in &self.cfgs {
                    c.write(w, *log_alpha);
                }
                assert_eq!(dists.len(), ncl);
                for d in dists {
                    d.write(w, *log_alpha);
                }
            }
        }
    }

    /// Writes the symbols (including the ANS initial state).
    pub fn write_symbols(&self, w: &mut BitWriter, syms: &[Sym]) {
        let toks = self.tokenize(syms);
        match &self.dists {
            Dists::Prefix(codes) => {
                for t in &toks {
                    codes[t.cluster].write_symbol(w, t.token);
                    w.write(t.nbits, t.bits as u64);
                }
            }
            Dists::Ans { log_alpha, dists } => {
                let tables: Vec<Alias> = dists.iter().map(|d| Alias::new(&d.d, *log_alpha)).collect();
                let mut state: u32 = 0x130000;
                let mut chunks: Vec<Option<u16>> = vec![None; toks.len()];
                for (i, t) in toks.iter().enumerate().rev() {
                    let a = &tables[t.cluster];
                    let freq = a.d[t.token as usize];
                    assert!(freq > 0, "ANS: token {} has zero frequency in cluster {}", t.token, t.cluster);
                    if (state >> 20) >= freq {
                        chunks[i] = Some((state & 0xffff) as u16);
                        state >>= 16;
                    }
                    let q = state / freq;
                    let r = state % freq;
                    state = (q << 12) | a.rev[t.token as usize][r as usize] as u32;
                }
                w.write(32, state as u64);
                for (i, t) in toks.iter().enumerate() {
                    if let Some(c) = chunks[i] {
                        w.write(16, c as u64);
                    }
                    w.write(t.nbits, t.bits as u64);
                }
            }
        }
    }
}

/// Re-quantises a distribution so every frequency is representable in the general form with `shift`.
pub fn requantise(d: &[u16], shift: u32) -> AnsDist {
    let mut out: Vec<u16> = d.to_vec();
    let lc = |x: u16| if x == 0 { 0 } else { 32 - (x as u32).leading_zeros() };
    for x in out.iter_mut() {
        let l = lc(*x);
        if l <= 1 {
            continue;
        }
        let bitcount = (shift as i32 - ((12 - l as i32 + 1) >> 1)).max(0).min(l as i32 - 1) as u32;
        let drop = l - 1 - bitcount;
        *x = ((*x as u32 >> drop) << drop) as u16;
    }
    // the omit symbol (first with max logcount) absorbs the remainder; it must keep the max logcount
    let maxlc = out.iter().map(|&x| lc(x)).max().unwrap();
    let omit = out.iter().position(|&x| lc(x) == maxlc).unwrap();
    let others: u32 = out.iter().enumerate().filter(|(i, _)| *i != omit).map(|(_, &x)| x as u32).sum();
    let rest = 4096 - others;
    out[omit] = rest as u16;
    // remainder may have grown in logcount; that is fine as long as it is still the first maximum
    let newlc = lc(out[omit]);
    assert!(newlc >= maxlc);
    for (i, &x) in out.iter().enumerate() {
        if i < omit {
            assert!(lc(x) < newlc);
        }
    }
    AnsDist { d: out, header: HistHeader::General { shift, rle: true } }
}

fn write_cluster_map(w: &mut BitWriter, map: &[u8], coding: &ClusterCoding) {
    match coding {
        ClusterCoding::Simple(nbits) => {
            w.write(1, 1);
            w.write(2, *nbits as u64);
            for &c in map {
                w.write(*nbits, c as u64);
            }
        }
        ClusterCoding::Coded { mtf } => {
            w.write(1, 0);
            w.write(1, *mtf as u64);
            let vals: Vec<u32> = if *mtf { mtf_forward(map) } else { map.iter().map(|&x| x as u32).collect() };
            let syms: Vec<Sym> = vals.iter().map(|&v| Sym::Val { ctx: 0, value: v }).collect();
            let opts = CodeOpts { use_prefix: true, ..Default::default() };
            let spec = CodeSpec::build(1, &syms, &opts);
            spec.write_header(w);
            spec.write_symbols(w, &syms);
        }
    }
}

/// Forward move-to-front so that the decoder's inverse MTF restores `map`.
pub fn mtf_forward(map: &[u8]) -> Vec<u32> {
    let mut table: Vec<u8> = (0..=255).collect();
    let mut out = Vec::with_capacity(map.len());
    for &v in map {
        let idx = table.iter().position(|&x| x == v).unwrap();
        out.push(idx as u32);
        table.remove(idx);
        table.insert(0, v);
    }
    out
}

pub fn pack_signed(v: i32) -> u32 {
    if v >= 0 {
        (v as u32) << 1
    } else {
        (((-(v as i64)) as u32) << 1) - 1
    }
}

/// Convenience: header + symbols.
pub fn encode_stream(w: &mut BitWriter, num_ctx: usize, syms: &[Sym], opts: &CodeOpts) {
    let spec = CodeSpec::build(num_ctx, syms, opts);
    spec.write_header(w);
    spec.write_symbols(w, syms);
}

/// LZ77 special distance table (Annex C): (dx, dy) offsets for distance symbols 0..119 when the
/// distance multiplier is non-zero.
pub const SPECIAL_DISTANCES: [(i8, u8); 120] = [
    (0, 1), (1, 0), (1, 1), (-1, 1), (0, 2), (2, 0), (1, 2), (-1, 2), (2, 1), (-2, 1), (2, 2), (-2, 2), (0, 3), (3, 0),
    (1, 3), (-1, 3), (3, 1), (-3, 1), (2, 3), (-2, 3), (3, 2), (-3, 2), (0, 4), (4, 0), (1, 4), (-1, 4), (4, 1), (-4, 1),
    (3, 3), (-3, 3), (2, 4), (-2, 4), (4, 2), (-4, 2), (0, 5), (3, 4), (-3, 4), (4, 3), (-4, 3), (5, 0), (1, 5), (-1, 5),
    (5, 1), (-5, 1), (2, 5), (-2, 5), (5, 2), (-5, 2), (4, 4), (-4, 4), (3, 5), (-3, 5), (5, 3), (-5, 3), (0, 6), (6, 0),
    (1, 6), (-1, 6), (6, 1), (-6, 1), (2, 6), (-2, 6), (6, 2), (-6, 2), (4, 5), (-4, 5), (5, 4), (-5, 4), (3, 6), (-3, 6),
    (6, 3), (-6, 3), (0, 7), (7, 0), (1, 7), (-1, 7), (5, 5), (-5, 5), (7, 1), (-7, 1), (4, 6), (-4, 6), (6, 4), (-6, 4),
    (2, 7), (-2, 7), (7, 2), (-7, 2), (3, 7), (-3, 7), (7, 3), (-7, 3), (5, 6), (-5, 6), (6, 5), (-6, 5), (8, 0), (4, 7),
    (-4, 7), (7, 4), (-7, 4), (8, 1), (8, 2), (6, 6), (-6, 6), (8, 3), (5, 7), (-5, 7), (7, 5), (-7, 5), (8, 4), (6, 7),
    (-6, 7), (7, 6), (-7, 6), (8, 5), (7, 7), (-7, 7), (8, 6), (8, 7),
];

/// Distance (in symbols) denoted by distance value `v` with multiplier `mult`.
pub fn lz77_distance(v: u32, mult: u32) -> u32 {
    if mult == 0 {
        v + 1
    } else if v >= 120 {
        v - 119
    } else {
        let (dx, dy) = SPECIAL_DISTANCES[v as usize];
        let d = dx as i64 + mult as i64 * dy as i64;
        d.max(1) as u32
    }
}
