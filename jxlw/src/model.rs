//! Reference semantics used as oracles: frame composition (blending onto reference slots).

use crate::headers::*;

#[derive(Clone, Debug)]
pub struct Canvas {
    pub w: usize,
    pub h: usize,
    /// planes: colour channels then extra channels, f64 in nominal range
    pub planes: Vec<Vec<f64>>,
}

impl Canvas {
    pub fn zeros(w: usize, h: usize, n: usize) -> Self {
        Canvas { w, h, planes: vec![vec![0.0; w * h]; n] }
    }
}

#[derive(Clone, Debug)]
pub struct FrameIn {
    pub header: FrameHeader,
    /// decoded samples of the frame, one plane per channel, frame-sized, nominal range
    pub planes: Vec<Vec<f64>>,
    /// patch dictionary of the frame (applied to the decoded samples before blending)
    pub patches: Vec<crate::patches::PatchRef>,
}

/// Composes frames in bitstream order; returns the canvas of every keyframe.
/// `n_colour` colour channels; `alpha_associated[i]` for extra channel i (None if not alpha).
pub fn composite(img: &ImageHeader, frames: &[FrameIn]) -> Vec<Canvas> {
    let (cw, ch) = (img.size.width as usize, img.size.height as usize);
    let n_colour = img.num_colour_channels();
    let n = n_colour + img.ec_info.len();
    let mut slots: [Option<Canvas>; 4] = [None, None, None, None];
    let mut out = Vec::new();
    for f in frames {
        let h = &f.header;
        let (fw, fh) = h.frame_size(img);
        let (fw, fh) = (fw as usize, fh as usize);
        let patched;
        let f = if f.patches.is_empty() {
            f
        } else {
            let mut planes = f.planes.clone();
            let premult: Vec<bool> = img.ec_info.iter().map(|e| e.alpha_associated && !e.all_default).collect();
            crate::patches::apply_patches(&mut planes, fw, fh, n_colour, &premult, &f.patches, &|i| slots[i as usize].as_ref().map(|c| (c.w, c.h, c.planes.clone())));
            patched = FrameIn { header: f.header.clone(), planes, patches: vec![] };
            &patched
        };
        let (x0, y0) = if h.eff_have_crop() && h.frame_type != FT_REFERENCE_ONLY { (h.x0 as i64, h.y0 as i64) } else { (0, 0) };
        if !h.normal_frame() {
            if h.frame_type == FT_REFERENCE_ONLY {
                // stored as decoded, at its own size
                let c = Canvas { w: fw, h: fh, planes: f.planes.clone() };
                slots[h.save_as_reference as usize] = Some(c);
            }
            continue;
        }
        let mut canvas = Canvas::zeros(cw, ch, n);
        let sample_at = |slot: &Option<Canvas>, c: usize, x: usize, y: usize| -> f64 {
            match slot {
                Some(s) if x < s.w && y < s.h => s.planes[c][y * s.w + x],
                _ => 0.0,
            }
        };
        for c in 0..n {
            let info = if c < n_colour { &h.blending_info } else { &h.ec_blending_info[c - n_colour] };
            let src = &slots[info.source as usize];
            let is_alpha_of_blend = c >= n_colour && (info.mode == BLEND_BLEND || info.mode == BLEND_MULADD) && (c - n_colour) as u32 == info.alpha_channel;
            let aidx = n_colour + info.alpha_channel as usize;
            let premult = if aidx < n { img.ec_info[aidx - n_colour].alpha_associated && !img.ec_info[aidx - n_colour].all_default } else { false };
            for y in 0..ch {
                for x in 0..cw {
                    let old = sample_at(src, c, x, y);
                    let fx = x as i64 - x0;
                    let fy = y as i64 - y0;
                    let inside = fx >= 0 && fy >= 0 && (fx as usize) < fw && (fy as usize) < fh;
                    let v = if !inside {
                        old
                    } else {
                        let fi = fy as usize * fw + fx as usize;
                        let new = f.planes[c][fi];
                        match info.mode {
                            BLEND_REPLACE => new,
                            BLEND_ADD => old + new,
                            BLEND_MUL => {
                                let nv = if info.clamp { new.clamp(0.0, 1.0) } else { new };
                                old * nv
                            }
                            BLEND_BLEND | BLEND_MULADD => {
                                let mut na = f.planes[aidx][fi];
                                if info.clamp {
                                    na = na.clamp(0.0, 1.0);
                                }
                                let oa = sample_at(src, aidx, x, y);
                                if info.mode == BLEND_MULADD {
                                    if is_alpha_of_blend {
                                        old
                                    } else {
                                        old + new * na
                                    }
                                } else if is_alpha_of_blend {
                                    oa + na * (1.0 - oa)
                                } else if premult {
                                    new + old * (1.0 - na)
                                } else {
                                    let outa = oa + na * (1.0 - oa);
                                    if outa == 0.0 {
                                        0.0
                                    } else {
                                        (new * na + old * oa * (1.0 - na)) / outa
                                    }
                                }
                            }
                            _ => unreachable!(),
                        }
                    };
                    canvas.planes[c][y * cw + x] = v;
                }
            }
        }
        let is_last = h.eff_is_last();
        let duration = if img.animation.is_some() { h.duration } else { 0 };
        let can_reference = !is_last && (duration == 0 || h.save_as_reference != 0);
        if can_reference {
            slots[h.save_as_reference as usize] = Some(canvas.clone());
        }
        if is_last || duration != 0 {
            out.push(canvas);
        }
    }
    out
}
