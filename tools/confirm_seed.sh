#!/bin/bash
# usage: [EXTRA_DIR=<fixture dir>] confirm_seed.sh <ID> <crate-for-demo> <demo-file>... ; demo files are taken from /tmp/wt-out/<ID>/
# Confirms a seeded mutant independently: applies to a scratch worktree of /repo HEAD, runs the repo suite
# (only always-fail fixture tests may fail), runs the demo with and without the change; stores it in /verif/seeded/<ID>/.
set -u
ID=$1; CRATE=$2; shift 2
SRC=/tmp/wt-out/$ID
WT=/tmp/cs/$ID
export CARGO_TARGET_DIR=/tmp/cs/target CARGO_NET_OFFLINE=true
mkdir -p /tmp/cs
git -C /repo worktree remove --force $WT 2>/dev/null
git -C /repo worktree add --detach $WT HEAD >/dev/null 2>&1 || { echo "$ID: worktree failed"; exit 2; }
cd $WT
if ! git apply $SRC/patch.diff; then echo "$ID: PATCH DOES NOT APPLY"; git -C /repo worktree remove --force $WT; exit 1; fi
cargo test --workspace --no-fail-fast --offline > /tmp/cs/$ID.suite.log 2>&1
python3 - "$ID" <<'PY' > /tmp/cs/$ID.suite.verdict
import json,re,sys
b=json.load(open('/root/.vp/BASELINE.json'))
stable=set(x.split('::',1)[1] for x in b['stable_pass'])
log=open(f'/tmp/cs/{sys.argv[1]}.suite.log').read()
ok=set(re.findall(r'^test (\S+)(?: - should panic)? \.\.\. ok',log,re.M)); failed=set(re.findall(r'^test (\S+)(?: - should panic)? \.\.\. FAILED',log,re.M))
def norm(s): return s.replace('test::','',1) if s.startswith('test::') else s
okn={norm(x) for x in ok}|ok; 
missing=[s for s in stable if not any(s==o or s.endswith('::'+o) or o.endswith(s) or s.split('::',1)[-1]==o for o in ok)]
bad=[f for f in failed if any(s.endswith(f) or f.endswith(s.split('::',1)[-1]) for s in stable)]
print(json.dumps({"ok":len(ok),"failed":len(failed),"stable_missing":missing[:10],"stable_failed":bad[:10]}))
PY
cat /tmp/cs/$ID.suite.verdict
TESTS=""
for f in "$@"; do mkdir -p crates/$CRATE/tests; cp $SRC/$f crates/$CRATE/tests/; TESTS="$TESTS --test ${f%.rs}"; done
if [ -n "${EXTRA_DIR:-}" ]; then cp -r $SRC/$EXTRA_DIR crates/$CRATE/tests/; mkdir -p /verif/seeded/$ID; cp -r $SRC/$EXTRA_DIR /verif/seeded/$ID/; fi
cargo test -p $CRATE $TESTS --offline > /tmp/cs/$ID.demo_with.log 2>&1; WITH=$?
git apply -R $SRC/patch.diff
cargo test -p $CRATE $TESTS --offline > /tmp/cs/$ID.demo_without.log 2>&1; WITHOUT=$?
echo "$ID demo exit with-change=$WITH without-change=$WITHOUT"
mkdir -p /verif/seeded/$ID
cp $SRC/patch.diff /verif/seeded/$ID/
for f in "$@"; do cp $SRC/$f /verif/seeded/$ID/; done
cp $SRC/demo_cmd.txt /verif/seeded/$ID/ 2>/dev/null
python3 - "$ID" "$WITH" "$WITHOUT" "$CRATE" "$@" <<'PY'
import json,sys
ID,WITH,WITHOUT,CRATE=sys.argv[1:5]; demos=sys.argv[5:]
try: m=json.load(open(f'/tmp/wt-out/{ID}/meta.json'))
except Exception as e: m={"property":ID,"summary":"(agent meta unreadable)"}
m["confirmed_by_me"]={"base":"scratch worktree of /repo HEAD (hooks + fix commits) + patch.diff",
  "suite_cmd":"cargo test --workspace --no-fail-fast --offline","suite":json.load(open(f'/tmp/cs/{ID}.suite.verdict')),
  "demo_cmd":f"cargo test -p {CRATE} "+" ".join("--test "+d[:-3] for d in demos)+" --offline",
  "demo_exit_with_change":int(WITH),"demo_exit_without_change":int(WITHOUT),
  "confirmed": int(WITH)!=0 and int(WITHOUT)==0}
json.dump(m,open(f'/verif/seeded/{ID}/meta.json','w'),indent=1)
print(ID,"confirmed" if m["confirmed_by_me"]["confirmed"] else "NOT CONFIRMED")
PY
cd /; git -C /repo worktree remove --force $WT
