#!/usr/bin/env python3
"""Regenerates /verif/MANIFEST.json from the table below (single source of truth)."""
import json, os
HERE = os.path.dirname(os.path.dirname(os.path.abspath(__file__)))
props = [json.loads(l)["id"] for l in open(os.path.join(HERE, "properties.jsonl"))]

# id -> dict(category, text, note, technique, design_ref, engine)
CHECKS = {
 "C10": dict(category="model_checking",
   text="Explicit enumeration of every box sequence up to length 3 (quick) / 4 (thorough) over a 31-element box alphabet (all size forms, jxlc/jxlp indices and last flags, brob incl. reserved inner types, undersized and ill-sized boxes), longer sequences over a reduced alphabet, each parsed by the real ContainerParser whole, at every 2-chunking, byte-at-a-time and fixed chunk sizes, judged against an independent one-pass reference demuxer; then container layouts around a real codestream driven through JxlImage (Brotli boxes, Exif/xml accessors, rendered samples) at every 2-chunking. Bounded-exhaustive, not sampled.",
   note="Trusted: the reference demuxer in jxlw::container (40 lines, written from the format definition); Brotli limited to stored meta-blocks; payload sizes <= 12 bytes; sequences longer than the bound are not covered.",
   technique="explicit-state enumeration of box sequences x feed chunkings on the real parser vs reference demuxer",
   design_ref="4/C10", engine="mc"),
 "C03": dict(category="exploration",
   text="Every encoder configuration within 2 (quick) / 3 (thorough) deviations of a default over 17 dimensions (image size incl. multi-group, channel layout, bit depth 1..31 and float, sample pattern, 36 MA-tree shapes covering every predictor and property class, leaf offset/multiplier, weighted-predictor parameters, 28 transform stacks incl. RCT kinds/permutations, squeeze default/explicit, palette with explicit delta, implicit and negative indices, prefix/ANS coders, LZ77 header, global vs local tree, group size, passes, TOC permutation, buffer width) plus the full product predictor x tiny sizes x leaf variant x coder x width; each stream written by the independent reference writer jxlw, decoded by jxl-oxide and compared sample-exactly as integers.",
   note="Trusted: jxlw (writer + reference inverse transforms, written from the format definition; agreed with the decoder on bring-up). Excluded as oracle-uncertain: dim_shift>0, implicit palette entries at depth>24, ec_upsampling>1. Images up to 300x70 / 257x129.",
   technique="deviation-bounded exhaustive enumeration of encoder configurations vs independent reference encoder",
   design_ref="4/C03", engine="mc"),
 "C04": dict(category="exploration",
   text="Small-scope exhaustive families driven straight into jxl_coding::Decoder: every Kraft-complete prefix length vector (alphabet <= 5/6) x hskip x RLE x all short sequences, every simple-form header, deep/flat codes up to 2^15 symbols, ANS single/binary/flat for every alphabet size and table size, general histograms on a grid x 14 shifts x layouts x RLE segmentations, every legal hybrid-integer config, every hole-free cluster map (<= 5/6 contexts) in simple/coded/MTF form, LZ77 parameter forms x 123 distance symbols x multipliers incl. the 2^20 window boundary, all permutations of size <= 5. Oracle: decoded values, ANS final state, exact bit position.",
   note="Trusted: jxlw::entropy (independent encoder with its own alias-table and header writers). Long sequences are one distribution-driven sequence per code, seeded by VERIF_SEED. A copy as the very first LZ77 symbol is excluded (oracle-uncertain).",
   technique="small-scope exhaustive enumeration of codes/configs/sequences vs independent reference encoder",
   design_ref="4/C04", engine="mc"),
 "C14": dict(category="exploration",
   text="Image header (28 field dimensions) within 3 (quick) / 4 (thorough) deviations of the default and frame header + TOC (38 dimensions, 6 image contexts) within 2 / 3 deviations, every field over its boundary alphabet incl. forced widest U32/U64 selectors, F16 extremes, 1071-byte names, extension payloads up to 4096 bits, TOC permutations; written by jxlw, parsed through the public Bundle::parse of ImageHeader / FrameHeader / Frame, every reported field and the parser's final bit position compared.",
   note="Trusted: jxlw::headers. Oracle-uncertain combinations excluded (XYB enum colour space, Mul clamp without extra channels, EC blend source with mixed Replace).",
   technique="deviation-bounded exhaustive enumeration of header field assignments vs independent reference writer",
   design_ref="4/C14", engine="mc"),
 "C09": dict(category="model_checking",
   text="Feed histories enumerated exhaustively on the real decoder: every 2-chunking of every corpus stream (17 jxlw streams: bare/container, jxlp splits with brob/Exif/xml, single/multi-frame animations and layers, multi-group and multi-pass frames, permuted TOC) plus every 3-chunking for streams up to 90/200 bytes and fixed chunk sizes 1,2,3,5,7,64, and the libjxl-encoded cmyk_layers.jxl around every frame offset; protocol = unconsumed bytes re-offered, try_init after each chunk. Oracle: the same decoder reading the whole buffer (headers, frame count, offsets, aux boxes, completion flag, ICC, rendered sample bits).",
   note="Differential: a defect that affects whole-buffer and chunked reading identically is invisible here (C03/C10/C14 cover that side). Modular-only corpus plus one real file.",
   technique="exhaustive enumeration of feed chunkings on the real decoder, differential vs whole-buffer read, abstract-state accounting",
   design_ref="4/C09", engine="mc"),
 "C11": dict(category="model_checking",
   text="Every cut position of every corpus stream with try_init + render_loading_frame at the cut, every pair of cuts with render attempts at every non-empty subset (streams up to 80/160 bytes; grid + adjacent pairs above), byte-at-a-time with a render after every byte, and cmyk_layers.jxl (as container and as extracted codestream) around every frame offset and every byte of the last 40 bytes of its ICC stream. Oracle: init Ok/NeedMoreData, feeding never errs, loading render = full-size image or need-more-data, final result identical to one-shot decode.",
   note="Need-more-data = jxl_render::Error with unexpected_eof(), IncompleteFrame or NotReady. Modular-only corpus plus one real file.",
   technique="exhaustive enumeration of cut positions / cut pairs x render attempts on the real decoder",
   design_ref="4/C11", engine="mc"),
 "C06": dict(category="exploration",
   text="For every corpus stream (multi-group, squeeze+passes, orientation, animations/layers with every blend mode and out-of-canvas crops, reference frames) and cmyk_layers.jxl: every rectangle on small images, every rectangle with corners on the per-axis critical set (group/lane boundaries) otherwise, and ALL region-request histories of length 2 over a 6-rectangle alphabet followed by a third request or 'full', every step and keyframe compared with the same rectangle of the full render within 1e-6.",
   note="Differential (full render of the same decoder is the reference). Modular-only corpus + one real file: VarDCT-only padding logic (EPF, Gabor, upsampling, noise) is not reached.",
   technique="exhaustive enumeration of rectangles and region-request histories, differential vs full render",
   design_ref="4/C06", engine="mc"),
 "C12": dict(category="exploration",
   text="Full shape sweep W x H in {1..70}^2 (thorough adds 127..129, 255..257) x 13 transform stacks x sample patterns on 12-bit images, plus all 36 tree shapes x depths x extra-channel layouts; each stream declares 16-bit buffers only when the reference forward pass proves every intermediate fits i16; default (narrow, AVX2 kernels) decode vs force_wide_buffers (scalar i32) compared integer-exactly on every channel.",
   note="Differential between the two buffer widths; correctness against the encoded samples is C03. Only the SIMD paths this CPU selects are reached.",
   technique="exhaustive shape x transform sweep, differential narrow vs wide decode",
   design_ref="4/C12", engine="mc"),
 "C15": dict(category="exploration",
   text="Full product of tiny images x 6 channel layouts x depths {5,8,12,16,f32} x orientations 1..8 x every crop rectangle x {interleaved, planar, stream, stream_no_alpha} x {f32,u16,u8} x write-buffer sizes {1,3,exact,oversized}; every output sample compared with the known samples moved by the EXIF coordinate map, and integer streams with the rounding rule; CMYK+alpha channel order on the real file.",
   note="Trusted: jxlw streams carry known samples (C03), reference orientation maps written from the EXIF definitions. Spot colours excluded.",
   technique="full-product enumeration vs reference coordinate maps and rounding rule",
   design_ref="4/C15", engine="mc"),
 "C05": dict(category="exploration",
   text="Multi-frame images on a 5x4 canvas (lossless Modular, RGB+alpha+optional second extra channel): every configuration within 2 (quick, up to 3 frames) / 3 (thorough, up to 4 frames) deviations over image dims (straight/premultiplied alpha, alpha depth vs colour depth) and per-frame dims (type, duration, save slot, 5 blend modes, source slot, clamp, 9 crop kinds incl. outside/larger than canvas, EC blend variants, sample pattern) and keyframe request order, plus the full product for two frames over modes x slots x crops; every keyframe compared with an independent reference compositor within 1e-5.",
   note="Trusted: jxlw::model::composite. Not covered: patches (no patch writer), save_before_ct on normal frames, cropped ReferenceOnly frames, the EC blend-source zone where spec readings differ.",
   technique="deviation-bounded + full-product enumeration of frame sequences vs reference compositor",
   design_ref="4/C05", engine="mc"),
 "C20": dict(category="model_checking",
   text="Stateless model checking of the real render-handle code under a cooperative scheduler (one controlled OS thread runs at a time; scheduling points = every Mutex lock, Condvar wait/notify of the protocol, via cfg-gated shims): 24 (quick) / 51 scenarios = images with reference chains x 2-3 caller threads on same/different keyframes x optional injected allocation failure, ALL schedules within 2 (quick) / 3 (thorough) deviations from the default schedule, every execution run to completion. Oracle: no deadlock (no enabled thread while a caller waits), every caller returns, every Ok bit-identical to the sequential render, errors only with an injected fault, a frame's render operation never runs twice at once nor twice per region.",
   note="Assumes the shimmed Mutex/Condvar operations are the only blocking synchronisation of the protocol (a 60 s no-progress watchdog turns anything else into a machinery failure, not a verdict). Weak-memory effects and data races not crossing a scheduling point are outside. Largest scenario capped (reported).",
   technique="stateless model checking: exhaustive schedule enumeration up to a deviation bound on the real code under a controlled scheduler",
   design_ref="2.3, 4/C20", engine="mc"),
 "C08": dict(category="fault_enumeration",
   text="For each of 6 (quick) / 11 streams with reference chains, blending, layered keyframes and multi-group frames with (unequal) local trees: every tracked allocation index k of a clean read + render, failed once or from k on, x every call history of length <= 2 (and length 3 ending in a render) over {render each keyframe, lift the fault, re-request full/quarter region, render the loading frame}, executed on a thread controlled by the cooperative scheduler so that a blocked caller is a reported deadlock; any full-region render that succeeds must be bit-identical to the never-failed render.",
   note="Fault model = AllocTracker refusing an attempt (cfg-gated hook); untracked heap allocations are not failed; pool none; corrupt-group faults are part of C07's scenarios.",
   technique="exhaustive fault-point x call-history enumeration on the real code, deadlock detection by controlled scheduler",
   design_ref="4/C08", engine="mc"),
 "C13": dict(category="fault_enumeration",
   text="Allocation profile of an unlimited decode+render recorded per stream (cfg-gated attempt log); the limit then takes every value at which an outcome can change (outstanding+request of every attempt and its neighbours, 0, 1, ample) x 5 call histories ending with dropping every object, on the jxlw corpus and the repository's hostile fuzz regressions. Oracle: no panic, tracked high-water <= limit, a refused allocation is never swallowed (Ok renders equal the unlimited render), outstanding = 0 and full budget restorable after drop.",
   note="Only tracker-governed memory; quick tier samples ~120 limits per stream from the sorted set (thorough: all).",
   technique="exhaustive enumeration of outcome-changing limits x call histories",
   design_ref="4/C13", engine="mc"),
 "C07": dict(category="model_checking",
   text="Every pool task order within 2 (quick) / 3 (thorough) deviations of FIFO, on the real renderer driven through a cfg-gated sequential pool whose every decision (which pending scope task / for_each element runs next, whether a fire-and-forget reference render is deferred and when it runs, whether per-worker scratch is re-created) is owned by a choice tape; 25 scenarios: multi-group, multi-pass, squeeze, local-tree frames, animations and layered images with reference chains, and multi-group streams with each section corrupted in turn; every keyframe rendered twice. Oracle: each call's Ok/Err and sample bits identical to the pool-less render. Plus free-running renders on real rayon pools of several sizes (supporting, sampling).",
   note="The sequential pool decides order-dependence (last/first finisher, stale scratch, early/late background renders), not true data races or rayon-internal interleavings; those are only sampled by the rayon runs. Modular-only corpus.",
   technique="exhaustive enumeration of pool task orders up to a deviation bound on the real renderer (controlled sequential pool), differential vs pool-less render",
   design_ref="2.3, 4/C07", engine="mc"),
 "C16": dict(category="exploration",
   text="For all 27 varblock transform types on every code path (generic, SSE2, SSE4.1 through a cfg-gated hook, independent of runtime dispatch): unit impulses at every coefficient position (thorough; quick: every position up to 64x64 and a capped row/column/diagonal/lattice set above) plus DC-only, all-ones and pseudo-random blocks, under sub-grid offsets and padded strides with canaries. Oracle: all paths and alignments agree within 5e-5 of the block maximum; the 18 DCT-family types equal the separable inverse DCT evaluated in f64 within 1e-4; a DC-only block is flat for every type. By linearity the impulses determine each operator completely.",
   note="For Hornuss, DCT2x2, DCT4x4, DCT4x8/8x4 and AFV the reference does not model the coefficient arrangement: they are covered by path agreement, superposition inputs and the DC definition only. Rectangular-DCT coefficient layout is inferred from one impulse. LF injection is not isolated here.",
   technique="exhaustive basis-vector enumeration (complete by linearity) vs f64 definition and across code paths",
   design_ref="4/C16", engine="mc"),
 "C18": dict(category="exploration",
   text="Profiles (byte strings of lengths 0..133, hand-built profiles hitting every tag shortcut and header prediction, decoder-synthesised profiles, the 557 KB real profile) x tag-list forms {none, explicit, shortcuts} x command plans: every single command, every ordered pair of command kinds (raw, shuffle 2/4, predicted runs of width 1/2/4 x order 0/1/2 x stride w/w+1/8) x split points on a critical set, three-command plans, XYZ/type-string commands; decode_icc(encoded) must equal the profile byte for byte. Plus ~25 classes of inconsistent encodings per profile that must be rejected, and every profile through the whole image path (original_icc) under 5 entropy-coder configurations.",
   note="Trusted: jxlw::icc (plan-driven encoder from the format's ICC annex). Tag entries pointing beyond the profile end are excluded (the decoder rejects them; whether the format allows them is uncertain).",
   technique="small-scope exhaustive enumeration of ICC command plans vs independent reference encoder",
   design_ref="4/C18", engine="mc"),
 "C19": dict(category="exploration",
   text="Full product of 3584 enumerated encodings ({RGB, Grey} x 8 white points x 7 primaries x 14 transfer functions x 4 intents, custom values on lattices of real chromaticities/gammas): synthesise ICC, parse back, compare per the statement. Transfer functions (sRGB, BT.709, DCI, gamma, PQ, HLG) through the public ColorTransform: linear -> curve -> linear on every 4096th (quick) / EVERY (thorough, 1.56e9 samples) f32 in [4.7e-10, 1], every slice length 1..67 (vector tails), round-trip error within per-curve tolerances and encode monotone; identity conversions bit-exact.",
   note="Tolerances fixed from the unchanged tree with >= 4x margin (sRGB 2e-3 because its encode is a ~1.7e-4 approximation by design). Open known findings: synthesised PQ/HLG profiles are not recognised when parsed back. Gamma fields above 1.0 excluded.",
   technique="full-product enumeration of encodings; exhaustive f32 sweep of transfer curves",
   design_ref="4/C19", engine="mc"),
}
NOT_YET = "check not built yet in this round (work in progress; see DESIGN.md section 10)"
NA = {}

checks = []
for pid in props:
    if pid in CHECKS:
        c = CHECKS[pid]
        checks.append({
            "property_id": pid,
            "quick_cmd": f"./check {pid} --tier quick",
            "thorough_cmd": f"./check {pid} --tier thorough",
            "evidence_file": f"/verif/evidence/{pid}.json",
            "replay_cmd_template": f"./check {pid} --replay {{path}}",
            "engine": c["engine"],
            "level_claimed": {"category": c["category"], "text": c["text"], "design_ref": c["design_ref"]},
            "level_note": c["note"],
            "technique": c["technique"],
        })
na = [{"property_id": p, "reason": NA.get(p, NOT_YET)} for p in props if p not in CHECKS]
hooks_commits = [l.strip() for l in os.popen("git -C /repo log --format=%h --grep='^verif hook'").read().split()]
m = {
 "version": 1,
 "setup_cmd": "cd /verif && CARGO_NET_OFFLINE=true cargo build --offline --release -p mc && CARGO_NET_OFFLINE=true cargo build --offline --profile checked -p mc",
 "hooks": {
   "guard": "--cfg jxl_oxide_verif",
   "enable": "RUSTFLAGS='--cfg jxl_oxide_verif' (set in /verif/.cargo/config.toml; the checker crate depends on /repo/crates/* by path, so every build uses /repo's current working tree)",
   "baseline_off_cmd": "cd /repo && cargo nextest run --workspace --no-fail-fast --tool-config-file pb:/w/lib/nextest.toml --profile pb --test-threads 8 --offline",
   "source_commits": hooks_commits,
   "add_only": False,
 },
 "engines": [
   {"name": "mc", "path": "/verif/mc", "serves_properties": sorted(CHECKS), "kind_free_text": "bounded exhaustive explorer (choice tape, deviation bounds, explicit enumeration) driving the real jxl-oxide crates"},
   {"name": "jxlw", "path": "/verif/jxlw", "serves_properties": sorted(CHECKS), "kind_free_text": "independent reference writer and reference semantics of the JPEG XL format (oracle side)"},
 ],
 "checks": checks,
 "not_applicable": na,
 "notes": "Exit protocol: 0 held, 1 VIOLATION, 2 machinery failure (never a verdict). known_findings.json is read-only at run time.",
}
json.dump(m, open(os.path.join(HERE, "MANIFEST.json"), "w"), indent=1)
print("checks:", [c["property_id"] for c in checks], "n/a:", len(na))
