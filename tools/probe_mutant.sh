#!/bin/bash
# usage: probe_mutant.sh <patch.diff> <CHECK-ID>...   (applies the patch to /repo, runs the quick checks, reverts)
# prints one line per check: <patch> <check> exit=<rc> violations=<n>
set -u
P=$1; shift
cd /verif
if ! git -C /repo diff --quiet; then echo "/repo is not clean"; exit 2; fi
if ! git -C /repo apply "$P"; then echo "$P APPLY-FAILED"; exit 3; fi
for C in "$@"; do
  OUT=$(timeout 1800 ./check $C --tier quick 2>&1); RC=$?
  NV=$(echo "$OUT" | grep -c "^VIOLATION")
  echo "$P $C exit=$RC violations=$NV $(echo "$OUT" | grep -m1 'key=' | cut -c1-160)"
done
git -C /repo checkout -- .
