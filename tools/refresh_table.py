#!/usr/bin/env python3
"""Rewrites the last two columns of DESIGN.md table 0.3 from evidence files: quick from the directory given as argv[1],
thorough from /verif/evidence."""
import json, re, sys, os
qdir = sys.argv[1]
p = '/verif/DESIGN.md'
s = open(p).read()
def fmt(n): return f"{n:,}".replace(",", " ")
out = []
seen_second = False
for line in s.split("\n"):
    if line.startswith("### 0.4"):
        seen_second = True  # only table 0.3 carries numbers
    m = re.match(r"^\| (C\d\d) \|", line)
    if m and line.count("|") >= 6:
        cid = m.group(1)
        try:
            q = json.load(open(os.path.join(qdir, f"evq_{cid}.json")))
            t = json.load(open(f"/verif/evidence/{cid}.json"))
            if t.get("tier") != "thorough":
                raise ValueError("not thorough")
            cells = line.split("|")
            cells[-3] = f" {fmt(q['coverage']['evaluations'])} / {fmt(t['coverage']['evaluations'])} "
            cells[-2] = f" {round(q['wall_s'])} s / {round(t['wall_s'])} s "
            line = "|".join(cells)
        except Exception as e:
            print("skip", cid, e)
    out.append(line)
open(p, 'w').write("\n".join(out))
